/* C40: virtual-process maps.  Unit: the real parsec/vpmap.c (included: static parsers and
 * static map state reached directly), entry point parsec_vpmap_init(spec, nb_threads),
 * observed through parsec_vpmap_get_nb_vp / _get_vp_threads / _get_vp_thread_cores /
 * _get_vp_thread_affinity / _get_nb_total_threads, then parsec_vpmap_fini.
 *
 * KIND (enumerated by spec.py):
 *   0  plain specifications: NULL, "flat", "display:flat", "display", "junk", "",
 *      "rr:x" (malformed), "file:missing" (fopen fails)      -> the flat map
 *   1  "rr:n:p:c" with (n,p,c) chosen by the solver from a table, including invalid ones
 *   2  "file:f": the file is a sequence of <= NLINES lines, each chosen by the solver
 *      from a table of line templates ([rank]:nb_threads:binding with list / range /
 *      hex-mask bindings, a line for another rank, a malformed line, a thread count <= 0)
 * As in C39 the symbolic choices are decoded in loops with concrete counters so that every
 * instance is folded by symbolic execution; all combinations are covered by one query.
 * NCORES (cores seen through the hwloc stubs) and NBT (the nb_threads argument) are enumerated.
 *
 * Obligations: number of VPs and threads per VP as specified (flat map for anything that
 * is not a valid specification); every core index handed to the bitmap layer and every
 * resulting thread mask lies inside the available cores; the VP mask is the union of its
 * threads; total thread count; no memory error (bounds/pointer checks; ASan natively).
 *
 * Known findings (FINDING.md): C40-rr-unimplemented (every well-formed rr:n:p:c),
 * C40-file-parser (every file:<existing file>).
 */
#include "vp_harness.h"
#include <stdio.h>
#include <stdlib.h>
#include <string.h>
#include <stdarg.h>
#include <hwloc.h>
#include <mpi.h>

#ifndef KIND
#define KIND 0
#endif
#ifndef NCORES
#define NCORES 4
#endif
#ifndef NBT
#define NBT 2
#endif
#ifndef NLINES
#define NLINES 2
#endif

/* ---------------- bitmap layer (stub: 64-bit masks, records invalid indexes) ---------------- */
struct hwloc_bitmap_s { unsigned long bits; int infinite; };
static int bad_index;          /* ghost: an index outside 0..NCORES-1 was set */
static int n_alloc, n_free;
hwloc_bitmap_t hwloc_bitmap_alloc(void) { hwloc_bitmap_t b = malloc(sizeof(*b)); b->bits = 0; b->infinite = 0; n_alloc++; return b; }
void hwloc_bitmap_free(hwloc_bitmap_t b) { if (b) { n_free++; free(b); } }
int hwloc_bitmap_set(hwloc_bitmap_t b, unsigned id) { if (id >= NCORES) { bad_index = 1; if (id < 64) b->bits |= 1UL << id; return 0; } b->bits |= 1UL << id; return 0; }
int hwloc_bitmap_set_range(hwloc_bitmap_t b, unsigned lo, int hi)
{
    if (hi < 0) { b->infinite = 1; return 0; }          /* hwloc: end = -1 means "up to infinity" */
    for (unsigned i = 0; i < 64; i++) if (i >= lo && (int)i <= hi) { if (i >= NCORES) bad_index = 1; b->bits |= 1UL << i; }
    if (hi >= 64) bad_index = 1;
    return 0;
}
int hwloc_bitmap_or(hwloc_bitmap_t r, hwloc_const_bitmap_t a, hwloc_const_bitmap_t b) { unsigned long v = a->bits | b->bits; int i = a->infinite | b->infinite; r->bits = v; r->infinite = i; return 0; }
int hwloc_bitmap_intersects(hwloc_const_bitmap_t a, hwloc_const_bitmap_t b) { return (a->bits & b->bits) != 0 || (a->infinite && b->infinite); }
int hwloc_bitmap_singlify(hwloc_bitmap_t b) { b->bits &= -b->bits; b->infinite = 0; return 0; }
int hwloc_bitmap_from_ulong(hwloc_bitmap_t b, unsigned long m) { b->bits = m; b->infinite = 0; return 0; }
int hwloc_bitmap_next(hwloc_const_bitmap_t b, int prev) { for (int i = 0; i < 64; i++) if (i > prev && ((b->bits >> i) & 1)) return i; return -1; }

/* ---------------- runtime services (stubs) ---------------- */
int parsec_report_binding_issues = 128, parsec_report_bindings = 0, parsec_runtime_singlify_bindings = 0;
int parsec_debug_colorize = 0, parsec_debug_rank = 0, parsec_debug_history_on_fatal = 0, parsec_debug_coredump_on_fatal = 0;
int parsec_debug_output = 0, parsec_debug_verbose = 0;
const char *parsec_hostname = "host";
static int fatal_reached;
void parsec_output(int id, const char *fmt, ...) { (void)id; (void)fmt; }
void parsec_output_verbose(int lvl, int id, const char *fmt, ...) { (void)lvl; (void)id; (void)fmt; }
void parsec_debug_history_dump(void) { }
static void vp_exit(int rc) { (void)rc; fatal_reached = 1; VASSUME(0); }
void (*parsec_weaksym_exit)(int status) = vp_exit;
int parsec_hwloc_nb_real_cores(void) { return NCORES; }
/* hardware topology seen by the "hwloc" map (KIND 3): NSOCK sockets of NCORES/NSOCK cores, NHT hardware threads per core;
 * for the other kinds no socket level is reported (NSOCK = 0) */
#ifndef NSOCK
#define NSOCK 0
#endif
#ifndef NHT
#define NHT 1
#endif
int parsec_hwloc_get_ht(void) { return NHT; }
int parsec_hwloc_core_first_hrwd_ancestor_depth(void) { return 1; }
int parsec_hwloc_get_nb_objects(int level) { (void)level; return NSOCK; }
unsigned int parsec_hwloc_nb_cores_per_obj(int level, int index) { (void)level; (void)index; return NSOCK ? NCORES / NSOCK : 0; }
char *parsec_hwloc_convert_cpuset(int sys, hwloc_cpuset_t c) { (void)sys; (void)c; return NULL; }
int MPI_Initialized(int *flag) { *flag = 0; return 0; }
int MPI_Comm_rank(MPI_Comm comm, int *rank) { (void)comm; *rank = 0; return 0; }
struct ompi_predefined_communicator_t { int dummy; } ompi_mpi_comm_world;

/* ---------------- the "file system": one file "f" made of template lines ---------------- */
#define NTPL 8
static const char *TPL[NTPL] = {
    ":2:0,1\n",     /* 0: every rank, 2 threads, core list                */
    "0:1:1\n",      /* 1: rank 0 (this process), 1 thread on core 1       */
    "1:3:0\n",      /* 2: another rank: ignored                           */
    "junk\n",       /* 3: malformed: ignored                              */
    ":2:0;1;1\n",   /* 4: range start;end;step                            */
    ":1:0x2\n",     /* 5: hexadecimal mask (core 1)                       */
    ":0:0\n",       /* 6: thread count <= 0 means 1                       */
    ":2:1-2\n",     /* 7: core range inside a list (needs NCORES >= 3)    */
};
static const int TPL_NBTH[NTPL] = { 2, 1, -1, -1, 2, 1, 1, 2 };      /* -1: not for this process */
static const int TPL_CORE[NTPL][2] = { {0, 1}, {1, -1}, {-1, -1}, {-1, -1}, {0, 1}, {1, -1}, {0, -1}, {1, 2} };
static int file_lines[NLINES + 1], file_nlines, file_pos, file_open_cnt, file_close_cnt;
static FILE *vp_fopen(const char *name, const char *mode)
{
    (void)mode;
    if (strcmp(name, "f") != 0) return NULL;
    file_pos = 0; file_open_cnt++;
    return (FILE *)&file_pos;
}
static int vp_fclose(FILE *f) { (void)f; file_close_cnt++; return 0; }
static ssize_t vp_getline(char **lineptr, size_t *n, FILE *f)
{
    (void)f;
    if (file_pos >= file_nlines) return -1;
    const char *src = TPL[file_lines[file_pos++]];
    size_t len = strlen(src);
    if (*lineptr == NULL || *n < len + 1) { free(*lineptr); *lineptr = malloc(16); *n = 16; }
    memcpy(*lineptr, src, len + 1);
    return (ssize_t)len;
}
#define fopen vp_fopen
#define fclose vp_fclose
#define getline vp_getline

#ifndef VP_NATIVE
/* ---------------- libc pieces CBMC has no (usable) model for: digits-only models ---------------- */
static long vp_digits(const char *s, char **end, int base)
{
    long v = 0; int i = 0, neg = 0;
    while (s[i] == ' ') i++;
    if (s[i] == '-') { neg = 1; i++; }
    if ((base == 16 || base == 0) && s[i] == '0' && (s[i + 1] == 'x' || s[i + 1] == 'X')) { i += 2; base = 16; }
    if (base == 0) base = 10;
    int start = i;
    for (int k = 0; k < 6; k++) {
        char c = s[i]; int d = -1;
        if (c >= '0' && c <= '9') d = c - '0'; else if (base == 16 && c >= 'a' && c <= 'f') d = c - 'a' + 10;
        if (d < 0 || d >= base) break;
        v = v * base + d; i++;
    }
    if (end) *end = (char *)(i == start ? s : s + i);
    return neg ? -v : v;
}
long strtol(const char *s, char **end, int base) { return vp_digits(s, end, base); }
unsigned long strtoul(const char *s, char **end, int base) { return (unsigned long)vp_digits(s, end, base); }
double strtod(const char *s, char **end) { return (double)vp_digits(s, end, 10); }
char *strpbrk(const char *s, const char *accept)
{
    for (int i = 0; i < 12 && s[i]; i++) for (int j = 0; j < 4 && accept[j]; j++) if (s[i] == accept[j]) return (char *)s + i;
    return NULL;
}
char *strerror(int e) { (void)e; return (char *)"error"; }
int asprintf(char **out, const char *fmt, ...)        /* only "%s\n%s" is used by the unit */
{
    va_list ap; va_start(ap, fmt);
    const char *a = va_arg(ap, const char *), *b = va_arg(ap, const char *);
    va_end(ap);
    if (a == NULL) a = "(null)";
    if (b == NULL) b = "(null)";
    size_t la = strlen(a), lb = strlen(b);
    char *r = malloc(la + lb + 2);
    memcpy(r, a, la); r[la] = '\n'; memcpy(r + la + 1, b, lb + 1);
    *out = r;
    return (int)(la + lb + 1);
}
int sscanf(const char *s, const char *fmt, ...)       /* only "rr:%d:%d:%d" is used by the unit */
{
    va_list ap; va_start(ap, fmt);
    int got = 0;
    if (s[0] == 'r' && s[1] == 'r' && s[2] == ':') {
        const char *p = s + 3;
        for (int k = 0; k < 3; k++) {
            char *e; long v = vp_digits(p, &e, 10);
            if (e == p) break;
            *va_arg(ap, int *) = (int)v; got++;
            if (*e != ':') break;
            p = e + 1;
        }
    }
    va_end(ap);
    return got;
}
#endif

#include "parsec/vpmap.c"

/* ---------------- oracle helpers ---------------- */
static unsigned long thread_mask(int v, int t, int *inf)
{
    int ht = 77;
    hwloc_cpuset_t c = parsec_vpmap_get_vp_thread_affinity(v, t, &ht);
    VASSERTM(c != NULL, "every thread of every VP has a mask");
    *inf = c ? c->infinite : 0;
    return c ? c->bits : 0;
}

static void check_common(int exp_nbvp, const int *exp_nbth)
{
    VASSERTM(parsec_vpmap_get_nb_vp() == exp_nbvp, "number of virtual processes as specified");
    int tot = 0;
    for (int v = 0; v < 3; v++) if (v < exp_nbvp) {
        VASSERTM(parsec_vpmap_get_vp_threads(v) == exp_nbth[v], "threads per virtual process as specified");
        tot += exp_nbth[v];
    }
    VASSERTM(parsec_vpmap_get_nb_total_threads() == tot, "total number of threads");
    VASSERTM(parsec_vpmap_get_vp_threads(exp_nbvp) == PARSEC_ERR_BAD_PARAM && parsec_vpmap_get_vp_threads(-1) == PARSEC_ERR_BAD_PARAM, "queries outside the map are refused");
    VASSERTM(!bad_index, "only indexes of available cores are handed to the bitmap layer");
}

static void check_vp_union(int v, int nbth)
{
    unsigned long u = 0; int inf = 0;
    for (int t = 0; t < 4; t++) if (t < nbth) { int i; u |= thread_mask(v, t, &i); inf |= i; }
    VASSERTM(parsec_vpmap[v].cpuset != NULL && parsec_vpmap[v].cpuset->bits == u && parsec_vpmap[v].cpuset->infinite == inf, "VP mask = union of its threads' masks");
    VASSERTM((u >> NCORES) == 0, "every binding lies inside the available cores");
}

static void check_flat(int nbt)
{
    int nb[3] = { nbt, 0, 0 };
    check_common(1, nb);
    int step = NCORES / nbt;
    for (int t = 0; t < 4; t++) if (t < nbt) {
        int inf; unsigned long m = thread_mask(0, t, &inf);
        unsigned long e = 0; for (int c = 0; c < NCORES; c++) if (step > 0 && c >= t * step && c < (t + 1) * step) e |= 1UL << c;
        VASSERTM(m == e && inf == (step == 0), "flat map: thread t owns cores t*step..(t+1)*step-1 (unbound when there are more threads than cores)");
        VASSERTM(parsec_vpmap_get_vp_thread_cores(0, t) == step, "flat map: cores per thread");
    }
    check_vp_union(0, nbt);
}

static void finish(void)
{
    int a = n_alloc;
    parsec_vpmap_fini();
    VASSERTM(parsec_vpmap_get_nb_vp() == -1, "fini resets the map");
    VASSERTM(n_free == a, "fini releases every mask");
    n_alloc = n_free = 0; bad_index = 0; file_open_cnt = file_close_cnt = 0;
}

static const char *SPEC0[8] = { NULL, "flat", "display:flat", "display", "junk", "", "rr:x", "file:missing" };
static void check_plain(int k)
{
    char buf[16]; char *arg = NULL;
    if (SPEC0[k]) { strcpy(buf, SPEC0[k]); arg = buf; }
    VASSERTM(parsec_vpmap_init(arg, NBT) == 0, "init returns 0");
    check_flat(NBT);
    finish();
}
#if KIND == 0
static void check(int k)
{
    check_plain(k);
    if (k == 7) VWITNESS("missing file falls back to the flat map");
    if (k == 2) VWITNESS("display:flat");
}
#define NCHOICE 8
#elif KIND == 1
#define NRR 7
static const int RR[NRR][3] = { {2, 2, 4}, {1, 3, 2}, {3, 1, 2}, {2, 1, 1}, {0, 1, 1}, {1, 0, 2}, {2, 2, 0} };
static void check(int k)
{
    char buf[16] = "rr:0:0:0";
    buf[3] = '0' + RR[k][0]; buf[5] = '0' + RR[k][1]; buf[7] = '0' + RR[k][2];
    int n = RR[k][0], p = RR[k][1], c = RR[k][2];
    int valid = n >= 1 && p >= 1 && c >= 1;
    if (c > NCORES) c = NCORES;               /* only existing cores can be named */
#if defined(KF_EXCLUDE_C40_RR_UNIMPLEMENTED)
    /* every well-formed rr:n:p:c is inside the recorded class: what remains is the malformed rr: form */
    (void)n; (void)p; (void)c; (void)valid;
    check_plain(6);
    if (k == 0) VWITNESS("(known finding active) only the malformed rr: specification is left");
#elif defined(KF_ONLY_C40_RR_UNIMPLEMENTED)
    /* the recorded class, reduced to its root cause so that the verdict does not depend on what the
     * NULL dereference in parsec_vpmap_init reads: the parser is called directly */
    (void)buf; (void)valid;
    if (n >= 1) {
        parsec_vpmap_init_from_parameters(n, p, c);
        VASSERTM(parsec_vpmap_get_nb_vp() < 1 || parsec_vpmap != NULL, "rr: a map with n >= 1 virtual processes has storage (parsec_vpmap_init dereferences it next)");
    }
#else
    VASSERTM(parsec_vpmap_init(buf, NBT) == 0, "init returns 0");
    if (!valid) {
        check_flat(NBT);                      /* a specification that cannot be honoured falls back to the default map */
    } else {
        int nb[3] = { p, p, p };
        check_common(n, nb);
        for (int v = 0; v < 3; v++) if (v < n) {
            for (int t = 0; t < 3; t++) if (t < p) {
                int inf; unsigned long m = thread_mask(v, t, &inf);
                VASSERTM(m == (1UL << ((v * p + t) % c)) && !inf, "rr: thread t of VP v bound round-robin on core (v*p+t) mod c");
            }
            check_vp_union(v, p);
        }
    }
    finish();
    if (k == 0) VWITNESS("rr:2:2:4");
    if (k == 4) VWITNESS("rr with zero VPs refused");
#endif
}
#define NCHOICE NRR
#elif KIND == 3
/* "hwloc": one VP per socket, threads placed in core order, the request (k+1 threads) truncates the map */
#define TPS ((NCORES / NSOCK) * NHT)            /* hardware threads per socket */
static void check(int k)
{
    char buf[8] = "hwloc";
    int req = k + 1;                             /* 1 .. NCORES*NHT + 1 requested threads */
    VASSERTM(parsec_vpmap_init(buf, req) == 0, "init returns 0");
    int tot = req < NSOCK * TPS ? req : NSOCK * TPS;
    int exp_nbvp = (tot + TPS - 1) / TPS;
    VASSERTM(parsec_vpmap_get_nb_vp() == exp_nbvp, "hwloc map: as many virtual processes as sockets needed for the requested threads");
    for (int v = 0; v < NSOCK; v++) if (v < exp_nbvp) {
        int nbth = (v < exp_nbvp - 1) ? TPS : tot - v * TPS;
        VASSERTM(parsec_vpmap_get_vp_threads(v) == nbth && nbth >= 1, "hwloc map: full sockets first, the last virtual process gets the remaining threads (never an empty one)");
        for (int t = 0; t < TPS; t++) if (t < nbth) {
            int ht = 77, inf; unsigned long m = thread_mask(v, t, &inf);
            (void)parsec_vpmap_get_vp_thread_affinity(v, t, &ht);
            VASSERTM(m == (1UL << ((v * TPS + t) / NHT)) && !inf, "hwloc map: threads bound in core order, NHT threads per core");
            VASSERTM(ht == t % NHT, "hwloc map: hardware-thread index");
            VASSERTM(parsec_vpmap_get_vp_thread_cores(v, t) == 1, "hwloc map: one core per thread");
        }
        check_vp_union(v, nbth);
    }
    VASSERTM(parsec_vpmap_get_vp_threads(exp_nbvp) == PARSEC_ERR_BAD_PARAM, "queries outside the map are refused");
    VASSERTM(!bad_index, "only indexes of available cores are handed to the bitmap layer");
    VASSERTM(parsec_vpmap_get_nb_total_threads() == tot, "hwloc map: total number of threads");
    finish();
    if (req == TPS) VWITNESS("request ends exactly on a socket boundary");
    if (req == TPS + 1) VWITNESS("one thread on the second socket");
    if (req > NSOCK * TPS) VWITNESS("request larger than the machine");
}
#define NCHOICE (NCORES * NHT + 1)
#else
static void check_file(void)
{
    char buf[8] = "file:f";
    int exp_nbvp = 0, exp_nbth[NLINES + 1], exp_tpl[NLINES + 1];
    for (int i = 0; i < NLINES; i++) if (i < file_nlines && TPL_NBTH[file_lines[i]] > 0) { exp_tpl[exp_nbvp] = file_lines[i]; exp_nbth[exp_nbvp++] = TPL_NBTH[file_lines[i]]; }
#if defined(KF_EXCLUDE_C40_FILE_PARSER)
    /* every existing file is inside the recorded class: what remains is the file that cannot be opened */
    (void)exp_tpl; (void)exp_nbth;
    check_plain(7);
    if (file_nlines == NLINES) VWITNESS("(known finding active) only the missing-file case is left");
#elif defined(KF_ONLY_C40_FILE_PARSER)
    /* the recorded class, restricted to one-line files without a line for this process (the other
     * members write outside the map: CBMC gives no verdict in 1500 s on them, ASan reports them
     * natively, see FINDING.md); the parser is called directly */
    (void)buf; (void)exp_tpl; (void)exp_nbth;
    if (file_nlines == 1 && exp_nbvp == 0) {
        parsec_vpmap_init_from_file("f");
        VASSERTM(parsec_vpmap_get_nb_vp() == 1, "file: a file without a line for this process yields one flat VP");
    }
#else
    VASSERTM(parsec_vpmap_init(buf, NBT) == 0, "init returns 0");
    VASSERTM(file_open_cnt == 1 && file_close_cnt == 1, "the map file is opened and closed once");
    if (exp_nbvp == 0) {
        check_flat(NCORES);                   /* no line for this process: one VP over all the cores */
    } else {
        check_common(exp_nbvp, exp_nbth);
        for (int v = 0; v < NLINES; v++) if (v < exp_nbvp) {
            for (int t = 0; t < 2; t++) if (t < exp_nbth[v]) {
                int inf; unsigned long m = thread_mask(v, t, &inf);
                VASSERTM(m == (1UL << TPL_CORE[exp_tpl[v]][t]) && !inf, "file: thread bound to the core named by its line");
            }
            check_vp_union(v, exp_nbth[v]);
        }
    }
    finish();
    if (exp_nbvp == 2 && file_nlines == NLINES) VWITNESS("two VPs described by the file");
    if (exp_nbvp == 0 && file_nlines >= 1) VWITNESS("file without a line for this process");
    if (exp_nbvp == 1 && file_nlines == 2) VWITNESS("one applicable line among two");
#endif
}
#endif

int main(void)
{
#if KIND != 2
    int k = IN_RANGE(0, NCHOICE - 1);
    for (int i = 0; i < NCHOICE; i++) if (i == k) check(i);
#else
    int n = IN_RANGE(0, NLINES);
    int l0 = IN_RANGE(0, NTPL - 1), l1 = IN_RANGE(0, NTPL - 1);
    for (int m = 0; m <= NLINES; m++) if (m == n)
        for (int a = 0; a < NTPL; a++) if ((m < 1 && a == 0) || (m >= 1 && a == l0))
            for (int b = 0; b < NTPL; b++) if ((m < 2 && b == 0) || (m >= 2 && b == l1)) {
#if NCORES < 3
                if ((m >= 1 && a == 7) || (m >= 2 && b == 7)) continue;     /* template 7 names core 2 */
#endif
                file_nlines = m; file_lines[0] = a; file_lines[1] = b;
                check_file();
            }
#endif
    return 0;
}
