from vp.api import Q, Mutant
TITLE = "Priority schedulers honour task priorities (ap, ip, spq; one stream)"
LIST = "parsec/class/list.h"
UNITS = {"ap": "parsec/mca/sched/ap/sched_ap_module.c", "ip": "parsec/mca/sched/ip/sched_ip_module.c",
         "spq": "parsec/mca/sched/spq/sched_spq_module.c"}
COMMON = [LIST, "parsec/class/list_item.h", "parsec/class/parsec_list.c", "parsec/mca/sched/sched_local_queues_utils.h",
          "parsec/class/parsec_object.h", "parsec/include/parsec/parsec_config_bottom.h"]
OUTSIDE = ["concurrent schedule/select (the property is stated for no concurrent activity; atomicity of the list is C31)",
           "more than 6 tasks / 3 schedule calls per history, rings longer than 3",
           "ip with distance != 0 (chain_back path; only exactly-once is claimed for it, in C08)",
           "ip tie order (the statement does not fix it; only 'lowest first' is asserted)",
           "priorities outside the stated range (the comparison is a plain int compare; the range only limits solver work)",
           "spq distances outside 0..2; spq distances are enumerated (every weak ordering of the calls), not symbolic",
           "parsec_class_initialize itself (replaced by an equivalent over static tables; the real one is C34's unit)"]
ASSUMPTIONS = ["parsec_barrier_wait is a counting no-op stub (one stream)",
               "parsec_class_initialize/parsec_obj_destruct* replaced by harness equivalents over static arrays (vp_objstub.h)",
               "tasks are detached list items when scheduled (caller contract of schedule)",
               "COMPARISON_VAL's uintptr_t round trip is rewritten to char* arithmetic in an overlay copy of parsec_config_bottom.h "
               "(same address on a flat address space); the *_rawcmp queries (thorough) run the unmodified macro"]
BOUNDS = {"quick": {"tasks": "3..4", "schedule calls": "2..3", "ring": "1..3", "priorities": "-1..1 symbolic",
                    "selects between calls": "0..N1 symbolic", "distance (spq)": "0..2, enumerated weak orderings",
                    "re-schedule": "first selected task (enumerated) re-scheduled with distance+1 (ap, spq)"},
          "thorough": {"tasks": "3..6", "schedule calls": "2..3", "ring": "1..3", "priorities": "-2..2 symbolic",
                       "selects between calls": "0..N1 symbolic", "distance (spq)": "0..2, enumerated weak orderings"}}

CFG = "parsec/include/parsec/parsec_config_bottom.h"
# COMPARISON_VAL(it,off) is *((int*)(((uintptr_t)(it))+off)): the pointer->integer->pointer round trip makes CBMC
# byte-extract from every candidate object (measured, ap_210: 1.07 M variables, 14.7 M clauses, 70 s, 3.1 GB).  The
# overlay copy computes the same address with char* arithmetic (0.2 M variables, 0.7 M clauses, 4 s).
CMP_PATCH = (CFG, r"#define COMPARISON_VAL\(it, off\).*", "#define COMPARISON_VAL(it, off) (*(int*)((char*)(it)+(off)))")

def _ov_inc(ctx, q, qdir, overlays):
    # headers under parsec/include are reached as "parsec/xxx.h" through -I<repo>/parsec/include: make the overlay
    # copies (patches and mutants) visible the same way
    import os
    new = [os.path.join(o, "parsec", "include") for o in overlays]
    overlays[:0] = [d for d in new if os.path.isdir(d) and d not in overlays]


WEAK2 = [(0, 1, 0), (1, 1, 0), (1, 0, 0)]                      # d1<d2, d1==d2, d1>d2 (d3 unused)
WEAK3 = [(0, 0, 0), (0, 0, 1), (0, 1, 0), (1, 0, 0), (0, 1, 1), (1, 0, 1), (1, 1, 0),
         (0, 1, 2), (0, 2, 1), (1, 0, 2), (1, 2, 0), (2, 0, 1), (2, 1, 0)]   # the 13 weak orderings of three calls


def _q(m, shape, pr, dist, tiers, raw=False, resched=None):
    n1, n2, n3 = shape
    name = "%s_%d%d%d" % (m, n1, n2, n3)
    defs = ["SCHED_" + m, "N1=%d" % n1, "N2=%d" % n2, "N3=%d" % n3, "PMIN=%d" % pr[0], "PMAX=%d" % pr[1]]
    if dist is not None:
        name += "_d%d%d%d" % dist
        defs += ["D1=%d" % dist[0], "D2=%d" % dist[1], "D3=%d" % dist[2]]
    if raw:
        name += "_rawcmp"
    if resched is not None:
        name += "_rs%d" % resched
        defs.append("RESCHED=%d" % resched)
    info = {"symbolic": ["priority of every task (%d..%d)" % pr, "number of selects between the first two schedule calls (0..N1)"],
            "enumerated": ["ring sizes N1,N2,N3 = %d,%d,%d" % shape, "scheduler module " + m] +
                          (["the first selected task (enumerated: task %d) is re-scheduled with its distance + 1 (as __parsec_task_progress does)" % resched] if resched is not None else []) +
                          (["distances of the schedule calls = %d,%d,%d" % dist] if dist is not None else []),
            "stubs": ["parsec_barrier_wait -> counting no-op", "parsec_class_initialize -> static-table equivalent",
                      "parsec_obj_destruct(_and_free) -> run destructors (+free)"] +
                     ([] if raw else ["COMPARISON_VAL -> char* arithmetic (overlay)"]),
            "bounds": {"tasks": n1 + n2 + n3, "priorities": "%d..%d" % pr},
            "functions": ["sched_%s_schedule" % m, "sched_%s_select" % m, "flow_%s_init" % m,
                          "parsec_list_nolock_chain_sorted", "parsec_list_pop_front/back", "parsec_list_nolock_add_before"]}
    return Q(name, ["h.c"], defs=defs, unwind=8, object_bits=12, units=[UNITS[m]] + COMMON, info=info, timeout=2400,
             patches=[] if raw else [CMP_PATCH], gen=_ov_inc, tiers=tiers, slow=raw)


def queries(ctx):
    qs = []
    both, th = ("quick", "thorough"), ("thorough",)
    for m in ("ap", "ip"):
        for shape in [(2, 1, 0), (3, 1, 0), (2, 1, 1)]:
            qs.append(_q(m, shape, (-1, 1), None, both))
        for shape in [(1, 3, 0), (3, 3, 0), (2, 2, 2), (3, 2, 1)]:
            qs.append(_q(m, shape, (-2, 2), None, th))
        qs.append(_q(m, (2, 1, 0), (-1, 1), None, th, raw=True))
    for d in WEAK2:
        qs.append(_q("spq", (2, 1, 0), (-1, 1), d, both))
        qs.append(_q("spq", (3, 2, 0), (-2, 2), d, th))
    for d in WEAK3:
        quick = d in [(0, 0, 0), (0, 1, 0), (1, 0, 1), (2, 0, 1), (1, 2, 0)]
        qs.append(_q("spq", (2, 1, 1), (-1, 1), d, both if quick else th))
        qs.append(_q("spq", (2, 2, 1), (-2, 2), d, th))
    qs.append(_q("spq", (2, 1, 0), (-1, 1), (1, 0, 0), th, raw=True))
    # re-scheduling of a selected task with a larger distance (spq: it moves to a later bucket; ap ignores the distance)
    for r in (0, 1):
        qs.append(_q("ap", (2, 1, 0), (-1, 1), None, both if r == 0 else th, resched=r))
        for d in WEAK2:
            qs.append(_q("spq", (2, 1, 0), (-1, 1), d, both if (d, r) in (((0, 1, 0), 1), ((1, 1, 0), 0)) else th, resched=r))
        for d in [(0, 0, 0), (0, 1, 0), (1, 0, 1), (2, 0, 1), (1, 2, 0)]:
            qs.append(_q("spq", (2, 1, 1), (-1, 1), d, th, resched=r))
    return qs


def mutants(ctx):
    AP, IP, SPQ = UNITS["ap"], UNITS["ip"], UNITS["spq"]
    inner = ("        for(; pos != _GHOST(list); pos = (parsec_list_item_t*)pos->list_next)\n        {\n"
             "            if( A_HIGHER_PRIORITY_THAN_B(newel, pos, off) )")
    return [
        # '>' -> '>=' in the insertion scan of chain_sorted: equal priorities are no longer FIFO
        Mutant("chain_sorted_unstable", LIST, inner, inner.replace("A_HIGHER_PRIORITY_THAN_B(newel, pos, off)", "!A_LOWER_PRIORITY_THAN_B(newel, pos, off)"),
               queries=["ap_210", "ap_310", "spq_210_d110"]),
        # the 'restart from the head' shortcut of chain_sorted dropped: a ring whose later element is larger is misplaced
        Mutant("chain_sorted_no_restart", LIST,
               "             pos = (parsec_list_item_t*)_HEAD(list);\n        }\n        /* search the first strictly",
               "        }\n        /* search the first strictly", queries=["ap_210", "ip_210"]),
        Mutant("ip_select_pops_front", IP, "parsec_mca_sched_list_local_counter_pop_back(LOCAL_SCHED_OBJECT(es))",
               "parsec_mca_sched_list_local_counter_pop_front(LOCAL_SCHED_OBJECT(es))", queries=["ip_210"]),
        Mutant("ip_distance_test_inverted", IP, "if( 0 == distance ) {", "if( 0 != distance ) {", queries=["ip_210", "ip_310"]),
        Mutant("ap_select_pops_back", AP, "parsec_mca_sched_list_local_counter_pop_front(sl)", "parsec_mca_sched_list_local_counter_pop_back(sl)", queries=["ap_210"]),
        # spq: new distance bucket inserted after instead of before the first larger one
        Mutant("spq_bucket_after", SPQ, "parsec_list_nolock_add_before(&task_list->super, li, &plist->super);",
               "parsec_list_nolock_add_after(&task_list->super, li, &plist->super);", queries=["spq_210_d100", "spq_211_d201"]),
        Mutant("spq_bucket_scan_stops_early", SPQ, "if( plist->prio > distance ) {", "if( plist->prio < distance ) {",
               queries=["spq_210_d010", "spq_211_d010", "spq_211_d201"]),
        Mutant("spq_reports_wrong_distance", SPQ, "*distance = plist->prio;", "*distance = 0;", queries=["spq_210_d100"]),
    ]

CLAIMED = True
MANIFEST = {
 "engine": "cbmc-src",
 "text": "Bounded model checking of the real sched_ap/ip/spq_module.c with the real list.h sorted-chain insertion: for every "
         "assignment of priorities (symbolic) to 3..6 tasks scheduled as 2..3 rings, with a symbolic number of selections in "
         "between, each select must return exactly the task a reference priority queue written in the harness would return "
         "(ap/spq: highest priority, FIFO among equals; ip: lowest priority; spq: smaller distance first and the reported "
         "distance is the scheduled one), every task exactly once, NULL when empty; a selected task re-scheduled with a larger "
         "distance is not returned by spq before the tasks pending at smaller distances.",
 "note": "single execution stream; spq distances enumerated over every weak ordering of the calls (values 0..2); class-table "
         "initialisation replaced by a static-table equivalent; COMPARISON_VAL's integer round trip rewritten to char* arithmetic "
         "(checked against the unmodified macro in the thorough tier); ip tie order and ip distance!=0 outside the claim.",
 "technique": "CBMC bounded symbolic execution of the real C units + SAT (cadical), symbolic priorities and interleaving point",
}
