/* C09: priority schedulers honour priorities (one execution stream, no concurrency).
 *
 * Unit: the real sched_{ap,ip,spq}_module.c (included: static schedule/select/flow_init are
 * called directly), the real list.h (parsec_list_nolock_chain_sorted, pop_front/pop_back,
 * add_before), the real parsec_list.c constructors and the real object macros
 * (PARSEC_OBJ_NEW / CONSTRUCT run through the class tables).
 *
 * History (shape enumerated by the driver, contents symbolic):
 *     flow_init(es0) ; schedule(ring of N1, d1) ; S1 x select ; schedule(ring of N2, d2) ;
 *     [schedule(ring of N3, d3)] ; select until every task is back ; select == NULL
 * S1 is symbolic in 0..N1, priorities are symbolic in PMIN..PMAX (narrow range => ties are
 * frequent and the witnesses force them).  Distances (only spq looks at them; ip is driven with
 * distance 0, which is the clause of the property) are enumerated by the driver over every weak
 * ordering of (d1,d2,d3) with values 0..2 (-DD1 -DD2 -DD3): fully symbolic distances make the
 * bucket list shape symbolic and did not return a verdict in 15 min / 4 GB.
 *
 * Oracle: a reference priority queue kept in plain arrays (pending[], prio[], dist[], seq[]):
 *   ap : the selected task has the highest priority among the pending ones and, among equal
 *        priorities, the smallest scheduling sequence number (ring order inside a ring,
 *        call order between rings);
 *   ip : the selected task has the lowest priority among the pending ones;
 *   spq: the selected task has the smallest distance among the pending ones; inside that
 *        distance the highest priority; among equals the smallest sequence number; the
 *        distance reported by select is the one it was scheduled with.
 * and for all three: select returns NULL iff nothing is pending, returns only pending tasks.
 */
#include "vp_harness.h"

#include "parsec/parsec_config.h"
#include "parsec/class/barrier.h"
static int vp_barrier_calls;
int parsec_barrier_wait(parsec_barrier_t *b) { (void)b; vp_barrier_calls++; return 0; }

#if defined(SCHED_ap)
#include "parsec/mca/sched/ap/sched_ap_module.c"
#define SCHEDULE sched_ap_schedule
#define SELECT   sched_ap_select
#define FLOWINIT flow_ap_init
const parsec_sched_base_component_t parsec_sched_ap_component;
#elif defined(SCHED_ip)
#include "parsec/mca/sched/ip/sched_ip_module.c"
#define SCHEDULE sched_ip_schedule
#define SELECT   sched_ip_select
#define FLOWINIT flow_ip_init
const parsec_sched_base_component_t parsec_sched_ip_component;
#elif defined(SCHED_spq)
#include "parsec/mca/sched/spq/sched_spq_module.c"
#define SCHEDULE sched_spq_schedule
#define SELECT   sched_spq_select
#define FLOWINIT flow_spq_init
const parsec_sched_base_component_t parsec_sched_spq_component;
#else
#error "define SCHED_ap, SCHED_ip or SCHED_spq"
#endif
#include "parsec/class/parsec_list.c"
#include "vp_objstub.h"

#ifndef N1
#define N1 2
#endif
#ifndef N2
#define N2 1
#endif
#ifndef N3
#define N3 0
#endif
#define NT (N1 + N2 + N3)
#ifndef PMIN
#define PMIN (-1)
#endif
#ifndef PMAX
#define PMAX 1
#endif

static parsec_task_t T0, T1, T2, T3, T4, T5;
static parsec_task_t *task(int i)
{
    return i == 0 ? &T0 : i == 1 ? &T1 : i == 2 ? &T2 : i == 3 ? &T3 : i == 4 ? &T4 : &T5;
}
static int task_index(const parsec_task_t *t)
{
    return t == &T0 ? 0 : t == &T1 ? 1 : t == &T2 ? 2 : t == &T3 ? 3 : t == &T4 ? 4 : t == &T5 ? 5 : -1;
}

/* harness-owned runtime state: one VP with one stream (static, typed) */
static parsec_vp_t VP;
static parsec_execution_stream_t ES0;
static parsec_barrier_t BAR;

/* reference queue */
static int pending[6], prio[6], dist[6], seq[6], nseq, npending, returned[6];
static int ties_seen, dist_order_seen, last_k = -1, resched_done;

/* build the ring first..first+n-1 in index order with the real ring helpers and hand it to
 * the scheduler */
static void do_schedule(int first, int n, int d)
{
    if (n <= 0) return;
    parsec_list_item_t *ring = parsec_list_item_singleton(&task(first)->super);
    for (int i = 1; i < n; i++) {
        parsec_list_item_singleton(&task(first + i)->super);
        parsec_list_item_ring_push(ring, &task(first + i)->super);
    }
    for (int i = 0; i < n; i++) {
        pending[first + i] = 1; dist[first + i] = d; seq[first + i] = nseq++; npending++;
    }
    int rc = SCHEDULE(&ES0, (parsec_task_t *)ring, d);
    VASSERTM(rc == PARSEC_SUCCESS, "schedule reports success");
}

static void do_select(void)
{
    int32_t d = -77;
    parsec_task_t *t = SELECT(&ES0, &d);
    last_k = -1;
    if (npending == 0) {
        VASSERTM(t == NULL, "select on an empty scheduler returns NULL");
        return;
    }
    VASSERTM(t != NULL, "select returns a task while tasks are pending");
    int k = task_index(t);
    VASSERTM(k >= 0 && k < NT, "select returns one of the scheduled tasks");
    VASSERTM(pending[k] == 1, "the selected task is pending (not returned twice)");
    for (int j = 0; j < NT; j++) {
        if (!pending[j] || j == k) continue;
#if defined(SCHED_ap)
        VASSERTM(prio[j] <= prio[k], "ap: no pending task has a higher priority than the selected one");
        if (prio[j] == prio[k]) { ties_seen++; VASSERTM(seq[k] < seq[j], "ap: among equal priorities the earliest scheduled is selected"); }
#elif defined(SCHED_ip)
        VASSERTM(prio[j] >= prio[k], "ip: no pending task has a lower priority than the selected one");
        if (prio[j] == prio[k]) ties_seen++;
#else
        VASSERTM(dist[j] >= dist[k], "spq: no pending task sits at a smaller distance than the selected one");
        if (dist[j] > dist[k] && prio[j] > prio[k]) dist_order_seen++;
        if (dist[j] == dist[k]) {
            VASSERTM(prio[j] <= prio[k], "spq: inside a distance no pending task has a higher priority");
            if (prio[j] == prio[k]) { ties_seen++; VASSERTM(seq[k] < seq[j], "spq: among equals the earliest scheduled is selected"); }
        }
#endif
    }
#if defined(SCHED_spq)
    VASSERTM(d == dist[k], "spq: select reports the distance the task was scheduled with");
#else
    VASSERTM(d == 0, "select reports distance 0");
#endif
    pending[k] = 0; returned[k]++; npending--; last_k = k;
}

int main(void)
{
    vp_objstub_reset();
    VP.nb_cores = 1; VP.vp_id = 0; VP.execution_streams[0] = &ES0;
    ES0.th_id = 0; ES0.virtual_process = &VP;
    int rc = FLOWINIT(&ES0, &BAR);
    VASSERTM(rc == PARSEC_SUCCESS && ES0.scheduler_object != NULL, "flow_init installs a scheduler object");

    for (int i = 0; i < NT; i++) {
        prio[i] = IN_RANGE(PMIN, PMAX);
        task(i)->priority = prio[i];
    }
    int d1 = 0, d2 = 0, d3 = 0;
#if defined(SCHED_spq)
#if defined(D1)
    d1 = D1; d2 = D2; d3 = D3;          /* distances enumerated by the driver */
#else
    d1 = IN_RANGE(0, 2); d2 = IN_RANGE(0, 2); d3 = IN_RANGE(0, 2);
#endif
#endif
    int s1 = IN_RANGE(0, N1);
#if defined(RESCHED)
    VASSUME(s1 >= 1);                  /* the re-scheduled task is the first one selected */
#endif

    do_schedule(0, N1, d1);
#if defined(RESCHED)
    /* the runtime re-schedules a task it could not run with the distance it came back with + 1.
     * Which task came back first is enumerated by the driver (RESCHED = its index) and the step is
     * unconditional: a symbolic task / distance / presence of the step makes the spq bucket list
     * symbolic (no verdict in 20 min). */
    do_select();
    VASSUME(last_k == RESCHED);
    {
        int k = RESCHED, nd = dist[RESCHED] + 1;
        parsec_list_item_singleton(&task(RESCHED)->super);
        pending[k] = 1; dist[k] = nd; seq[k] = nseq++; npending++; returned[k]--; resched_done++;
        int rc = SCHEDULE(&ES0, task(RESCHED), nd);
        VASSERTM(rc == PARSEC_SUCCESS, "re-schedule reports success");
    }
    for (int i = 1; i < N1; i++) if (i < s1) do_select();
#else
    for (int i = 0; i < N1; i++) if (i < s1) do_select();
#endif
    do_schedule(N1, N2, d2);
    do_schedule(N1 + N2, N3, d3);
    for (int i = 0; i < NT + 1; i++) if (npending > 0) do_select();
    VASSERTM(npending == 0, "every scheduled task has been selected");
    for (int i = 0; i < NT; i++) VASSERTM(returned[i] == 1, "each task selected exactly once");
    do_select();                       /* must be NULL now */

#if defined(SCHED_spq) && defined(D1) && !(D1 == D2 && (N3 == 0 || D3 == D1))
    /* at least two distinct distances: a task was selected although a higher-priority one was
     * pending at a larger distance */
    if (dist_order_seen > 0 && s1 < N1) VWITNESS("spq: lower-priority task at a smaller distance selected before a higher-priority one further away");
#elif defined(RESCHED)
    if (resched_done == 1 && s1 < N1 && prio[N1] >= prio[0]) VWITNESS("a selected task was re-scheduled with a larger distance while others were pending");
#else
    if (ties_seen > 0 && (N1 >= 2 ? (s1 >= 1 && s1 < N1) : s1 == 1) && prio[N1] > prio[0]) VWITNESS("tie between pending tasks and a later ring with a higher priority");
#endif
    return 0;
}
