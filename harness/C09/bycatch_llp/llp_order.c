#include "vp_harness.h"
#include "parsec/parsec_config.h"
#include "parsec/class/barrier.h"
int parsec_barrier_wait(parsec_barrier_t *b) { (void)b; return 0; }
#include "parsec/mca/sched/llp/sched_llp_module.c"
const parsec_sched_base_component_t parsec_sched_llp_component;
#include "parsec/class/parsec_list.c"
#include "parsec/class/parsec_lifo.c"
#include "vp_objstub.h"
static parsec_task_t T0,T1,T2;
static parsec_vp_t VP; static parsec_execution_stream_t ES0, ES1; static parsec_barrier_t BAR;
int main(void){
  VP.nb_cores=2; VP.execution_streams[0]=&ES0; VP.execution_streams[1]=&ES1; ES0.th_id=0; ES1.th_id=1; ES0.virtual_process=&VP; ES1.virtual_process=&VP;
  flow_llp_init(&ES0,&BAR); flow_llp_init(&ES1,&BAR);
  int p0=IN_RANGE(0,3), p1=IN_RANGE(0,3), p2=IN_RANGE(0,3);
  T0.priority=p0; T1.priority=p1; T2.priority=p2;
  /* one task first, then a sorted (descending) ring of two, all on stream 1, distance 0 */
  VASSUME(p1 >= p2);
  parsec_list_item_singleton(&T0.super); sched_llp_schedule(&ES1,&T0,0);
  parsec_list_item_singleton(&T1.super); parsec_list_item_singleton(&T2.super); parsec_list_item_ring_push(&T1.super,&T2.super);
  sched_llp_schedule(&ES1,&T1,0);
  int32_t d; parsec_task_t *a=sched_llp_select(&ES1,&d), *b=sched_llp_select(&ES1,&d), *c=sched_llp_select(&ES1,&d);
  VASSERTM(a&&b&&c, "three tasks come back");
  VASSERTM(a->priority >= b->priority && b->priority >= c->priority, "llp: tasks come back in non-increasing priority order");
  VWITNESS("end");
  return 0; }
