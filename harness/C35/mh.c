/* C35 (max-heap half): one real operation of parsec/maxheap.c from EVERY valid heap of <= SMAX tasks.
 *
 * A parsec_heap_t is a complete binary tree linked through list_prev (left) / list_next (right);
 * its shape is a function of `size` (node k has children 2k and 2k+1 iff they are <= size).
 * Pre-state: size symbolic, task objects named canonically (node k is the static object Tk -- the
 * code never looks at addresses, only at equality), priorities symbolic under the max-heap order
 * prio[k/2] >= prio[k]; the heap header's list links and the detached task's links are arbitrary.
 * After the operation the tree is re-read from the real pointers into an index array by following
 * the shape for the NEW size, and shape / heap order / header fields / element set are asserted.
 * libc free() is replaced by a recording stub (heap_destroy frees the header; the header is a static
 * object here); calloc stays CBMC's model.
 */
#include "vp_harness.h"
#ifdef VP_NATIVE
#include <stdlib.h>
#endif
static void *vp_freed[4]; static int vp_nfreed;
void vp_free(void *p) { if (vp_nfreed < 4) vp_freed[vp_nfreed] = p; vp_nfreed++; }
/* calloc stub: CBMC models calloc(n, size) with a symbolic n as a byte array of symbolic size (heap_insert's
 * `parents` scratch array: out of memory at 8 GB for 2 tasks).  The stub hands out zeroed STATIC TYPED storage:
 * one parsec_heap_t for heap_create, one pointer array for the scratch array (at most one of each per operation). */
static void *vp_ptrarr[8]; static long vp_heapstore[16]; static int vp_ncalloc_arr, vp_ncalloc_heap, vp_calloc_bad;
void *vp_calloc(size_t n, size_t size);

/* parsec_task_t carries locals[MAX_LOCAL_COUNT] and data[MAX_PARAM_COUNT] (20 each, 984 bytes); the units under test
 * never touch them, but CBMC copies the whole struct on every write through a symbolic task pointer
 * (measured: 7.5 GB for pop_best).  The two configuration constants are lowered to 1 for this TU. */
#include "parsec/parsec_config.h"
#undef MAX_LOCAL_COUNT
#define MAX_LOCAL_COUNT 1
#undef MAX_PARAM_COUNT
#define MAX_PARAM_COUNT 1
#include "parsec/maxheap.c"

#ifndef SMAX
#define SMAX 5
#endif
#define NT (SMAX + 1)           /* task objects T1..T(SMAX), plus one spare for insert */

void *vp_calloc(size_t n, size_t size)
{
    if (n == 1 && size == sizeof(parsec_heap_t)) {
        if (sizeof(parsec_heap_t) > sizeof(vp_heapstore) || vp_ncalloc_heap++) vp_calloc_bad = 1;
        for (unsigned i = 0; i < sizeof(vp_heapstore) / sizeof(long); i++) vp_heapstore[i] = 0;
        return (void*)vp_heapstore;
    }
    if (size != sizeof(void*) || n > 8 || vp_ncalloc_arr++) vp_calloc_bad = 1;
    for (int i = 0; i < 8; i++) vp_ptrarr[i] = 0;
    return (void*)vp_ptrarr;
}
static parsec_task_t T1, T2, T3, T4, T5, T6, T7, T8;
static parsec_heap_t H;
static parsec_task_t *TP(int k) { return k==1?&T1:k==2?&T2:k==3?&T3:k==4?&T4:k==5?&T5:k==6?&T6:k==7?&T7:k==8?&T8:(parsec_task_t*)0; }
/* 1..NT task, 0 NULL, -1 other */
static int IDX(volatile void *p)
{
    if (p == 0) return 0;
    for (int k = 1; k <= NT; k++) if (p == (void*)TP(k)) return k;
    return -1;
}
static int s;                   /* pre-state size */
static int prio[NT + 2];

static void build(int lo, int hi)
{
    s = IN_RANGE(lo, hi);
    for (int k = 1; k <= NT; k++) {
        prio[k] = IN_INT();
#ifdef PMIN
        VASSUME(prio[k] >= PMIN);
#endif
        if (k >= 2 && k <= s) VASSUME(prio[k / 2] >= prio[k]);
    }
    for (int k = 1; k <= NT; k++) {
        parsec_task_t *t = TP(k);
        t->priority = prio[k];
        if (k <= s) {
            t->super.list_prev = (parsec_list_item_t*)(2 * k <= s ? TP(2 * k) : 0);
            t->super.list_next = (parsec_list_item_t*)(2 * k + 1 <= s ? TP(2 * k + 1) : 0);
        } else {                /* detached: stale links */
            int a = IN_RANGE(0, NT), b = IN_RANGE(0, NT);
            t->super.list_prev = (parsec_list_item_t*)TP(a); t->super.list_next = (parsec_list_item_t*)TP(b);
        }
    }
    H.size = (unsigned)s; H.top = s >= 1 ? &T1 : 0; H.priority = s >= 1 ? (unsigned)prio[1] : 0;
    H.list_item.list_next = (parsec_list_item_t*)&H; H.list_item.list_prev = (parsec_list_item_t*)&H;
}

/* re-read a heap of the given (expected) size; nd[k] = task index at node k.  Returns 1 iff the
 * structure is a complete tree of exactly `size` distinct known tasks in max-heap order and the
 * header agrees. */
static int read_heap(parsec_heap_t *h, int size, int *nd)
{
    if ((int)h->size != size) return 0;
    if (size == 0) return h->top == 0;
    nd[1] = IDX(h->top);
    if (nd[1] < 1) return 0;
    for (int k = 1; k <= SMAX + 1; k++) {
        if (k > size) break;
        parsec_task_t *t = TP(nd[k]);
        int l = IDX(t->super.list_prev), r = IDX(t->super.list_next);
        if (2 * k <= size) { if (l < 1) return 0; if (2 * k <= SMAX + 1) nd[2 * k] = l; } else if (l != 0) return 0;
        if (2 * k + 1 <= size) { if (r < 1) return 0; if (2 * k + 1 <= SMAX + 1) nd[2 * k + 1] = r; } else if (r != 0) return 0;
    }
    for (int k = 1; k <= SMAX + 1; k++) if (k <= size)
        for (int j = k + 1; j <= SMAX + 1; j++) if (j <= size && nd[j] == nd[k]) return 0;
    for (int k = 2; k <= SMAX + 1; k++) if (k <= size && !(TP(nd[k / 2])->priority >= TP(nd[k])->priority)) return 0;
    if (h->priority != (unsigned)TP(nd[1])->priority) return 0;
    return 1;
}
static int member(const int *nd, int size, int x) { for (int k = 1; k <= SMAX + 1; k++) if (k <= size && nd[k] == x) return 1; return 0; }

#define OP_INSERT 0
#define OP_REMOVE 1
#define OP_SPLIT 2
#define OP_CREATE 3

int main(void)
{
    int nd[SMAX + 3], nd2[SMAX + 3];
    int w1 = 0, w2 = 0, w3 = 0;
#if OP == OP_INSERT
    build(0, SMAX);
    int x = s + 1;                                  /* the detached task */
    heap_insert(&H, TP(x));
    VASSERTM(read_heap(&H, s + 1, nd), "insert: complete tree of size+1 distinct tasks in max-heap order; size and priority fields right");
    for (int k = 1; k <= NT; k++) if (k <= s + 1) VASSERTM(member(nd, s + 1, k), "insert: element set = old set + new task");
    for (int k = 1; k <= NT; k++) VASSERTM(TP(k)->priority == prio[k], "insert: priorities untouched");
    VASSERTM(TP(nd[1])->priority >= prio[x] && (s == 0 || TP(nd[1])->priority >= prio[1]), "insert: top is the maximum");
    w1 = (s == SMAX && nd[1] == x); w2 = (s == SMAX && nd[1] != x && nd[s + 1] != x); w3 = (s == 0);
#define W1 "insert bubbles to the top of a full-size heap"
#define W2 "insert stops in the middle"
#define W3 "insert into the empty heap"
#elif OP == OP_REMOVE
    build(0, SMAX);
    parsec_heap_t *hp = s >= 1 ? &H : 0;            /* a heap that lost its last task was destroyed: NULL */
    parsec_task_t *r = heap_remove(&hp);
    if (s == 0) { VASSERTM(r == 0 && hp == 0, "remove from a NULL heap gives NULL"); }
    else {
        VASSERTM(r == &T1, "remove: returns the top (highest priority) task");
        for (int k = 1; k <= NT; k++) if (k <= s) VASSERTM(r->priority >= prio[k], "remove: returned task has the maximum priority");
        VASSERTM(r->super.list_next == (parsec_list_item_t*)r && r->super.list_prev == (parsec_list_item_t*)r, "remove: returned task is a singleton ring");
        if (s == 1) VASSERTM(hp == 0 && vp_nfreed == 1 && vp_freed[0] == (void*)&H, "remove: the emptied heap is destroyed and the caller's pointer nulled");
        else {
            VASSERTM(hp == &H && vp_nfreed == 0, "remove: heap kept");
            VASSERTM(read_heap(&H, s - 1, nd), "remove: remaining heap is a complete tree of size-1 distinct tasks in max-heap order; size/priority right");
            for (int k = 2; k <= NT; k++) if (k <= s) VASSERTM(member(nd, s - 1, k), "remove: element set = old set - returned task");
        }
    }
    for (int k = 1; k <= NT; k++) VASSERTM(TP(k)->priority == prio[k], "remove: priorities untouched");
    w1 = (s == SMAX && nd[1] != 2 && nd[1] != 3); w2 = (s == SMAX && nd[1] == 3); w3 = (s == 2);
#define W1 "remove: the last leaf stays on top (no bubbling)"
#define W2 "remove: right child promoted"
#define W3 "remove from a 2-element heap"
#elif OP == OP_SPLIT
    build(0, SMAX);
    parsec_heap_t *hp = s >= 1 ? &H : 0, *nh = (parsec_heap_t*)&T8;  /* "should already be NULL, but if it's not, we'll fix that" */
    parsec_task_t *r = heap_split_and_steal(&hp, &nh);
    if (s == 0) { VASSERTM(r == 0 && hp == 0 && nh == 0, "split_and_steal of a NULL heap gives NULL"); }
    else {
        VASSERTM(r == &T1, "split_and_steal: returns the top task");
        for (int k = 1; k <= NT; k++) if (k <= s) VASSERTM(r->priority >= prio[k], "split_and_steal: returned task has the maximum priority");
        VASSERTM(r->super.list_next == (parsec_list_item_t*)r && r->super.list_prev == (parsec_list_item_t*)r, "split_and_steal: returned task is a singleton ring");
        if (s == 1) VASSERTM(hp == 0 && nh == 0 && vp_nfreed == 1 && vp_freed[0] == (void*)&H, "split_and_steal: single-element heap destroyed, both pointers NULL");
        else if (s == 2) {
            VASSERTM(hp == &H && nh == 0 && vp_nfreed == 0, "split_and_steal: two elements -> one heap left, no new heap");
            VASSERTM(read_heap(&H, 1, nd) && nd[1] == 2, "split_and_steal: remaining heap holds exactly the other task");
            VASSERTM(H.list_item.list_next == (parsec_list_item_t*)&H && H.list_item.list_prev == (parsec_list_item_t*)&H, "split_and_steal: remaining heap is a singleton list");
        } else {
            VASSERTM(hp == &H && nh != 0 && nh != &H && vp_nfreed == 0, "split_and_steal: >=3 elements -> heap split in two");
            int sl = (int)nh->size, sr = (int)H.size;
            VASSERTM(sl >= 1 && sr >= 1 && sl + sr == s - 1, "split_and_steal: the two sizes add up to size-1");
            VASSERTM(sl <= SMAX && read_heap(nh, sl, nd2), "split_and_steal: new heap (left subtree) is a valid complete max-heap with right size/priority");
            VASSERTM(sr <= SMAX && read_heap(&H, sr, nd), "split_and_steal: old heap (right subtree) is a valid complete max-heap with right size/priority");
            for (int k = 2; k <= NT; k++) if (k <= s)
                VASSERTM(member(nd, sr, k) + member(nd2, sl, k) == 1, "split_and_steal: every remaining task is in exactly one of the two heaps");
            VASSERTM(H.list_item.list_next == (parsec_list_item_t*)nh && H.list_item.list_prev == (parsec_list_item_t*)nh &&
                     nh->list_item.list_next == (parsec_list_item_t*)&H && nh->list_item.list_prev == (parsec_list_item_t*)&H, "split_and_steal: the two heaps form a two-element ring");
        }
    }
    for (int k = 1; k <= NT; k++) VASSERTM(TP(k)->priority == prio[k], "split_and_steal: priorities untouched");
    w1 = (s == SMAX); w2 = (s == 3); w3 = (s == 2);
#define W1 "split a heap of SMAX"
#define W2 "split a heap of 3"
#define W3 "steal from a heap of 2"
#elif OP == OP_CREATE
    /* base case: heap_create gives a valid empty heap that is a singleton list */
    parsec_heap_t *h = heap_create();
    VASSERTM(h != 0 && h->size == 0 && h->top == 0, "create: empty heap");
    VASSERTM(h->list_item.list_next == (parsec_list_item_t*)h && h->list_item.list_prev == (parsec_list_item_t*)h, "create: singleton list");
    T1.priority = IN_INT(); T1.super.list_next = (parsec_list_item_t*)&T2; T1.super.list_prev = (parsec_list_item_t*)&T3;
    heap_insert(h, &T1);
    VASSERTM(read_heap(h, 1, nd) && nd[1] == 1, "create+insert: one-element heap");
    w1 = 1;
#define W1 "created"
#else
#error "OP"
#endif
    VASSERTM(!vp_calloc_bad, "harness: calloc stub used within its limits (one heap header, one scratch array of <= 8 pointers)");
    if (w1) VWITNESS(W1);
#ifdef W2
    if (w2) VWITNESS(W2);
#endif
#ifdef W3
    if (w3) VWITNESS(W3);
#endif
    return 0;
}
