/* C35 (hbbuffer half): one real operation of parsec/hbbuffer.c from EVERY quiescent buffer state.
 *
 * Buffer of `size` slots (1..HBSZ, symbolic), each slot empty or holding a task (symbolic occupancy;
 * canonical naming: slot i can only hold T(i+1) -- tasks are interchangeable objects), symbolic
 * priorities; argument ring of 1..NRING further tasks.  The parent store is a recording stub.
 * Struct hack: `items[1]` of parsec_hbbuffer_s is widened to items[VP_HBSZ] on an overlay copy of
 * hbbuffer.h (spec.py patches=), the buffer is a static typed object.
 */
#include "vp_harness.h"
/* parsec_task_t carries locals[MAX_LOCAL_COUNT] and data[MAX_PARAM_COUNT] (20 each, 984 bytes); the units under test
 * never touch them, but CBMC copies the whole struct on every write through a symbolic task pointer
 * (measured: 7.5 GB for pop_best).  The two configuration constants are lowered to 1 for this TU. */
#include "parsec/parsec_config.h"
#undef MAX_LOCAL_COUNT
#define MAX_LOCAL_COUNT 1
#undef MAX_PARAM_COUNT
#define MAX_PARAM_COUNT 1
#include "parsec/hbbuffer.c"

#ifndef HBSZ
#define HBSZ VP_HBSZ
#endif
#ifndef NRING
#define NRING 4
#endif
#define NT (HBSZ + NRING)

static parsec_task_t T1, T2, T3, T4, T5, T6, T7, T8;
static parsec_task_t *TP(int k) { return k==1?&T1:k==2?&T2:k==3?&T3:k==4?&T4:k==5?&T5:k==6?&T6:k==7?&T7:k==8?&T8:(parsec_task_t*)0; }
static int IDX(volatile void *p)
{
    if (p == 0) return 0;
    for (int k = 1; k <= NT; k++) if (p == (void*)TP(k)) return k;
    return -1;
}
static parsec_hbbuffer_t B;
static int parent_store_obj[2];

/* parent stub: records what overflowed */
static int pcalls, pdist; static parsec_list_item_t *pelt; static void *pstore;
static void parent_push(void *store, parsec_list_item_t *elt, int32_t distance)
{ pcalls++; pstore = store; pelt = elt; pdist = distance; }

static int sz, occ[HBSZ + 1], prio[NT + 1], m;     /* m = ring length; ring = T(HBSZ+1) .. T(HBSZ+m) */

static void build(int need_ring, int sorted_ring)
{
    sz = IN_RANGE(1, HBSZ);
    for (int k = 1; k <= NT; k++) { prio[k] = IN_INT(); TP(k)->priority = prio[k]; }
    B.size = (size_t)sz; B.ideal_fill = (size_t)sz; B.parent_store = &parent_store_obj[1]; B.parent_push_fct = parent_push;
    for (int i = 0; i < HBSZ; i++) {
        occ[i] = IN_BOOL();
        if (i >= sz) occ[i] = 0;
        B.items[i] = occ[i] ? (parsec_list_item_t*)TP(i + 1) : 0;
        /* tasks resting in the buffer are singleton rings (pushed by these functions) */
        TP(i + 1)->super.list_next = TP(i + 1)->super.list_prev = (parsec_list_item_t*)TP(i + 1);
    }
    m = need_ring ? IN_RANGE(1, NRING) : 0;
    for (int j = 0; j < NRING; j++) {
        parsec_task_t *t = TP(HBSZ + 1 + j);
        if (j < m) {
            t->super.list_next = (parsec_list_item_t*)TP(HBSZ + 1 + (j + 1 < m ? j + 1 : 0));
            t->super.list_prev = (parsec_list_item_t*)TP(HBSZ + 1 + (j > 0 ? j - 1 : m - 1));
            if (sorted_ring && j > 0) VASSUME(prio[HBSZ + j] >= prio[HBSZ + 1 + j]);
        }
    }
}
/* where is every task after the operation?  loc[k] = 1 in a buffer slot, 2 in the ring handed to the parent; counted */
static int inbuf[NT + 1], inpar[NT + 1], ringok, npar;
static void locate(void)
{
    for (int k = 0; k <= NT; k++) inbuf[k] = inpar[k] = 0;
    for (int i = 0; i < HBSZ; i++) { int k = IDX(B.items[i]); if (k > 0) inbuf[k]++; else if (k < 0) inbuf[0]++; }
    ringok = 1; npar = 0;
    if (pcalls == 1) {
        volatile parsec_list_item_t *p = pelt, *prev;
        if (IDX(pelt) < 1) { ringok = 0; return; }
        prev = pelt->list_prev;
        for (int s = 0; s < NT; s++) {
            int k = IDX(p);
            if (k < 1) { ringok = 0; return; }
            if (p->list_prev != prev) { ringok = 0; return; }
            inpar[k]++; npar++; prev = p; p = p->list_next;
            if (p == pelt) break;
        }
        if (p != pelt || pelt->list_prev != prev) ringok = 0;
    }
}

#define OP_PUSH_ALL 0
#define OP_PUSH_PRIO 1
#define OP_POP_BEST 2
#define OP_NEW 3
#define OP_SEQ 4

int main(void)
{
    int w1 = 0, w2 = 0, w3 = 0;
#if OP == OP_PUSH_ALL || OP == OP_PUSH_PRIO
    build(1, OP == OP_PUSH_PRIO);
    int distance = IN_RANGE(0, 2);
    int nfree = 0; for (int i = 0; i < HBSZ; i++) if (i < sz && !occ[i]) nfree++;
#if OP == OP_PUSH_ALL
    parsec_hbbuffer_push_all(&B, (parsec_list_item_t*)TP(HBSZ + 1), distance);
#else
    parsec_hbbuffer_push_all_by_priority(&B, (parsec_list_item_t*)TP(HBSZ + 1), distance);
#endif
    locate();
    VASSERTM(pcalls <= 1, "parent store called at most once");
    VASSERTM(ringok, "what is handed to the parent is a well-formed ring of known tasks");
    VASSERTM(inbuf[0] == 0, "buffer slots hold only known tasks or NULL");
    for (int i = HBSZ - 1; i >= 0; i--) if (i >= sz) VASSERTM(B.items[i] == 0, "slots beyond size untouched");
    for (int k = 1; k <= NT; k++) {
        int present = (k <= HBSZ) ? occ[k - 1] : (k - HBSZ <= m);
        VASSERTM(inbuf[k] + inpar[k] == (present ? 1 : 0), "no task lost, none duplicated: each pushed/resident task is in exactly one place (buffer or parent)");
    }
    if (pcalls == 1) VASSERTM(pstore == (void*)&parent_store_obj[1] && pdist == distance - 1, "parent called with its store and distance-1");
    if (distance != 0) {
        VASSERTM(pcalls == 1 && npar == m && pelt == (parsec_list_item_t*)TP(HBSZ + 1), "distance != 0: the whole ring goes upstream untouched");
        for (int i = 0; i < HBSZ; i++) VASSERTM(B.items[i] == (occ[i] ? (parsec_list_item_t*)TP(i + 1) : 0), "distance != 0: buffer unchanged");
    } else {
#if OP == OP_PUSH_ALL
        for (int i = 0; i < HBSZ; i++) if (occ[i]) VASSERTM(B.items[i] == (parsec_list_item_t*)TP(i + 1), "push_all: resident tasks stay in their slots");
        VASSERTM(npar == (m > nfree ? m - nfree : 0), "push_all: overflow goes to the parent only when the buffer is full, exactly the excess");
        { int fill = 0; for (int i = 0; i < HBSZ; i++) if (B.items[i] != 0) fill++;
          VASSERTM(npar == 0 || fill == sz, "push_all: parent used only when every slot is taken"); }
        /* ring order: the first min(m,nfree) ring items enter the buffer, the rest go up, in order */
        for (int j = 0; j < NRING; j++) if (j < m) VASSERTM(inbuf[HBSZ + 1 + j] == (j < nfree ? 1 : 0), "push_all: the first items of the ring take the free slots");
#else
        { int fill = 0, minb = 0, havemin = 0, maxp = 0, havemax = 0;
          for (int i = 0; i < HBSZ; i++) { int k = IDX(B.items[i]); if (k > 0) { fill++; if (!havemin || prio[k] < minb) { minb = prio[k]; havemin = 1; } } }
          for (int k = 1; k <= NT; k++) if (inpar[k]) { if (!havemax || prio[k] > maxp) { maxp = prio[k]; havemax = 1; } }
          VASSERTM(npar == 0 || fill == sz, "push_all_by_priority: parent used only when every slot is taken");
          VASSERTM(fill == (nfree >= m ? sz - nfree + m : sz), "push_all_by_priority: free slots are used first");
          VASSERTM(!havemax || !havemin || minb >= maxp, "push_all_by_priority: the buffer keeps the best: nothing handed to the parent beats a task kept in the buffer");
        }
#endif
    }
    for (int i = 0; i < HBSZ; i++) { int k = IDX(B.items[i]); if (k > 0 && k > HBSZ) VASSERTM(TP(k)->super.list_next == (parsec_list_item_t*)TP(k) && TP(k)->super.list_prev == (parsec_list_item_t*)TP(k), "a task stored in a slot is a singleton ring"); }
    w1 = (distance == 0 && sz == HBSZ && m == NRING && nfree >= 1 && npar >= 2); w2 = (distance == 0 && npar == 0 && m >= 2); w3 = (distance == 1);
#if OP == OP_PUSH_PRIO
    { int repl = 0; for (int i = 0; i < HBSZ; i++) if (occ[i] && B.items[i] != (parsec_list_item_t*)TP(i + 1)) repl++; w1 = (distance == 0 && sz == HBSZ && repl >= 2 && npar >= 3); }
#define W1 "push_all_by_priority: two residents ejected, >=3 tasks to the parent"
#else
#define W1 "push_all: partial fill, >=2 tasks overflow"
#endif
#define W2 "everything fits"
#define W3 "distance != 0: straight to the parent"

#elif OP == OP_POP_BEST
    build(0, 0);
    int any = 0, best = 0; for (int i = 0; i < HBSZ; i++) if (occ[i]) { if (!any || prio[i + 1] > best) best = prio[i + 1]; any++; }
    parsec_list_item_t *r = parsec_hbbuffer_pop_best(&B, parsec_execution_context_priority_comparator);
    int k = IDX(r);
    if (!any) VASSERTM(r == 0, "pop_best: NULL iff the buffer is empty");
    else {
        VASSERTM(k >= 1 && k <= HBSZ && occ[k - 1], "pop_best: returns a task that was in the buffer");
        VASSERTM(prio[k] == best, "pop_best (quiescent): returns a task of the highest priority present");
        VASSERTM(B.items[k - 1] == 0, "pop_best: its slot is emptied");
    }
    for (int i = 0; i < HBSZ; i++) if (i + 1 != k) VASSERTM(B.items[i] == (occ[i] ? (parsec_list_item_t*)TP(i + 1) : 0), "pop_best: other slots unchanged");
    VASSERTM(pcalls == 0, "pop_best: parent not involved");
    VASSERTM(parsec_hbbuffer_approx_occupency(&B) == any - (any ? 1 : 0), "approx_occupency counts the remaining tasks");
    w1 = (any == HBSZ && k >= 2); w2 = (!any); w3 = (any == 1 && sz >= 2);
#define W1 "pop_best from a full buffer, best not in slot 0"
#define W2 "pop_best from an empty buffer"
#define W3 "pop_best: single task"
#elif OP == OP_SEQ
    /* short history on the (array based) buffer: empty buffer, one push_all_by_priority of a sorted ring,
     * then pop_best until NULL: every task comes back exactly once (popped or handed to the parent),
     * pops come out in non-increasing priority order */
    build(1, 1);
    for (int i = 0; i < HBSZ; i++) { VASSUME(!occ[i]); }
    parsec_hbbuffer_push_all_by_priority(&B, (parsec_list_item_t*)TP(HBSZ + 1), 0);
    locate();
    VASSERTM(ringok && pcalls <= 1, "seq: overflow ring well formed");
    int popped[NT + 1], npop = 0, last = 0, mono = 1;
    for (int k = 0; k <= NT; k++) popped[k] = 0;
    for (int it = 0; it < HBSZ + 1; it++) {
        parsec_list_item_t *r = parsec_hbbuffer_pop_best(&B, parsec_execution_context_priority_comparator);
        if (r == 0) break;
        int k = IDX(r);
        VASSERTM(k > HBSZ && k <= HBSZ + m, "seq: pop_best returns one of the pushed tasks");
        if (k >= 1) { popped[k]++; if (npop > 0 && prio[k] > last) mono = 0; last = prio[k]; }
        npop++;
    }
    VASSERTM(parsec_hbbuffer_pop_best(&B, parsec_execution_context_priority_comparator) == 0, "seq: buffer empty after at most `size` pops");
    VASSERTM(npop == (m < sz ? m : sz), "seq: min(size, pushed) tasks were kept in the buffer");
    VASSERTM(mono, "seq: pop_best returns tasks in non-increasing priority order");
    for (int j = 1; j <= NRING; j++) if (j <= m) VASSERTM(popped[HBSZ + j] + inpar[HBSZ + j] == 1, "seq: every pushed task is returned exactly once (by pop_best or to the parent)");
    for (int j = 1; j <= NRING; j++) if (j <= m && inpar[HBSZ + j]) VASSERTM(npop == 0 || prio[HBSZ + j] <= last, "seq: tasks sent to the parent are not better than any task kept");
    w1 = (sz == HBSZ && m == NRING); w2 = (sz >= 2 && m == 1); w3 = (sz == 1 && m >= 2);
#define W1 "seq: largest buffer, longest ring"
#define W2 "seq: one task in a larger buffer"
#define W3 "seq: one slot"
#elif OP == OP_NEW
    /* base case: a new buffer is empty, remembers its parent; then a first push lands in slot 0 */
    size_t n = (size_t)IN_RANGE(1, HBSZ);
    parsec_hbbuffer_t *b = parsec_hbbuffer_new(n, n, parent_push, &parent_store_obj[1]);
    VASSERTM(b != 0 && b->size == n && b->parent_push_fct == parent_push && b->parent_store == (void*)&parent_store_obj[1], "new: header fields");
    for (int i = 0; i < HBSZ; i++) if ((size_t)i < n) VASSERTM(b->items[i] == 0, "new: all slots empty");
    VASSERTM(parsec_hbbuffer_is_empty(b), "new: is_empty");
    w1 = (n == HBSZ);
#define W1 "new buffer of HBSZ slots"
#else
#error "OP"
#endif
    if (w1) VWITNESS(W1);
#ifdef W2
    if (w2) VWITNESS(W2);
#endif
#ifdef W3
    if (w3) VWITNESS(W3);
#endif
    return 0;
}
