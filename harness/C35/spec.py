from vp.api import Q, Mutant
TITLE = "Task buffers and heaps keep every task and prefer the best"
OUTSIDE = []
ASSUMPTIONS = []
BOUNDS = {}
CLAIMED = False
MH = "parsec/maxheap.c"
CVP = [("parsec/include/parsec/parsec_config_bottom.h", r"\(\*\(\(int\*\)\(\(\(uintptr_t\)\(it\)\)\+off\)\)\)", "(*((int*)(((char*)(it))+(off))))")]
HB = "parsec/hbbuffer.c"
HBOPS = {"push_all": 0, "push_prio": 1, "pop_best": 2, "new": 3}
MHOPS = {"insert": 0, "remove": 1, "split": 2, "create": 3}

def queries(ctx):
    qs = []
    def mh(op, smax, tiers=("quick", "thorough"), timeout=1800):
        qs.append(Q("heap_%s_s%d" % (op, smax), ["mh.c"], defs=["OP=%d" % MHOPS[op], "SMAX=%d" % smax, "free=vp_free"], unwind=smax + 3,
                    units=[MH, "parsec/maxheap.h"], object_bits=10, timeout=timeout, tiers=tiers, info={}, mem_gb=8))
    for op in MHOPS:
        mh(op, 5)
    def hb(op, hbsz, nring, tiers=("quick", "thorough"), timeout=1800):
        qs.append(Q("hbb_%s_b%dr%d" % (op, hbsz, nring), ["hb.c"], defs=["OP=%d" % HBOPS[op], "VP_HBSZ=%d" % hbsz, "NRING=%d" % nring], unwind=hbsz + nring + 2,
                    units=[HB, "parsec/hbbuffer.h"], object_bits=10, timeout=timeout, tiers=tiers, info={},
                    mem_gb=8, patches=[("parsec/hbbuffer.h", r"items\[1\]", "items[VP_HBSZ]")] + CVP))
    for op in HBOPS:
        hb(op, 3, 4)
    return qs

def mutants(ctx):
    return []
