from vp.api import Q, Mutant
TITLE = "Task buffers and heaps keep every task and prefer the best"
MH = "parsec/maxheap.c"
HB = "parsec/hbbuffer.c"
OUTSIDE = ["concurrent pushes/pops on one hbbuffer (the CAS retry paths; 'pop_best returns the best' is only claimed for a quiescent buffer, as the property says)",
           "heaps of more than SMAX tasks / buffers of more than HBSZ slots (inductive in the number of operations, not in the size)",
           "the scheduler modules that combine heaps and buffers (C08/C09)",
           "allocation failure of heap_create / heap_insert's scratch array"]
ASSUMPTIONS = ["tasks are interchangeable objects: slot i / heap node k hold the static object with the same number (canonical naming; the code compares task addresses only for equality); priorities, sizes, occupancy stay symbolic",
               "push_all_by_priority receives a ring in non-increasing priority order (comment in hbbuffer.c: 'Because list is in decreasing priority order'; schedulers build it with parsec_list_item_ring_push_sorted)",
               "tasks resting in a buffer slot are singleton rings (they were stored by these functions)",
               "parsec_task_t's locals[]/data[] arrays are shrunk to one entry for the harness TU (MAX_LOCAL_COUNT/MAX_PARAM_COUNT = 1; never accessed by the units): CBMC copies whole structs on symbolic-pointer writes",
               "hbbuffer_t.items[1] (struct hack) is widened to items[VP_HBSZ] on an overlay copy of hbbuffer.h; COMPARISON_VAL's integer round trip is rewritten to char* arithmetic for the hbbuffer queries (equivalent)",
               "libc stubs for maxheap.c: free() records its argument (the heap header is a static object), calloc() hands out zeroed static typed storage (one heap header, one scratch pointer array)"]
BOUNDS = {"quick": {"heap tasks": "<=5", "buffer slots": "1..3", "ring": "1..4", "priorities": "any int32"},
          "thorough": {"heap tasks": "<=7", "buffer slots": "1..4", "ring": "1..4", "priorities": "any int32"}}
CVP = [("parsec/include/parsec/parsec_config_bottom.h", r"\(\*\(\(int\*\)\(\(\(uintptr_t\)\(it\)\)\+off\)\)\)", "(*((int*)(((char*)(it))+(off))))")]
HBOPS = {"push_all": 0, "push_prio": 1, "pop_best": 2, "new": 3, "seq": 4}
MHOPS = {"insert": 0, "remove": 1, "split": 2, "create": 3}
MHF = {"insert": ["heap_insert"], "remove": ["heap_remove", "heap_destroy"], "split": ["heap_split_and_steal", "heap_create", "heap_destroy", "hiBit"], "create": ["heap_create", "heap_insert"]}
HBF = {"push_all": ["parsec_hbbuffer_push_all"], "push_prio": ["parsec_hbbuffer_push_all_by_priority"], "pop_best": ["parsec_hbbuffer_pop_best", "parsec_hbbuffer_approx_occupency"],
       "new": ["parsec_hbbuffer_new", "parsec_hbbuffer_is_empty"], "seq": ["parsec_hbbuffer_push_all_by_priority", "parsec_hbbuffer_pop_best"]}

def queries(ctx):
    qs = []
    def mh(op, smax, tiers=("quick", "thorough"), timeout=1800):
        qs.append(Q("heap_%s_s%d" % (op, smax), ["mh.c"], defs=["OP=%d" % MHOPS[op], "SMAX=%d" % smax, "free=vp_free", "calloc=vp_calloc"], unwind=smax + 3,
                    unwindset=["vp_calloc.0:17", "vp_calloc.1:9"], units=[MH, "parsec/maxheap.h"], object_bits=10, timeout=timeout, tiers=tiers, mem_gb=8,
                    info={"symbolic": ["heap size 0..%d" % smax, "priorities (any int32) under the max-heap order", "stale links of the inserted task / of the heap header"],
                          "enumerated": ["operation kind", "canonical task naming"], "stubs": ["free (records)", "calloc (static typed storage)"],
                          "bounds": {"tasks": smax}, "functions": MHF[op]}))
    def hb(op, hbsz, nring, tiers=("quick", "thorough"), timeout=1800):
        qs.append(Q("hbb_%s_b%dr%d" % (op, hbsz, nring), ["hb.c"], defs=["OP=%d" % HBOPS[op], "VP_HBSZ=%d" % hbsz, "NRING=%d" % nring], unwind=hbsz + nring + 2,
                    unwindset=["parsec_hbbuffer_pop_best.0:%d" % (hbsz + 1), "parsec_hbbuffer_pop_best.1:2", "parsec_hbbuffer_push_all.2:%d" % (nring + 1),
                               "parsec_hbbuffer_push_all.1:%d" % (hbsz + 1), "parsec_hbbuffer_push_all_by_priority.3:%d" % (nring + 1),
                               "parsec_hbbuffer_push_all_by_priority.0:%d" % (hbsz + 1), "parsec_hbbuffer_approx_occupency.0:%d" % (hbsz + 1)],
                    units=[HB, "parsec/hbbuffer.h", "parsec/class/list_item.h"], object_bits=10, timeout=timeout, tiers=tiers, mem_gb=8,
                    patches=[("parsec/hbbuffer.h", r"items\[1\]", "items[VP_HBSZ]")] + CVP,
                    info={"symbolic": ["buffer size 1..%d" % hbsz, "which slots are occupied", "ring length 1..%d" % nring, "priorities (any int32)", "distance 0..2"],
                          "enumerated": ["operation kind", "canonical task naming"], "stubs": ["parent_push_fct (records store, ring head, distance)"],
                          "patches": ["hbbuffer.h items[1] -> items[VP_HBSZ]", "COMPARISON_VAL integer cast -> char* arithmetic"],
                          "bounds": {"slots": hbsz, "ring": nring, "CAS retry loops": "1 iteration (sequential; unwinding assertion shows no retry)"}, "functions": HBF[op]}))
    for op in MHOPS:
        mh(op, 5)
        if op != "create":
            mh(op, 7, tiers=("thorough",), timeout=3400)
    for op in HBOPS:
        hb(op, 3, 4)
        if op != "new":
            hb(op, 4, 4, tiers=("thorough",), timeout=3400)
    return qs

def mutants(ctx):
    return [
        Mutant("push_all_overflow_rest_dropped", HB, "    if( NULL != next ) {\n        parsec_list_item_ring_push(next, elt);\n    }", "", queries=["hbb_push_all_b3r4"]),
        Mutant("push_prio_evicts_the_best", HB, "            if( A_LOWER_PRIORITY_THAN_B(candidate, best_context, parsec_execution_context_priority_comparator) ) {",
               "            if( A_HIGHER_PRIORITY_THAN_B(candidate, best_context, parsec_execution_context_priority_comparator) ) {", queries=["hbb_push_prio_b3r4"]),
        Mutant("push_prio_earlier_ejected_lost", HB, "                    if( NULL != ejected ) {\n                        parsec_list_item_ring_merge( (parsec_list_item_t*)best_context, ejected );\n                    }", "",
               queries=["hbb_push_prio_b3r4"]),
        Mutant("push_prio_rest_of_list_lost", HB, "            if( NULL != list )\n                parsec_list_item_ring_merge( ejected, list );", "", queries=["hbb_push_prio_b3r4", "hbb_seq_b3r4"]),
        Mutant("pop_best_returns_worst", HB, "            if( (NULL == best_elt) || A_HIGHER_PRIORITY_THAN_B(candidate, best_elt, priority_offset) ) {",
               "            if( (NULL == best_elt) || A_LOWER_PRIORITY_THAN_B(candidate, best_elt, priority_offset) ) {", queries=["hbb_pop_best_b3r4"]),
        Mutant("pop_best_first_nonempty", HB, "            if( (NULL == best_elt) || A_HIGHER_PRIORITY_THAN_B(candidate, best_elt, priority_offset) ) {",
               "            if( (NULL == best_elt) ) {", queries=["hbb_pop_best_b3r4"]),
        Mutant("heap_insert_top_not_updated", MH, "            if (parent == heap->top)\n                heap->top = elem;", "", queries=["heap_insert_s5"]),
        Mutant("heap_insert_grandparent_link_missing", MH, "                if (grandparent->super.list_prev /* left */ == (parsec_list_item_t*)parent)\n                    grandparent->super.list_prev = (parsec_list_item_t*)elem;",
               "                if (0)\n                    grandparent->super.list_prev = (parsec_list_item_t*)elem;", queries=["heap_insert_s5"]),
        Mutant("heap_remove_ignores_bigger_right_child", MH, "                    if (prev != NULL && prev->priority > bubbler->priority &&\n                        (next == NULL || prev->priority >= next->priority)) {",
               "                    if (prev != NULL && prev->priority > bubbler->priority) {", queries=["heap_remove_s5"]),
        Mutant("heap_remove_size_not_decremented", MH, "            heap->size--;\n            heap->priority = heap->top->priority;", "            heap->priority = heap->top->priority;", queries=["heap_remove_s5"]),
        Mutant("heap_split_left_size_off_by_one", MH, "            (*new_heap_ptr)->size = (size & ~highBit) + twoBit;", "            (*new_heap_ptr)->size = (size & ~highBit) + twoBit - 1;", queries=["heap_split_s5"]),
        Mutant("heap_split_priority_of_old_heap_stale", MH, "        heap->top = (parsec_task_t*)heap->top->super.list_next;\n        heap->priority = heap->top->priority;", "        heap->top = (parsec_task_t*)heap->top->super.list_next;", queries=["heap_split_s5"]),
    ]

CLAIMED = True
MANIFEST = {
 "engine": "cbmc-src",
 "text": "Bounded model checking of the real hbbuffer.c and maxheap.c, one operation from every valid pre-state.  hbbuffer: for every buffer size 1..3 (thorough 4), every occupancy pattern, every ring of 1..4 tasks and all int32 priorities the solver shows that push_all / push_all_by_priority put every task in exactly one place (a slot or the ring handed once to the parent store, which is well formed), that free slots are used first, that push_all_by_priority never hands the parent a task better than one it kept, that a quiescent pop_best returns a task of the highest priority present and empties only its slot; a short history (push into an empty buffer, pop until NULL) returns every task exactly once in non-increasing order.  maxheap: from every valid complete-tree max-heap of 0..5 (thorough 7) tasks, heap_insert / heap_remove / heap_split_and_steal leave valid complete max-heaps with correct size and priority fields, return the top (maximum) task as a singleton, and preserve the set of tasks exactly (split: each remaining task in exactly one of the two heaps, sizes add up).",
 "note": "Sequential (quiescent) semantics only: the CAS retry paths of the buffer under contention are outside; the ring given to push_all_by_priority is assumed sorted (caller contract); struct-hack array widened, task struct arrays shrunk, calloc/free stubbed with static typed storage, COMPARISON_VAL integer cast rewritten to char* arithmetic (all listed in the evidence).",
 "technique": "CBMC bounded symbolic execution of the real C units from symbolic valid pre-states (inductive step per operation) + SAT (cadical)",
}
