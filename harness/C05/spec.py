"""C05, reduced to the delivery relation (DESIGN 4, C05): for every broadcast topology and every
short-message limit the set {(rank, output) : rank receives output's payload} computed by the real
relay / packing / receiving code equals the destination sets of the outputs -- hence it is the same
for every topology and limit.  Shares the C13 harnesses (../C13/*.c) and query constructors."""
import importlib.util
import os
from vp.api import Q, Mutant

_p = os.path.join(os.path.dirname(os.path.abspath(__file__)), "..", "C13", "spec.py")
_sp = importlib.util.spec_from_file_location("spec_C13_for_C05", _p)
c13 = importlib.util.module_from_spec(_sp)
_sp.loader.exec_module(c13)

TITLE = "Distributed PTG results do not depend on process count or message path (delivery relation)"
KF = "C05-chain-relay-differing-dests"
OUTSIDE = [
    "computed VALUES and termination of every process across real OS processes and the MPI library (not encodable: several processes + FFI)",
    "data distributions used for placement (2D block-cyclic / tabular / hash): the harness quantifies over the resulting destination rank sets directly",
    "thread counts and interleavings inside one process; the documented unsupported case of one output flow sent with several remote shapes in short messages",
] + c13.OUTSIDE
ASSUMPTIONS = [
    "the property is reduced to the delivery relation: 'rank r receives output k' is the conjunction of (pair.c) r is sent exactly one activation "
    "whose payload rule selects k, (pack.c) the real remote_dep_mpi_pack_dep lists/embeds exactly the selected outputs under each short limit, "
    "(recv.c) the real receiver attributes the listed payloads to the outputs it consumes and releases each of them locally exactly once",
    "independence of the topology / limit follows because each configuration is shown equal to the same specification (the destination sets)",
] + c13.ASSUMPTIONS
BOUNDS = {"quick": {"pair": "star NR=3, chain NR=4, binomial NR=4, NOUT=2", "pack": "NR=4 NOUT=3, short limit 0 and default", "recv": "NR=3 NOUT=3"},
          "thorough": {"pair": "all topologies NR=4 NOUT=2 and NR=3 NOUT=3", "pack": "+ oversized output", "recv": "NR=4 NOUT=3",
                       "relay": "whole-system simulation NR=3"}}


def _kf(q):
    if q.kf:
        q.kf = KF
    return q


def queries(ctx):
    c13.detect_fix(ctx)
    qs = []
    for topo, nr in ((0, 3), (1, 4), (2, 4)):
        for part in (0, 1):
            qs.append(_kf(c13.pair_q(nr, 2, topo, part)))
    for short in (0, 1):
        qs.append(c13.pack_q(4, 3, short))
    qs.append(c13.recv_q(3, 3, 0))
    if ctx.thorough:
        T = ("thorough",)
        qs.append(c13.pack_q(4, 3, 2, tiers=T))
        qs.append(c13.recv_q(4, 3, 0, tiers=T))
        for part in (0, 1):
            qs.append(_kf(c13.pair_q(4, 2, 0, part, tiers=T)))
            for topo in (0, 1):
                qs.append(_kf(c13.pair_q(3, 3, topo, part, tiers=T)))
        for topo in (0, 1):
            qs.append(_kf(c13.relay_q(3, 2, topo)))
    return qs


def mutants(ctx):
    RD_C, RD_H, RD_MPI = c13.RD_C, c13.RD_H, c13.RD_MPI
    return [
        Mutant("chain_child_any_later", RD_C, "    if(him == me+1) return 1;", "    if(him >= me+1) return 1;", queries=["pair_chain_n4_o2_b"]),
        Mutant("binomial_child_off_by_one", RD_C, "    return him == me;", "    return him == me + 1;", queries=["pair_binomial_n4_o2_a"]),
        Mutant("bit_to_rank_no_root_shift", RD_H, "    *rank = (_rank + root) % nb_nodes;", "    *rank = (_rank) % nb_nodes;", queries=["pair_star_n3_o2_a"]),
        Mutant("pack_short_limit_ignored", RD_MPI, "        if( parsec_param_short_limit ) {\n#endif\n            if((length - (*position)) >= dsize) {",
               "        if( 1 ) {\n#endif\n            if((length - (*position)) >= dsize) {", queries=["pack_n4_o3_s0"]),
        Mutant("recv_sizes_indexed_by_output", RD_MPI,
               "origin->output[k].data.remote.src_count = (idx < data_sizes[0]) ? data_sizes[idx+1] : 0;",
               "origin->output[k].data.remote.src_count = (k < data_sizes[0]) ? data_sizes[k+1] : 0;", queries=["recv_n3_o3_ok"]),
    ]


CLAIMED = True
MANIFEST = {
 "engine": "cbmc-src",
 "text": "Reduced to what a solver can decide about message-path independence: the DELIVERY RELATION. With the real relay, packing and "
         "receiving code of remote_dep.c / remote_dep_mpi.c (shared with C13) one SAT query per configuration quantifies over every root, "
         "every family of destination rank sets of the outputs and every rank, and shows that the set {(rank, output): rank receives the "
         "output's payload} equals the destination sets - for the star, chain and binomial broadcast topologies (3-4 ranks) and for short-message "
         "limit 0 and default (real remote_dep_mpi_pack_dep) - hence is the same whatever the topology and limit. The check reports the "
         "one exception it found and a real MPI run confirmed: with chain/binomial a rank whose relay parent does not consume one of its "
         "outputs never receives it (known finding C05/C13-chain-relay-differing-dests).",
 "note": "NOT covered (not encodable with this technique): computed values, termination of every process, real datatypes, thread "
         "interleavings, data-distribution functions - they need several OS processes and the MPI library. Bounds: 3-4 ranks, 2-3 outputs. "
         "MPI, payload bytes, the generated successor iterator and the root-side gathering are stubs; composition of the per-destination "
         "obligations into the relation is a manual argument (checked directly by whole-system simulations in the thorough tier).",
 "technique": "CBMC bounded symbolic execution of the real C units + SAT (cadical), symbolic root / destination sets / ranks, enumerated "
              "topology, limit and sizes; counterexamples replayed natively and on real MPI",
}
