/* C08 (concurrent entry points, Engine S): the real schedule/select of the LIFO based modules
 * llp (sorted LIFO merge, lifo_chain_sorted / lifo_merge_ring, CAS-128 variant) and ll (lifo chain /
 * pop with stealing) under symbolic interleavings.  The module source is #included so that the
 * static functions are inlined into the thread entries and yields fall INSIDE lifo_chain_sorted,
 * lifo_merge_ring and the pop/steal path.
 *
 * Two execution streams of one VP; their scheduler objects are static objects initialised field by
 * field exactly as parsec_lifo_construct / the module constructors do (the class system's indirect
 * calls would run atomically and are not the subject here).  Stream 0's queue is the multi-writer
 * one (single_writer == false: the communication thread / other streams may schedule into it),
 * stream 1's queue is single-writer but may be stolen from.
 *
 * Oracle = the C08 oracle, general for every scenario (nothing scenario specific is asserted):
 *   - both queues are NULL terminated (no cycle within NT+1 steps);
 *   - every task that was handed to the module is in exactly one place: in exactly one queue exactly
 *     once, or returned by exactly one select;  a task never handed to the module is nowhere;
 *   - a concurrent select may return NULL (a writer may have the list detached at that instant): not an error;
 *   (a sequential drain of NULL-terminated, duplicate-free queues with the real select is what the
 *    sequential C08 queries check; repeating it here only costs solver time).
 */
#include "vp_harness.h"
#include "parsec/parsec_config.h"
#include "parsec/class/barrier.h"

#if defined(MOD_ll)
#include "parsec/mca/sched/ll/sched_ll_module.c"
#define SCHEDULE sched_ll_schedule
#define SELECT   sched_ll_select
typedef parsec_lifo_with_local_counter_t qobj_t;
const parsec_sched_base_component_t parsec_sched_ll_component;
#else
#include "parsec/mca/sched/llp/sched_llp_module.c"
#define SCHEDULE sched_llp_schedule
#define SELECT   sched_llp_select
typedef parsec_lifo_with_prio_t qobj_t;
const parsec_sched_base_component_t parsec_sched_llp_component;
#endif

/* symbols the (unused here) flow_init / remove / constructor code of the module refers to */
void parsec_obj_destruct(parsec_object_t *o) { (void)o; }
void parsec_obj_destruct_and_free(parsec_object_t *o) { (void)o; }
void parsec_class_initialize(parsec_class_t *c) { (void)c; }
parsec_class_t parsec_object_t_class, parsec_lifo_t_class;
int parsec_barrier_wait(parsec_barrier_t *b) { (void)b; return 0; }
int parsec_debug_output, parsec_debug_verbose, parsec_debug_colorize, parsec_debug_rank;

#ifndef SCEN
#define SCEN 1
#endif
#ifndef NT
#define NT 5
#endif
/* Task storage: only the prefix of parsec_task_t that the LIFO modules touch (list links and the priority read
 * through COMPARISON_VAL at offsetof(parsec_task_t, priority)); a full parsec_task_t is 984 bytes and every
 * symbolic-pointer access to an array of them costs the symbolic executor minutes per step. */
typedef struct { parsec_list_item_t super; parsec_thread_mempool_t *mempool_owner; parsec_taskpool_t *taskpool;
                 const parsec_task_class_t *task_class; int32_t priority; int32_t pad; } task_prefix_t;
_Static_assert(offsetof(task_prefix_t, priority) == offsetof(parsec_task_t, priority), "prefix layout matches parsec_task_t");
task_prefix_t TS[NT];                    /* A B C D E */
#define TK(i) ((parsec_task_t *)&TS[i])
#define A TK(0)
#define B TK(1)
#define C TK(2)
#define D TK(3)
#define E TK(4)
parsec_vp_t VP;
parsec_execution_stream_t ES0, ES1;
qobj_t Q0, Q1;
parsec_task_t *r[4];                     /* results of the selects, one slot per select call */
int given[NT];                           /* 1 = handed to the module (set in setup: scenario constant) */

static void q_init(qobj_t *q)
{
    q->lifo.alignment = PARSEC_LIFO_ALIGNMENT_DEFAULT;
    q->lifo.lifo_head.data.item = NULL;
    q->lifo.lifo_head.data.guard.counter = 0;
}
static void one(parsec_task_t *t, int prio) { t->priority = prio; t->super.list_next = &t->super; t->super.list_prev = &t->super; }
static void two(parsec_task_t *a, parsec_task_t *b) { a->super.list_next = &b->super; a->super.list_prev = &b->super; b->super.list_next = &a->super; b->super.list_prev = &a->super; }
static void base_setup(void)
{
    VP.nb_cores = 2; VP.vp_id = 0; VP.execution_streams[0] = &ES0; VP.execution_streams[1] = &ES1;
    ES0.th_id = 0; ES0.virtual_process = &VP; ES0.scheduler_object = &Q0;
    ES1.th_id = 1; ES1.virtual_process = &VP; ES1.scheduler_object = &Q1;
    q_init(&Q0); q_init(&Q1);
}
static void seed(qobj_t *q, parsec_task_t *t) { parsec_lifo_nolock_push(&q->lifo, &t->super); }

#if SCEN == 1   /* q0=[A(5)]   T0: schedule(es0,{B(5)},0)        T1: select(es1) (steals A); schedule(es0,{C(9)},0)
                 * B is not lower than the head: fast path, whose CAS fails when T1 changes the head in between */
void setup(void) { base_setup(); one(A, 5); one(B, 5); one(C, 9); seed(&Q0, A); given[0] = given[1] = given[2] = 1; }
void thread0(void) { SCHEDULE(&ES0, B, 0); }
void thread1(void) { int32_t d; r[0] = SELECT(&ES1, &d); SCHEDULE(&ES0, C, 0); }
#elif SCEN == 2 /* as 1 with B(1): B must be merged behind A unless A has gone */
void setup(void) { base_setup(); one(A, 5); one(B, 1); one(C, 9); seed(&Q0, A); given[0] = given[1] = given[2] = 1; }
void thread0(void) { SCHEDULE(&ES0, B, 0); }
void thread1(void) { int32_t d; r[0] = SELECT(&ES1, &d); SCHEDULE(&ES0, C, 0); }
#elif SCEN == 7 /* as 1, but the interfering thread uses the LIFO primitives directly (what select/steal and a push boil down to) */
void setup(void) { base_setup(); one(A, 5); one(B, 5); one(C, 9); seed(&Q0, A); given[0] = given[1] = given[2] = 1; }
void thread0(void) { SCHEDULE(&ES0, B, 0); }
void thread1(void) { r[0] = (parsec_task_t *)parsec_lifo_pop(&Q0.lifo); parsec_lifo_push(&Q0.lifo, &C->super); }
#elif SCEN == 8 /* as 2 (B lower than A), interfering thread on the LIFO primitives */
void setup(void) { base_setup(); one(A, 5); one(B, 1); one(C, 9); seed(&Q0, A); given[0] = given[1] = given[2] = 1; }
void thread0(void) { SCHEDULE(&ES0, B, 0); }
void thread1(void) { r[0] = (parsec_task_t *)parsec_lifo_pop(&Q0.lifo); parsec_lifo_push(&Q0.lifo, &C->super); }
#elif SCEN == 9 /* smallest interference that makes the fast-path CAS fail: q0=[A(5)]   T0: schedule(es0,{B(5)},0)   T1: push C(9) on q0 */
void setup(void) { base_setup(); one(A, 5); one(B, 5); one(C, 9); seed(&Q0, A); given[0] = given[1] = given[2] = 1; }
void thread0(void) { SCHEDULE(&ES0, B, 0); }
void thread1(void) { parsec_lifo_push(&Q0.lifo, &C->super); }
#elif SCEN == 3 /* q0=[A(5),D(3)]   T0: schedule(es0, ring{B(4),E(2)}, 0) (detach + merge)    T1: select(es1); select(es1) */
void setup(void) { base_setup(); one(A, 5); one(D, 3); one(B, 4); one(E, 2); two(B, E); seed(&Q0, D); seed(&Q0, A);
                   given[0] = given[1] = given[3] = given[4] = 1; }
void thread0(void) { SCHEDULE(&ES0, B, 0); }
void thread1(void) { int32_t d; r[0] = SELECT(&ES1, &d); r[1] = SELECT(&ES1, &d); }
#elif SCEN == 4 /* single-writer queue being stolen from: q1=[A(5)]   T0 (stream 1): schedule(es1,{B(3)},0); select(es1)
                 *                                                    T1 (stream 0): select(es0) (steals from q1) */
void setup(void) { base_setup(); one(A, 5); one(B, 3); seed(&Q1, A); given[0] = given[1] = 1; }
void thread0(void) { int32_t d; SCHEDULE(&ES1, B, 0); r[0] = SELECT(&ES1, &d); }
void thread1(void) { int32_t d; r[1] = SELECT(&ES0, &d); }
#elif SCEN == 5 /* two writers into the multi-writer queue: q0=[A(5)]   T0: schedule(es0,{B(7)},0)   T1: schedule(es0,{C(3)},0); select(es1) */
void setup(void) { base_setup(); one(A, 5); one(B, 7); one(C, 3); seed(&Q0, A); given[0] = given[1] = given[2] = 1; }
void thread0(void) { SCHEDULE(&ES0, B, 0); }
void thread1(void) { int32_t d; SCHEDULE(&ES0, C, 0); r[0] = SELECT(&ES1, &d); }
#elif SCEN == 6 /* distance hint (ll: goes to the neighbour's LIFO): q1=[A]   T0: schedule(es0, ring{B,E}, 1)   T1: select(es1); select(es1) */
void setup(void) { base_setup(); one(A, 5); one(B, 4); one(E, 2); two(B, E); seed(&Q1, A); given[0] = given[1] = given[4] = 1; }
void thread0(void) { SCHEDULE(&ES0, B, 1); }
void thread1(void) { int32_t d; r[0] = SELECT(&ES1, &d); r[1] = SELECT(&ES1, &d); }
#endif

static int held(parsec_task_t *t) { int n = 0; for (int k = 0; k < 4; k++) if (r[k] == t) n++; return n; }

void check(void)
{
    int in0[NT], in1[NT], n0 = 0, n1 = 0;
    for (int k = 0; k < NT; k++) in0[k] = in1[k] = 0;
    parsec_list_item_t *p;
    for (p = Q0.lifo.lifo_head.data.item; p != NULL && n0 < NT + 1; p = (parsec_list_item_t *)p->list_next, n0++)
        for (int k = 0; k < NT; k++) if (p == &TS[k].super) in0[k]++;
    for (p = Q1.lifo.lifo_head.data.item; p != NULL && n1 < NT + 1; p = (parsec_list_item_t *)p->list_next, n1++)
        for (int k = 0; k < NT; k++) if (p == &TS[k].super) in1[k]++;
    VASSERTM(n0 <= NT && n1 <= NT, "both queues are NULL terminated (no cycle)");
    int nheld = 0;
    for (int k = 0; k < NT; k++) {
        int places = in0[k] + in1[k] + held(TK(k));
        VASSERTM(places == given[k], "every task handed to the module is in exactly one place (one queue once, or one select), others nowhere");
        nheld += held(TK(k));
    }
#if SCEN == 9
    if (n0 == 3) VWITNESS("three tasks queued after a concurrent schedule and push");
#else
    if (nheld >= 1 && n0 + n1 >= 1) VWITNESS("a concurrent select got a task and tasks remain queued");
#endif
}
