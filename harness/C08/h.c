/* C08: a scheduler module never loses or duplicates a ready task.
 *
 * Unit: the real parsec/mca/sched/<M>/sched_<M>_module.c, included (-DM=<m> -DMODFILE="...") so
 * that its static schedule/select/flow_init are called directly, on top of the real containers
 * (list.h, lifo.h, dequeue.h, hbbuffer.c, maxheap.c: linked or inlined from the headers).
 *
 * State: one virtual process with NES execution streams (static typed objects).  Initialisation
 *   INIT_REAL  : the real flow_<M>_init() is executed for stream 0, then 1, ...  (modules with a
 *                single barrier after the stream-0 allocation: ap gd ip rnd spq ll llp lhq); the
 *                barrier is a counting no-op;
 *   INIT_WIRED : lfq / pbq (and ltq, which is not within reach: see spec.py OUTSIDE) synchronise twice inside flow_init and every stream reads what
 *                the others built between the barriers: the harness builds the same objects with
 *                the same helper calls (PARSEC_OBJ_NEW(parsec_dequeue_t), parsec_hbbuffer_new(..,
 *                parsec_mca_sched_push_in_system_queue_wrapper, sched_obj), neighbour order
 *                (th_id+nq)%nb_cores) -- flow_init of these three modules is NOT covered.
 *
 * History (shape enumerated by the driver: N1, N2, RESCHED; the rest symbolic):
 *   schedule(es[e1], ring of N1, d1) ; s1 x select(es[*]) ; [reschedule the first selected task on
 *   the selecting stream with distance+1] ; schedule(es[e2], ring of N2, d2) ;
 *   drain: every stream selects until it gets NULL ; one more select per stream must be NULL.
 * Symbolic: priorities, submitting streams e1,e2, distances d1,d2 in 0..DMAX, s1 in 0..N1, the
 * stream of every intermediate select, task-class flags / shared inputs where the module reads them.
 *
 * Oracle: a task comes out of select only while it is pending (never twice, never an unknown
 * pointer), it comes out detached from its ring (singleton or NULL links are both accepted: the
 * modules differ), every scheduled task has come out when all streams report NULL; STRONG
 * modules (every stream can reach every queue of the VP): select returns NULL only when nothing
 * is pending.  A second VP (TWO_VP) must never see a task of the first.
 */
#include "vp_harness.h"
#include <stdlib.h>

#include "parsec/parsec_config.h"
#include "parsec/class/barrier.h"
static int vp_barrier_calls;
int parsec_barrier_wait(parsec_barrier_t *b) { (void)b; vp_barrier_calls++; return 0; }

#ifdef NEED_RAND
/* rnd: rand() is an input (any value the C library may return) */
int rand(void) { int r = IN_INT(); VASSUME(r >= 0); return r; }
#endif

#include MODFILE

#define CAT3_(a, b, c) a##b##c
#define CAT3(a, b, c) CAT3_(a, b, c)
#define SCHEDULE CAT3(sched_, M, _schedule)
#define SELECT   CAT3(sched_, M, _select)
#define FLOWINIT CAT3(flow_, M, _init)
const parsec_sched_base_component_t CAT3(parsec_sched_, M, _component);

/* container class instances and (where used) the bounded buffer / heap: same translation unit, so
 * that loop names are stable for --unwindset */
#include "parsec/class/parsec_list.c"
#ifdef NEED_DEQUEUE
#include "parsec/class/parsec_dequeue.c"
#endif
#ifdef NEED_LIFO
#include "parsec/class/parsec_lifo.c"
#endif
#ifdef NEED_HB
#include "parsec/hbbuffer.c"
#endif
#ifdef NEED_HEAP
#include "parsec/maxheap.c"
#endif
#include "vp_objstub.h"

/* ---- stubs of services the modules call but that are not under test ---- */
int parsec_debug_output, parsec_debug_verbose, parsec_debug_colorize, parsec_debug_rank, parsec_debug_coredump_on_fatal;
static int vp_fatal_reached;
void parsec_output(int id, const char *f, ...) { (void)id; (void)f; }
void parsec_output_verbose(int l, int id, const char *f, ...) { (void)l; (void)id; (void)f; }
#ifdef NEED_HWLOC
/* topology model for lhq: HW_LEVELS levels; level 0 is shared by all streams (master 0); at
 * every deeper level each stream is its own master (1 core).  Enumerated by the driver. */
#ifndef HW_LEVELS
#define HW_LEVELS 2
#endif
int parsec_hwloc_nb_levels(void) { return HW_LEVELS; }
int parsec_hwloc_master_id(int level, int th) { return level == 0 ? 0 : th; }
unsigned int parsec_hwloc_nb_cores(int level, int m) { (void)m; return level == 0 ? NES : 1; }
int parsec_hwloc_distance(int a, int b) { return a == b ? 0 : 1; }
#endif

#ifndef NES
#define NES 2
#endif
#ifndef N1
#define N1 2
#endif
#ifndef N2
#define N2 1
#endif
#define NT (N1 + N2)
#ifndef DMAX
#define DMAX 2
#endif
#ifndef PMIN
#define PMIN 0
#endif
#ifndef PMAX
#define PMAX 2
#endif

static parsec_task_t T0, T1, T2, T3, T4;
static parsec_task_class_t TC0, TC1;
static parsec_data_copy_t DC0, DC1;
static parsec_task_t *task(int i) { return i == 0 ? &T0 : i == 1 ? &T1 : i == 2 ? &T2 : i == 3 ? &T3 : &T4; }
static int task_index(const parsec_task_t *t) { return t == &T0 ? 0 : t == &T1 ? 1 : t == &T2 ? 2 : t == &T3 ? 3 : t == &T4 ? 4 : -1; }

static parsec_context_t CTX;
static parsec_vp_t VP, VPB;
static parsec_execution_stream_t ES0, ES1, ES2, ESB;
static parsec_barrier_t BAR;
static parsec_execution_stream_t *es(int i) { return i == 0 ? &ES0 : i == 1 ? &ES1 : &ES2; }

static int pending[5], npending, sched_on[5], nreturned[5];
static int cross_stream_seen, far_seen, null_while_pending, resched_done;

#ifdef INIT_WIRED
#ifndef QSIZE
#define QSIZE 1
#endif
static parsec_mca_sched_local_queues_scheduler_object_t SO0, SO1, SO2;
static parsec_hbbuffer_t *HQ0[NES], *HQ1[NES], *HQ2[NES];
static parsec_mca_sched_local_queues_scheduler_object_t *so(int i) { return i == 0 ? &SO0 : i == 1 ? &SO1 : &SO2; }
static void init_wired(void)
{
    /* phase 1 of flow_{lfq,ltq,pbq}_init: per-stream object, stream 0 creates the system queue */
    for (int t = 0; t < NES; t++) {
        es(t)->scheduler_object = so(t);
        so(t)->nb_hierarch_queues = NES;
        so(t)->hierarch_queues = t == 0 ? HQ0 : t == 1 ? HQ1 : HQ2;
    }
    SO0.system_queue = PARSEC_OBJ_NEW(parsec_dequeue_t);
    /* phase 2: everybody takes the system queue of stream 0 and creates its bounded buffer */
    for (int t = 0; t < NES; t++) {
        so(t)->system_queue = SO0.system_queue;
        so(t)->task_queue = parsec_hbbuffer_new(QSIZE, 1, parsec_mca_sched_push_in_system_queue_wrapper, (void *)so(t));
        so(t)->hierarch_queues[0] = so(t)->task_queue;
    }
    /* phase 3: neighbours, closest first (the no-topology order of the real code) */
    for (int t = 0; t < NES; t++)
        for (int nq = 1; nq < NES; nq++)
            so(t)->hierarch_queues[nq] = so((t + nq) % NES)->task_queue;
}
#endif

static void do_schedule(int e, int first, int n, int d)
{
    if (n <= 0) return;
    parsec_list_item_t *ring = parsec_list_item_singleton(&task(first)->super);
    for (int i = 1; i < n; i++) {
        parsec_list_item_singleton(&task(first + i)->super);
        parsec_list_item_ring_push(ring, &task(first + i)->super);
    }
    for (int i = 0; i < n; i++) { pending[first + i] = 1; sched_on[first + i] = e; npending++; }
    /* the stream is selected by an if-chain of calls with a constant stream (a symbolic stream
     * pointer makes every es->virtual_process->execution_streams[i]->scheduler_object chain symbolic) */
    int rc;
    if (e == 0) rc = SCHEDULE(&ES0, (parsec_task_t *)ring, d);
    else if (e == 1) rc = SCHEDULE(&ES1, (parsec_task_t *)ring, d);
    else rc = SCHEDULE(&ES2, (parsec_task_t *)ring, d);
    VASSERTM(rc == PARSEC_SUCCESS, "schedule reports success");
}

/* one select on stream e; returns the index of the task or -1 */
static int last_distance;
static int do_select(int e)
{
    int32_t d = 0;
    parsec_task_t *t;
    if (e == 0) t = SELECT(&ES0, &d);
    else if (e == 1) t = SELECT(&ES1, &d);
    else t = SELECT(&ES2, &d);
    last_distance = d;
    if (t == NULL) {
        if (npending > 0) null_while_pending++;
#ifdef STRONG
        VASSERTM(npending == 0, "select returns NULL only when no task is pending in the VP");
#endif
        return -1;
    }
    int k = task_index(t);
    VASSERTM(k >= 0 && k < NT, "select returns one of the scheduled tasks");
    VASSERTM(pending[k] == 1, "the selected task was pending (no duplicate, no resurrection)");
    VASSERTM(d >= 0, "reported distance is not negative");
    pending[k] = 0; nreturned[k]++; npending--;
    if (sched_on[k] != e) cross_stream_seen++;
    if (d > 0) far_seen++;
    return k;
}

int main(void)
{
    CTX.nb_vp = 1; CTX.virtual_processes[0] = &VP;
    VP.parsec_context = &CTX; VP.nb_cores = NES; VP.vp_id = 0;
    VP.execution_streams[0] = &ES0; ES0.th_id = 0; ES0.virtual_process = &VP;
#if NES >= 2
    VP.execution_streams[1] = &ES1; ES1.th_id = 1; ES1.virtual_process = &VP;
#endif
#if NES >= 3
    VP.execution_streams[2] = &ES2; ES2.th_id = 2; ES2.virtual_process = &VP;
#endif
#ifdef INIT_WIRED
    init_wired();
#else
    for (int t = 0; t < NES; t++) {
        int rc = FLOWINIT(es(t), &BAR);
        VASSERTM(rc == PARSEC_SUCCESS && es(t)->scheduler_object != NULL, "flow_init installs a scheduler object on every stream");
    }
    VASSERTM(vp_barrier_calls == NES, "every stream went through the barrier once");
#endif
#ifdef TWO_VP
    VPB.parsec_context = &CTX; VPB.nb_cores = 1; VPB.vp_id = 1; VPB.execution_streams[0] = &ESB;
    ESB.th_id = 0; ESB.virtual_process = &VPB;
    { int rc = FLOWINIT(&ESB, &BAR); VASSERTM(rc == PARSEC_SUCCESS, "flow_init on the second VP"); }
#endif

    for (int i = 0; i < NT; i++) {
        task(i)->priority = IN_RANGE(PMIN, PMAX);
        task(i)->task_class = IN_BOOL() ? &TC0 : &TC1;
        task(i)->data[0].data_in = IN_BOOL() ? &DC0 : &DC1;
    }
    TC0.flags = IN_BOOL() ? PARSEC_HIGH_PRIORITY_TASK : 0; TC0.nb_flows = 1;
    TC1.flags = 0; TC1.nb_flows = IN_RANGE(0, 1);

#ifdef D1
    int d1 = D1, d2 = D2;              /* distances enumerated by the driver (spq: they shape the bucket list) */
#else
    int d1 = IN_RANGE(0, DMAX), d2 = IN_RANGE(0, DMAX);
#endif
#ifdef E1
    int e1 = E1, e2 = E2;              /* submitting streams enumerated by the driver (spq) */
#else
    int e1 = IN_RANGE(0, NES - 1), e2 = IN_RANGE(0, NES - 1);
#endif
    int s1 = IN_RANGE(0, N1);

    do_schedule(e1, 0, N1, d1);
    for (int i = 0; i < N1; i++) {
        if (i >= s1) continue;
#ifdef SEL
        int e = SEL;                   /* stream of the intermediate selects enumerated by the driver (spq) */
#else
        int e = IN_RANGE(0, NES - 1);
#endif
        int k = do_select(e);
#ifdef RESCHED
        if (i == 0 && k >= 0) {           /* what __parsec_schedule does with a task it cannot run now */
            parsec_list_item_singleton(&task(k)->super);
            pending[k] = 1; sched_on[k] = e; npending++;
            int rc = e == 0 ? SCHEDULE(&ES0, task(k), last_distance + 1) : e == 1 ? SCHEDULE(&ES1, task(k), last_distance + 1) : SCHEDULE(&ES2, task(k), last_distance + 1);
            VASSERTM(rc == PARSEC_SUCCESS, "re-schedule reports success");
            resched_done++;
        }
#else
        (void)k;
#endif
    }
    do_schedule(e2, N1, N2, d2);

    /* drain: every stream in turn selects until it sees NULL (at most NT tasks can come out) */
    for (int e = 0; e < NES; e++) {
        int got_null = 0;
        for (int i = 0; i < NT; i++) {
            if (got_null || npending == 0) continue;
            if (do_select(e) < 0) got_null = 1;
        }
    }
    VASSERTM(npending == 0, "every scheduled task came out of a select on some stream of the VP");
    for (int i = 0; i < NT; i++) VASSERTM(pending[i] == 0 && nreturned[i] >= 1, "each task selected (once per scheduling)");
    for (int e = 0; e < NES; e++) VASSERTM(do_select(e) < 0, "nothing left: select returns NULL on every stream");
#ifdef TWO_VP
    { int32_t d = 0; VASSERTM(SELECT(&ESB, &d) == NULL, "a stream of another VP never sees the tasks"); }
#endif

#if defined(E1) && (E1 == E2)
#define TWO_SUBMITTERS 1          /* enumerated: same submitting stream twice */
#else
#define TWO_SUBMITTERS (e1 != e2)
#endif
#if N1 == 1
    /* shape (1,N2): the second ring arrives on a queue that still holds the first task */
    if (cross_stream_seen + far_seen > 0 && s1 == 0 && e1 == e2 && d1 == 0 && d2 == 0) VWITNESS("ring scheduled onto the non-empty queue of the same stream");
#elif defined(WIT_FAR)
    if (far_seen > 0 && s1 >= 1 && TWO_SUBMITTERS) VWITNESS("a task came back with distance>0 (neighbour/system queue), two submitting streams");
#elif NES >= 2
    if (cross_stream_seen > 0 && s1 >= 1 && s1 < N1 && TWO_SUBMITTERS) VWITNESS("task returned on another stream than the one it was scheduled on; interleaved selects");
#else
    if (s1 >= 1 && s1 < N1) VWITNESS("interleaved selects");
#endif
    return 0;
}
