/* C08 (dispatch clause): __parsec_schedule_vp / __parsec_schedule_flush_private of the real
 * scheduling.c (linked whole) -- "vp dispatch and next_task retention".
 *
 * Two virtual processes (VP0: streams A0, A1; VP1: stream B0), one ring per VP with 1..2 tasks (or
 * none), submitted by a symbolic submitter: NULL (then parsec_my_execution_stream() is used), a
 * compute stream of VP0 or VP1, or the communication thread's pseudo stream (scheduler_object ==
 * NULL); symbolic distance, symbolic parsec_runtime_keep_highest_priority_task, symbolic previous
 * content of submission_es->next_task.  The installed scheduler module is a recording stub (the
 * modules themselves are the other C08 queries): it notes, for every task of the ring it is
 * given, the stream and walks the ring with a bound.
 *
 * Oracle: after __parsec_schedule_vp every submitted task is either handed to the module exactly
 * once, on stream 0 of its own VP or on the submitting stream when that stream belongs to the
 * task's VP, or it is retained in submission_es->next_task (at most one task, only if that slot
 * was free, only a task of the submitter's VP, only with distance 0 and the retention switch on);
 * task_rings[] entries are cleared; the ring given to the module is well formed (closed, the right
 * length); __parsec_schedule_flush_private then hands the retained task to the module exactly
 * once and clears the slot.
 */
#include "vp_harness.h"
#include "parsec/parsec_config.h"
#include "parsec/parsec_internal.h"
#include "parsec/execution_stream.h"
#include "parsec/mca/sched/sched.h"
#include "parsec/mca/pins/pins.h"

extern int __parsec_schedule_vp(parsec_execution_stream_t *submission_es, parsec_task_t **task_rings, int32_t distance);
extern int __parsec_schedule_flush_private(parsec_execution_stream_t *es);
extern parsec_sched_module_t *parsec_current_scheduler;

static parsec_context_t CTX;
static parsec_vp_t VPA, VPB;
static parsec_execution_stream_t A0, A1, B0, COMM;
static parsec_task_t T0, T1, T2, T3, OLD;
static int sobjA0, sobjA1, sobjB0;

/* ---- stubs ---- */
int parsec_runtime_keep_highest_priority_task;
static parsec_execution_stream_t *my_es;
parsec_execution_stream_t *parsec_my_execution_stream(void) { return my_es; }
void parsec_pins_instrument(parsec_execution_stream_t *es, PARSEC_PINS_FLAG f, parsec_task_t *t) { (void)es; (void)f; (void)t; }
uint64_t parsec_pins_enable_mask;

static int handed[4], handed_vp[4], handed_th[4], ring_bad, calls;
static int tindex(const parsec_task_t *t) { return t == &T0 ? 0 : t == &T1 ? 1 : t == &T2 ? 2 : t == &T3 ? 3 : -1; }
static int rec_schedule(parsec_execution_stream_t *es, parsec_task_t *ring, int32_t distance)
{
    (void)distance; calls++;
    parsec_task_t *t = ring; int n = 0;
    do {
        int k = tindex(t);
        if (k < 0) { ring_bad++; break; }
        handed[k]++; handed_vp[k] = es->virtual_process->vp_id; handed_th[k] = es->th_id;
        if (((parsec_task_t *)t->super.list_next)->super.list_prev != &t->super) ring_bad++;
        t = (parsec_task_t *)t->super.list_next; n++;
    } while (t != ring && n < 4);
    if (t != ring) ring_bad++;
    return 0;
}
static parsec_sched_module_t REC = { .module = { .schedule = rec_schedule } };

static parsec_task_t *mkring(parsec_task_t *a, parsec_task_t *b, int n)
{
    if (n == 0) return NULL;
    parsec_list_item_singleton(&a->super);
    if (n == 2) { parsec_list_item_singleton(&b->super); parsec_list_item_ring_push(&a->super, &b->super); }
    return a;
}

int main(void)
{
    CTX.nb_vp = 2; CTX.virtual_processes[0] = &VPA; CTX.virtual_processes[1] = &VPB;
    VPA.parsec_context = &CTX; VPA.vp_id = 0; VPA.nb_cores = 2; VPA.execution_streams[0] = &A0; VPA.execution_streams[1] = &A1;
    VPB.parsec_context = &CTX; VPB.vp_id = 1; VPB.nb_cores = 1; VPB.execution_streams[0] = &B0;
    A0.th_id = 0; A0.virtual_process = &VPA; A0.scheduler_object = &sobjA0;
    A1.th_id = 1; A1.virtual_process = &VPA; A1.scheduler_object = &sobjA1;
    B0.th_id = 0; B0.virtual_process = &VPB; B0.scheduler_object = &sobjB0;
    COMM.th_id = 0; COMM.virtual_process = &VPA; COMM.scheduler_object = NULL;      /* communication thread */
    parsec_current_scheduler = &REC;
    parsec_pins_enable_mask = 0;

    int na = IN_RANGE(0, 2), nb = IN_RANGE(0, 2);
    VASSUME(na + nb >= 1);
    parsec_task_t *rings[2];
    rings[0] = mkring(&T0, &T1, na);
    rings[1] = mkring(&T2, &T3, nb);

    int who = IN_RANGE(0, 4);          /* 0: NULL, 1: A0, 2: A1, 3: B0, 4: communication thread */
    parsec_execution_stream_t *sub = who == 0 ? NULL : who == 1 ? &A0 : who == 2 ? &A1 : who == 3 ? &B0 : &COMM;
    my_es = IN_BOOL() ? &A1 : &B0;     /* what parsec_my_execution_stream() reports when sub == NULL */
    int32_t distance = IN_RANGE(0, 2);
    parsec_runtime_keep_highest_priority_task = IN_BOOL();
    int slot_busy = IN_BOOL();
    if (sub != NULL) sub->next_task = slot_busy ? &OLD : NULL;

    int rc = __parsec_schedule_vp(sub, rings, distance);
    VASSERTM(rc == 0, "schedule_vp reports success");
    VASSERTM(rings[0] == NULL && rings[1] == NULL, "the submitted ring slots are cleared");
    VASSERTM(ring_bad == 0, "every ring given to the scheduler module is a closed, well linked ring of submitted tasks");

    parsec_task_t *kept = (sub != NULL && sub->next_task != &OLD) ? sub->next_task : NULL;
    int kept_idx = kept ? tindex(kept) : -1;
    if (sub != NULL && slot_busy) VASSERTM(sub->next_task == &OLD, "an occupied next_task slot is left alone");
    if (kept != NULL) {
        VASSERTM(kept_idx >= 0, "the retained task is one of the submitted ones");
        VASSERTM(distance == 0 && parsec_runtime_keep_highest_priority_task && sub->scheduler_object != NULL,
                 "a task is retained only for a compute stream, distance 0 and with the switch on");
        VASSERTM((kept_idx < 2 ? 0 : 1) == sub->virtual_process->vp_id, "the retained task belongs to the submitter's VP");
        VASSERTM(kept == (kept_idx < 2 ? &T0 : &T2), "the head of the ring (highest priority when sorted) is the one retained");
    }
    int submitted[4] = { na >= 1, na >= 2, nb >= 1, nb >= 2 };
    for (int k = 0; k < 4; k++) {
        int expect = submitted[k] && k != kept_idx;
        VASSERTM(handed[k] == expect, "each submitted task is handed to the module exactly once unless it was retained (never both, never twice)");
        if (handed[k]) {
            int vp = k < 2 ? 0 : 1;
            VASSERTM(handed_vp[k] == vp, "a task is scheduled on a stream of its own virtual process");
            int on_sub = (sub != NULL && sub->scheduler_object != NULL && sub->virtual_process->vp_id == vp && handed_th[k] == sub->th_id);
            VASSERTM(handed_th[k] == 0 || on_sub, "target is stream 0 of the VP or the submitting stream itself");
        }
    }

    /* flush of the private slot */
    int before = kept_idx >= 0 ? handed[kept_idx] : 0;
    /* known finding C08-flush-private-stale-ring: the retained task keeps the ring links of its former
     * neighbours; flushing it hands that stale "ring" to the module (see FINDING.md) */
    int stale_class = kept_idx >= 0 && (kept_idx < 2 ? na : nb) >= 2;
#if defined(KF_EXCLUDE_C08_FLUSH_PRIVATE_STALE_RING)
    VASSUME(!stale_class);
#elif defined(KF_ONLY_C08_FLUSH_PRIVATE_STALE_RING)
    VASSUME(stale_class);
#endif
    if (sub != NULL && !slot_busy) {
        int rc2 = __parsec_schedule_flush_private(sub);
        VASSERTM(rc2 == 0 && sub->next_task == NULL, "flush empties the slot");
        VASSERTM(ring_bad == 0, "the flush hands the module a well formed (detached) singleton");
        if (kept_idx >= 0) VASSERTM(handed[kept_idx] == before + 1 && handed_vp[kept_idx] == sub->virtual_process->vp_id, "the retained task is scheduled exactly once by the flush");
        for (int k = 0; k < 4; k++) if (k != kept_idx) VASSERTM(handed[k] == (submitted[k] ? 1 : 0), "flush does not touch the other tasks");
    }

#if defined(KF_EXCLUDE_C08_FLUSH_PRIVATE_STALE_RING)
    if (kept_idx == 2 && na == 2 && nb == 1) VWITNESS("submitter on VP1 keeps its single task, flushes it; VP0 gets a ring of two");
#else
    if (kept_idx == 2 && na == 2 && nb == 2) VWITNESS("submitter on VP1 keeps the head of its ring; both VPs get work");
#endif
#if !defined(KF_ONLY_C08_FLUSH_PRIVATE_STALE_RING)
    if (kept_idx == -1 && who == 4 && na >= 1 && nb >= 1) VWITNESS("communication thread: everything goes to stream 0 of each VP");
#endif
    return 0;
}
