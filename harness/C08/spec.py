import os
from vp.api import Q, Mutant
from vp.seqir import seqir
TITLE = "Schedulers never lose or duplicate a ready task (10 of the 11 modules; ltq not within reach)"
MODS = ["ap", "gd", "ip", "rnd", "spq", "ll", "llp", "lhq", "lfq", "ltq", "pbq"]
UNIT = {m: "parsec/mca/sched/%s/sched_%s_module.c" % (m, m) for m in MODS}
WIRED = ("lfq", "ltq", "pbq")          # two barriers inside flow_init: queues wired by the harness
HB = ("lhq", "lfq", "ltq", "pbq")      # use the bounded buffers
STRONG = ("ap", "gd", "ip", "rnd", "spq", "ll", "llp", "lfq", "ltq", "pbq")   # every stream reaches every queue
ES_H = "parsec/include/parsec/execution_stream.h"
CFG = "parsec/include/parsec/parsec_config_bottom.h"
OUTSIDE = [
    "atomic-step interleavings INSIDE schedule/select (containers' own properties: C30 lifo, C31 list/dequeue, C35 hbbuffer/heap); "
    "histories here are sequences of complete operations issued from any stream",
    "flow_init of lfq, ltq, pbq (two barriers inside: every stream reads what the others built between them): the harness wires "
    "the queues with the same helper calls (PARSEC_OBJ_NEW(parsec_dequeue_t), parsec_hbbuffer_new(size, 1, "
    "parsec_mca_sched_push_in_system_queue_wrapper, sched_obj), neighbour order (th_id+nq)%nb_cores); a mutation of these three "
    "flow_init functions is not covered",
    "ltq (tree queues over maxheap.c): NOT covered.  Measured: with the same patches as lfq/pbq, streams, distances and even "
    "priorities enumerated, 2 tasks (1+1), 1-slot buffers, CBMC's symbolic execution alone does not finish in 200-300 s (it stalls in "
    "parsec_hbbuffer_push_all / heap_remove on heap objects stored as list items); no verdict => no claim for this module; maxheap.c itself is C35",
    "more than 3 streams / 5 tasks / 2 schedule calls + 1 re-schedule per history; rings longer than 3; distances > 2",
    "lhq topologies other than: level 0 shared by all streams, deeper levels private to each stream (hwloc calls are stubs)",
    "bounded-buffer sizes other than the enumerated ones (lfq/ltq/pbq wired with 1 or 2 slots to force overflow; lhq's 96*(level+1)/cores "
    "scaled down through an overlay in the *_small queries)",
    "dispatch clause (__parsec_schedule_vp / next_task / flush_private): the installed module is a recording stub, 2 VPs, rings of <=2; "
    "the flush of a retained task whose ring had >=2 tasks was the finding C08-flush-private-stale-ring (fixed in /repo by c68133c; the query now covers that class too and guards the fix)",
    "concurrent entry points (Engine S queries *_conc_*): llp with one scheduling slot per thread plus the deterministic drain (R=1), "
    "interfering thread = LIFO pop/push or select; ll with R<=2; fixed scenarios (queue contents, calls, priorities), 2 threads; "
    "module-level interference on llp (select+schedule from a second stream, two concurrent lifo_chain_sorted) is beyond reach "
    "(solver out of 20 GB / 22 GB and 29 min)",
    "remove()/teardown of the modules",
]
ASSUMPTIONS = [
    "parsec_barrier_wait is a counting no-op: flow_init is run for stream 0, then 1, ... (legal for single-barrier modules)",
    "parsec_class_initialize / parsec_obj_destruct* replaced by equivalents over static tables (vp_objstub.h; real ones: C34)",
    "COMPARISON_VAL rewritten to char* arithmetic in an overlay copy (see C09; same address computation)",
    "struct-hack arrays given their run-time extent in overlay copies: parsec_vp_t.execution_streams[NES], parsec_hbbuffer_t.items[VP_HBSIZE]",
    "rnd: rand() returns an arbitrary non-negative int (input)",
    "caller contract: a ring handed to schedule is a well-formed ring of detached tasks; a task is re-scheduled only by the stream that got it from select",
]
BOUNDS = {"quick": {"streams": 2, "tasks": "3..4", "rings": "2: (2,1) (1,2) (3,1)", "distance": "0..2 symbolic (spq, lhq: enumerated)", "priorities": "0..2 symbolic",
                    "streams of the calls": "symbolic (spq, lhq, rnd: enumerated)", "bounded buffers": "1 slot (lfq, pbq), 2 slots (lhq scaled)"},
          "thorough": {"streams": "2..3", "tasks": "3..4", "rings": "2 (+1 re-schedule of a selected task)", "distance": "0..2 symbolic (spq, lhq: enumerated)",
                       "priorities": "0..2 symbolic", "bounded buffers": "1..2 slots", "second VP": "ap, ll"}}

CMP_PATCH = (CFG, r"#define COMPARISON_VAL\(it, off\).*", "#define COMPARISON_VAL(it, off) (*(int*)((char*)(it)+(off)))")
ES_PATCH = (ES_H, r"execution_streams\[1\]", "execution_streams[NES]")
HB_PATCH = ("parsec/hbbuffer.h", r"items\[1\]", "items[VP_HBSIZE]")
# lifo.h: the head is a union {struct{counter; item}; __int128 value} updated by a 128-bit CAS.  CBMC then stores the head as
# a 128-bit integer and every read of .data.item re-creates a pointer from an integer (ll_e2_21: out of 12 GB).  The overlay
# copy performs the SAME compare-and-swap field by field (identical for complete, non-interleaved operations -- the only
# kind of step in this property; the interleaved behaviour of the real CAS is C30's subject) and drops the alias member.
# hbbuffer.c allocates sizeof(struct)+(size-1)*sizeof(ptr): with items[VP_HBSIZE] declared in the overlay header the struct
# itself is large enough, and an allocation of exactly sizeof(T) is a typed object for CBMC instead of a byte array.
HBNEW_PATCH = ("parsec/hbbuffer.c", r"calloc\(1, sizeof\(parsec_hbbuffer_t\) \+ \(size-1\)\*sizeof\(parsec_list_item_t\*\)\)",
               "calloc(1, sizeof(parsec_hbbuffer_t))")
# parsec_atomic_cas_ptr casts its operands to int64_t and CASes integers: every pointer stored that way loses its object for
# CBMC (lfq_e2_21_q1: 5.1 M variables, no verdict in 15 min; with a pointer-typed CAS 0.33 M variables, 45 s).
ATOMIC_H = "parsec/include/parsec/sys/atomic.h"
CASPTR_PATCHES = [
    (ATOMIC_H, r"return parsec_atomic_cas_int64\(\(volatile int64_t\*\)l, \(int64_t\)o, \(int64_t\)n\);",
     "return __sync_bool_compare_and_swap((void* volatile*)l, o, n) ? 1 : 0;"),
    ("parsec/include/parsec/sys/atomic-gcc.h", r"\A", ""),     # unchanged copy: atomic.h includes it by relative name
]
LIFO_H = "parsec/class/lifo.h"
LIFO_PATCHES = [
    (LIFO_H, r"parsec_counted_pointer_t elem = \{\.data = .*\n\s*return parsec_atomic_cas_int128\(&addr->value, old\.value, elem\.value\);",
     "if( addr->data.guard.counter == old.data.guard.counter && addr->data.item == old.data.item ) {"
     " addr->data.guard.counter = old.data.guard.counter + 1; addr->data.item = item; return 1; } return 0;"),
    (LIFO_H, r"__int128_t value;", "/* value member removed in the overlay */"),
]


def _ov_inc(ctx, q, qdir, overlays):
    new = [os.path.join(o, "parsec", "include") for o in overlays]
    overlays[:0] = [d for d in new if os.path.isdir(d) and d not in overlays]


# loops that spin on a CAS / lock: one pass when operations do not interleave (the unwinding assertions check it)
UW_LOCK = ["parsec_atomic_lock.0:1"]
UW = {
    "ap": UW_LOCK, "ip": UW_LOCK, "gd": UW_LOCK, "spq": UW_LOCK,
    # mergesort of a ring of <=3: passes, merges per pass, run length, merge steps
    "rnd": UW_LOCK + ["parsec_list_nolock_chain_sort_mergesort.0:3", "parsec_list_nolock_chain_sort_mergesort.1:4",
                      "parsec_list_nolock_chain_sort_mergesort.2:3", "parsec_list_nolock_chain_sort_mergesort.3:3"],
    "ll": ["parsec_lifo_pop.0:1", "parsec_lifo_pop.1:1", "parsec_lifo_chain.0:1", "parsec_lifo_chain.1:1"],
    "llp": ["parsec_lifo_pop.0:1", "parsec_lifo_pop.1:1", "lifo_chain_sorted.0:1", "lifo_chain_sorted.1:1", "lifo_chain_sorted.2:1",
            "lifo_chain_sorted.3:1", "lifo_chain_sorted.4:1"],
    "lhq": UW_LOCK, "lfq": UW_LOCK, "ltq": UW_LOCK, "pbq": UW_LOCK,
}


def _q(m, nes=2, n1=2, n2=1, resched=False, tiers=("quick", "thorough"), qsize=None, two_vp=False, lhq_small=False, name=None,
       unwind=6, extra_defs=(), timeout=2400, slow=False, dist=None, streams=None):
    defs = ["M=" + m, 'MODFILE="%s"' % UNIT[m], "NES=%d" % nes, "N1=%d" % n1, "N2=%d" % n2]
    srcs = ["h.c"]
    patches = [CMP_PATCH, ES_PATCH] + CASPTR_PATCHES
    restrict_fp = []
    units = ["parsec/class/list.h", "parsec/class/list_item.h", "parsec/class/parsec_list.c", "parsec/mca/sched/sched_local_queues_utils.h"]
    stubs = ["parsec_barrier_wait -> counting no-op", "parsec_class_initialize -> static-table equivalent",
             "parsec_output* -> empty", "COMPARISON_VAL -> char* arithmetic (overlay)",
             "parsec_atomic_cas_ptr -> __sync_bool_compare_and_swap on the pointer type instead of on int64_t casts (overlay)"]
    unwindset = list(UW[m]) + ["sched_%s_select.0:%d" % (m, nes + 1)]
    enumerated = ["module " + m, "streams = %d" % nes, "ring sizes %d,%d" % (n1, n2)]
    if m in STRONG:
        defs.append("STRONG")
    if resched:
        defs.append("RESCHED")
        enumerated.append("re-schedule of the first selected task (distance+1, same stream)")
    if two_vp:
        defs.append("TWO_VP")
    if dist is not None:
        defs += ["D1=%d" % dist[0], "D2=%d" % dist[1]]
        enumerated.append("distances of the two schedule calls = %d,%d" % dist)
    if streams is not None:
        defs += ["E1=%d" % streams[0], "E2=%d" % streams[1], "SEL=%d" % streams[2], "ES_BY_POINTER"]
        enumerated.append("submitting streams %d,%d; intermediate selects on stream %d" % streams)
    if m == "rnd":
        defs.append("NEED_RAND")
        stubs.append("rand -> nondeterministic non-negative int")
    if m in ("gd", "lhq", "lfq", "ltq", "pbq"):
        defs.append("NEED_DEQUEUE")
        units += ["parsec/class/dequeue.h", "parsec/class/parsec_dequeue.c"]
    if m in ("ll", "llp"):
        defs.append("NEED_LIFO")
        units += ["parsec/class/lifo.h", "parsec/class/parsec_lifo.c"]
        patches += LIFO_PATCHES
        stubs.append("lifo.h 128-bit CAS on the head -> field-wise compare-and-set, union alias member dropped (overlay)")
    if m in HB:
        defs += ["NEED_HB", "WIT_FAR"]
        units += ["parsec/hbbuffer.c", "parsec/hbbuffer.h"]
        patches += [HB_PATCH, HBNEW_PATCH]
        stubs.append("parsec_hbbuffer_new allocates sizeof(parsec_hbbuffer_t) with items[VP_HBSIZE] (overlay) instead of struct + tail")
        site = "parsec_hbbuffer_push_all_by_priority" if m == "pbq" else "parsec_hbbuffer_push_all"
        restrict_fp.append((site + ".function_pointer_call.1",
                            ["parsec_mca_sched_push_in_system_queue_wrapper"] + (["parsec_mca_sched_push_in_buffer_wrapper"] if m == "lhq" else [])))
        unwindset += ["parsec_hbbuffer_pop_best.1:1"]
    if m == "ltq":
        defs.append("NEED_HEAP")
        units += ["parsec/maxheap.c", "parsec/maxheap.h"]
    if m in WIRED:
        qs = qsize or 1
        defs += ["INIT_WIRED", "QSIZE=%d" % qs, "VP_HBSIZE=%d" % qs]
        enumerated.append("bounded buffer size %d" % qs)
        stubs.append("flow_%s_init NOT executed: queues wired by the harness with the same helper calls" % m)
    if m == "lhq":
        defs += ["NEED_HWLOC", "HW_LEVELS=2"]
        stubs.append("parsec_hwloc_nb_levels/master_id/nb_cores -> fixed 2-level topology (level 0 shared, level 1 private)")
        # malloc(nb_hierarch_queues * sizeof(ptr)) with the count read back from memory leaves every queue pointer (and so
        # the parent-push callback) unresolved for CBMC (1 task, distance 1: no verdict in 300 s); constant extent: 8 s.
        patches.append((UNIT[m], r"\(parsec_hbbuffer_t \*\*\)malloc\(sched_obj->nb_hierarch_queues \* sizeof\(parsec_hbbuffer_t\*\) \)",
                        "(parsec_hbbuffer_t **)malloc(sizeof(parsec_hbbuffer_t*[HW_LEVELS]))"))
        stubs.append("lhq: hierarch_queues array allocated with the constant extent HW_LEVELS (= nb_hierarch_queues of the topology stub)")
        unwindset += ["parsec_hbbuffer_push_all:2", "parsec_mca_sched_push_in_buffer_wrapper:1"]
        if lhq_small:
            # queue_size = 96*(level+1)/nbcores, at least nbcores: scaled to 1*(level+1)/nbcores so that rings overflow to the parent
            patches.append((UNIT[m], r"int queue_size = 96 \* \(level\+1\) / nbcores;", "int queue_size = 1 * (level+1) / nbcores;"))
            defs.append("VP_HBSIZE=%d" % max(2, nes))
            stubs.append("lhq queue size constant 96 scaled to 1 (overlay) to force overflow to the parent buffers")
        else:
            defs.append("VP_HBSIZE=192")
            unwindset += ["parsec_hbbuffer_pop_best.0:194", "parsec_hbbuffer_push_all.1:194"]
    info = {"symbolic": ["priority, task class (flags / nb_flows) and first input of every task",
                         "number of selects between the two schedule calls (0..N1)"] +
                        ([] if streams is not None else ["submitting stream of both schedule calls", "stream of every intermediate select"]) +
                        ([] if dist is not None else ["distance of both schedule calls (0..2)"]),
            "enumerated": enumerated + ["drain order: stream 0 until NULL, then stream 1, ..."],
            "stubs": stubs, "bounds": {"streams": nes, "tasks": n1 + n2},
            "functions": ["sched_%s_schedule" % m, "sched_%s_select" % m] + ([] if m in WIRED else ["flow_%s_init" % m])}
    nm = name or "%s_e%d_%d%d%s%s%s" % (m, nes, n1, n2, "_rs" if resched else "", "_2vp" if two_vp else "",
                                         ("_q%d" % qsize) if qsize else ("_small" if lhq_small else ""))
    if dist is not None:
        nm += "_d%d%d" % dist
    if streams is not None:
        nm += "_s%d%d%d" % streams
    return Q(nm, srcs, defs=defs + list(extra_defs), unwind=unwind, unwindset=unwindset, object_bits=12, units=[UNIT[m]] + units, info=info,
             timeout=timeout, patches=patches, gen=_ov_inc, tiers=tiers, slow=slow or (resched and m in ("rnd", "pbq")), restrict_fp=restrict_fp)


def queries(ctx):
    qs = []
    both, th = ("quick", "thorough"), ("thorough",)
    # --- shared-queue modules and per-stream LIFOs: real flow_init, symbolic streams and distances
    for m in ["ap", "gd", "ip", "ll", "llp"]:
        qs.append(_q(m))
        qs.append(_q(m, n1=1, n2=2, tiers=both if m == "llp" else th))
        qs.append(_q(m, resched=True, tiers=th))
        qs.append(_q(m, n1=3, n2=1, tiers=th, unwind=7))
        qs.append(_q(m, nes=3, tiers=th, unwind=7))
    qs.append(_q("ap", two_vp=True, tiers=th))
    qs.append(_q("ll", two_vp=True, tiers=th))
    # rnd: the merge sort of the ring dominates; streams enumerated in the quick tier
    qs.append(_q("rnd", streams=(0, 1, 1)))
    qs.append(_q("rnd", tiers=th))
    qs.append(_q("rnd", resched=True, streams=(1, 0, 0), tiers=th))
    # spq: distances and streams enumerated (symbolic ones: no verdict in 20 min)
    for d in [(0, 1), (1, 1), (1, 0)]:
        for st in [(0, 1, 1), (1, 0, 0), (0, 0, 1), (1, 1, 0)]:
            quick = (d, st) in [((0, 1), (0, 1, 1)), ((1, 1), (1, 0, 0)), ((1, 0), (0, 0, 1))]
            qs.append(_q("spq", dist=d, streams=st, tiers=both if quick else th))
            # (no re-schedule variant for spq here: the step makes the bucket list symbolic -- no verdict in 2400 s; the re-schedule
            #  of a selected task on spq is checked, with exactly-once accounting, by C09's spq_*_rs* queries)
    # lhq: real flow_init over a 2-level topology; queue sizes scaled down (overflow), distances and streams enumerated
    for (n1, n2, d, st, quick) in [(2, 1, (0, 1), (0, 1, 1), True), (2, 1, (1, 0), (0, 1, 1), True), (2, 1, (2, 1), (1, 0, 0), True),
                                   (3, 1, (0, 0), (0, 1, 1), True), (2, 1, (0, 2), (0, 1, 1), False), (2, 1, (2, 0), (0, 1, 1), False),
                                   (2, 1, (2, 2), (1, 0, 0), False), (3, 1, (1, 0), (0, 1, 1), False), (3, 1, (0, 1), (1, 0, 0), False)]:
        qs.append(_q("lhq", n1=n1, n2=n2, lhq_small=True, dist=d, streams=st, tiers=both if quick else th, unwind=7))
    # lfq / pbq: queues wired by the harness (flow_init not covered), 1 or 2 slots per bounded buffer
    for m in ("lfq", "pbq"):
        qs.append(_q(m, qsize=1, tiers=both if m == "lfq" else th))
        qs.append(_q(m, qsize=1, n1=1, n2=2))            # ring of 2 onto a full 1-slot buffer
        qs.append(_q(m, qsize=2, tiers=th))
        qs.append(_q(m, qsize=1, resched=True, tiers=th))
        qs.append(_q(m, qsize=2, n1=3, n2=1, tiers=th, unwind=7))
    # --- dispatch clause: __parsec_schedule_vp / next_task retention / __parsec_schedule_flush_private (real scheduling.c)
    qs.append(Q("schedule_vp", ["hvp.c", "repo:parsec/scheduling.c"], defs=["VP_NVP=2", "NES=2"], unwind=6, object_bits=12,
                incs=[os.path.join(ctx.repo, "parsec")],      # scheduling.c includes its siblings by bare name (mutant overlay copies)
                patches=[ES_PATCH, (ES_H, r"virtual_processes\[1\]", "virtual_processes[VP_NVP]")], gen=_ov_inc,
                restrict_fp=[("__parsec_schedule.function_pointer_call.1", ["rec_schedule"])], kf="C08-flush-private-stale-ring",
                info={"symbolic": ["ring sizes of the two VPs (0..2, not both empty)", "submitter: NULL / stream of VP0 / stream of VP1 / communication thread",
                                   "distance 0..2", "parsec_runtime_keep_highest_priority_task", "whether the submitter's next_task slot is occupied",
                                   "stream reported by parsec_my_execution_stream()"],
                      "stubs": ["installed scheduler module = recording stub (walks the ring it is given)", "parsec_my_execution_stream -> harness variable",
                                "parsec_pins_instrument -> empty (PINS mask 0)"],
                      "bounds": {"VPs": 2, "streams": "2+1", "tasks": "<=4"},
                      "functions": ["__parsec_schedule_vp", "__parsec_schedule", "__parsec_schedule_flush_private"]},
                timeout=1200, tiers=both))
    # --- Engine S: concurrent entry points of the LIFO based modules (llp: lifo_chain_sorted / lifo_merge_ring vs pop/steal and a
    #     second writer; ll: lifo chain vs pop/steal).  General C08 oracle in check(): one place per task, NULL terminated, drain.
    CONC = {1: "fastpath_cas_fails_eq", 2: "fastpath_cas_fails_low", 3: "merge2_vs_steal2", 4: "single_writer_vs_steal", 5: "two_writers", 6: "distance_ring_vs_pops",
            7: "fastpath_cas_fails_eq_lifo_ops", 8: "fastpath_cas_fails_low_lifo_ops", 9: "fastpath_cas_fails_push"}
    NTASK = {1: 3, 2: 3, 3: 5, 4: 2, 5: 3, 6: 5, 7: 3, 8: 3, 9: 3}
    # configuration fields no thread writes (no yield before their loads; a store to one is an INTERNAL failure of the query)
    RO = ["parsec_execution_stream_s.0", "parsec_execution_stream_s.5", "parsec_execution_stream_s.8", "parsec_vp_s.2", "parsec_vp_s.6", "parsec_lifo_s.1"]
    def conc(mod, sc, R, tiers):
        qs.append(Q("%s_conc_%s_r%d" % (mod, CONC[sc], R), [], defs=["SCEN=%d" % sc, "MOD_" + mod, "NES=2", "NT=%d" % NTASK[sc]], engine="S",
                    units=[UNIT[mod], "parsec/class/lifo.h", "parsec/class/list_item.h"], patches=[ES_PATCH],
                    gen=lambda ctx, q, qdir, overlays: (_ov_inc(ctx, q, qdir, overlays), seqir(["hs_conc.c"], threads=["thread0", "thread1"], rounds=R, drain=True, ro_fields=RO, thread_unwind=2)(ctx, q, qdir, overlays))[-1],
                    unwind=max(NTASK[sc] + 2, 6), timeout=3000, slow=True, tiers=tiers,
                    info={"symbolic": ["schedule: every SC interleaving with <= %d scheduling slots per thread, completed by a deterministic drain" % R],
                          "enumerated": ["scenario %d (%s): initial queue contents, the two threads' calls and the priorities are fixed" % (sc, CONC[sc])],
                          "stubs": ["scheduler objects initialised field by field as the constructors do (no class system)"],
                          "bounds": {"rounds": R, "threads": 2},
                          "functions": ["sched_%s_schedule" % mod, "sched_%s_select" % mod] + (["lifo_chain_sorted", "lifo_merge_ring"] if mod == "llp" else ["parsec_lifo_chain"]) + ["parsec_lifo_pop"]}))
    conc("llp", 9, 1, both)          # smallest interference (a push) that makes the fast-path CAS fail; quick tier
    conc("ll", 5, 1, both)
    # llp: R = 1 slot per thread + deterministic drain ("T0 runs a prefix, T1 runs a prefix, then both complete").  Measured limits:
    # R = 2: CBMC's symbolic execution of lifo_chain_sorted (42 yield points, 3 nested retry loops) not finished after 17 CPU-minutes;
    # interfering thread = module-level select(es1)+schedule(es0) (scenarios 1, 2) at R = 1: solver out of memory at 20 GB;
    # two module-level writers (scenario 5) at R = 1: holds, but 1750 s / 22 GB -> not in the tiers.
    for sc in (7, 8, 3, 4):
        conc("llp", sc, 1, th)
    conc("ll", 6, 1, th)
    conc("ll", 5, 2, th)
    conc("ll", 6, 2, th)
    return qs


def mutants(ctx):
    LIST, LIFO, HBC = "parsec/class/list.h", "parsec/class/lifo.h", "parsec/hbbuffer.c"
    return [
        # bounded buffer full: the rest of the ring is no longer re-attached before going to the parent store
        Mutant("hbbuffer_push_all_drops_rest", HBC, "    if( NULL != next ) {\n        parsec_list_item_ring_push(next, elt);\n    }\n", "",
               queries=["lfq_e2_12_q1"]),
        # priority push: the unexamined rest of the list is not merged into the ejected ring when the buffer is full
        Mutant("hbbuffer_by_priority_drops_rest", HBC, "            if( NULL != list )\n                parsec_list_item_ring_merge( ejected, list );\n", "",
               queries=["pbq_e2_12_q1"]),
        # lock-free LIFO: chaining a ring forgets to link its tail to the old head
        Mutant("lifo_chain_loses_old_head", LIFO, "        tail->list_next = next;\n        parsec_atomic_wmb ();\n\n        /* to protect against ABA issues it is sufficient to only update the counter in pop */\n        if (parsec_atomic_cas_ptr(&lifo->lifo_head.data.item, next, ring)) {",
               "        parsec_atomic_wmb ();\n\n        /* to protect against ABA issues it is sufficient to only update the counter in pop */\n        if (parsec_atomic_cas_ptr(&lifo->lifo_head.data.item, next, ring)) {",
               queries=["ll_e2_21"]),
        # ll: the steal loop starts one stream too far (with two streams it never visits the neighbour)
        Mutant("ll_select_skips_neighbour", UNIT["ll"], "for(i = (es->th_id + 1) % es->virtual_process->nb_cores;\n            i != es->th_id;\n            i = (i+1) % es->virtual_process->nb_cores) {\n            d++;",
               "for(i = (es->th_id + 2) % es->virtual_process->nb_cores;\n            i != es->th_id;\n            i = (i+1) % es->virtual_process->nb_cores) {\n            d++;",
               queries=["ll_e2_21"]),
        # llp: single-writer shortcut re-installs the new ring instead of the merged list
        Mutant("llp_single_writer_installs_ring", UNIT["llp"], "        lifo->lifo_head.data.guard.counter++;\n        parsec_atomic_wmb();\n        lifo->lifo_head.data.item = list;",
               "        lifo->lifo_head.data.guard.counter++;\n        parsec_atomic_wmb();\n        lifo->lifo_head.data.item = ring;", queries=["llp_e2_12"]),
        # llp: merged ring not linked to the remainder of the old list
        Mutant("llp_merge_drops_tail", UNIT["llp"], "            ring->list_prev->list_next = next;\n            ring->list_prev = NULL;\n            break;",
               "            ring->list_prev->list_next = NULL;\n            ring->list_prev = NULL;\n            break;", queries=["llp_e2_21"]),
        # list: insertion before a position forgets the forward link of the predecessor
        Mutant("list_add_before_missing_forward_link", LIST, "    newel->list_next = position;\n    position->list_prev->list_next = newel;\n    position->list_prev = newel;",
               "    newel->list_next = position;\n    position->list_prev = newel;", queries=["ap_e2_21", "ip_e2_21", "spq_e2_21_d11_s100"]),
        # list/dequeue: chaining a ring at the back does not advance the tail to the end of the ring
        Mutant("list_chain_back_tail_not_advanced", LIST, "    _TAIL(list)->list_next = items;\n    _TAIL(list) = tail;\n    parsec_list_unlock(list);",
               "    _TAIL(list)->list_next = items;\n    _TAIL(list) = items;\n    parsec_list_unlock(list);", queries=["gd_e2_21", "lfq_e2_21_q1"]),
        # spq: select keeps scanning the buckets after it found a task (later pops overwrite it)
        Mutant("spq_select_no_break", UNIT["spq"], "#endif\n            break;\n        }\n    }\n    parsec_list_unlock(&task_list->super);\n    return task;",
               "#endif\n        }\n    }\n    parsec_list_unlock(&task_list->super);\n    return task;", queries=["spq_e2_21_d01_s011", "spq_e2_21_d10_s001"]),
        # gd: high-priority ring chained in front with the back primitive's bookkeeping swapped is covered by list mutants; here the
        # select pops from an empty-check that is inverted
        Mutant("lhq_select_skips_top_level", UNIT["lhq"], "for(i = 0; i <  PARSEC_MCA_SCHED_LOCAL_QUEUES_OBJECT(es)->nb_hierarch_queues; i++ ) {",
               "for(i = 0; i <  PARSEC_MCA_SCHED_LOCAL_QUEUES_OBJECT(es)->nb_hierarch_queues - 1; i++ ) {",
               queries=["lhq_e2_21_small_d10_s011", "lhq_e2_21_small_d21_s100"]),
        # rnd: the re-sorted ring is dropped, only its head is chained
        # dispatch: the ring slot of a VP is not cleared after it was scheduled
        Mutant("schedule_vp_ring_slot_not_cleared", "parsec/scheduling.c",
               "        ret = __parsec_schedule(target_es, ring, distance);\n        if( 0 != ret )\n            return ret;\n\n        task_rings[vp] = NULL;  /* remove the tasks already scheduled */\n    }\n    return ret;\n}\n\nint __parsec_schedule_flush_private",
               "        ret = __parsec_schedule(target_es, ring, distance);\n        if( 0 != ret )\n            return ret;\n    }\n    return ret;\n}\n\nint __parsec_schedule_flush_private",
               queries=["schedule_vp"]),
        # dispatch: an occupied next_task slot is overwritten (the task that was there is lost)
        Mutant("schedule_vp_overwrites_next_task", "parsec/scheduling.c", "            if( NULL == submission_es->next_task ) {\n                submission_es->next_task = ring;",
               "            if( 1 ) {\n                submission_es->next_task = ring;", queries=["schedule_vp"]),
        # dispatch: the local-VP test is inverted: the submitter keeps / receives the tasks of the OTHER virtual process
        Mutant("schedule_vp_wrong_vp_kept", "parsec/scheduling.c", "        if( vp == submission_es->virtual_process->vp_id ) {\n            if( NULL == submission_es->next_task ) {",
               "        if( vp != submission_es->virtual_process->vp_id ) {\n            if( NULL == submission_es->next_task ) {", queries=["schedule_vp"]),
        # llp, CAS-128 lifo_chain_sorted: after a FAILED fast-path CAS the ring is not closed again; a one-task ring then drags the
        # old head along as "rest of the ring" in lifo_merge_ring / ring_chop (needs a concurrent pop+push: Engine S query)
        Mutant("llp_fastpath_ring_not_restored", UNIT["llp"],
               "            /* restore the ring */\n            ring->list_prev->list_next = ring;\n        } else if (parsec_update_counted_pointer(&lifo->lifo_head, old_head, NULL)) {",
               "            /* restore the ring */\n        } else if (parsec_update_counted_pointer(&lifo->lifo_head, old_head, NULL)) {",
               queries=["llp_conc_fastpath_cas_fails_push_r1"]),
        Mutant("rnd_chains_singleton", UNIT["rnd"], "new_context = (parsec_task_t*)parsec_list_nolock_unchain(&tmp);",
               "new_context = (parsec_task_t*)parsec_list_nolock_unchain(&tmp); parsec_list_item_singleton(&new_context->super);", queries=["rnd_e2_21_s011"]),
    ]

CLAIMED = True
MANIFEST = {
 "engine": "cbmc-src",
 "text": "Bounded model checking of the real schedule/select (and, except for lfq/pbq, flow_init) functions of ten scheduler modules "
         "(ap, gd, ip, rnd, spq, ll, llp, lhq, lfq, pbq) over the real list/dequeue/lifo/hbbuffer code: 3-4 tasks are handed to the module "
         "as two rings from symbolic streams with symbolic distances and priorities, selections from symbolic streams are interleaved, "
         "then every stream drains; a bookkeeping oracle in the harness requires that a select only ever returns a task that is pending "
         "(never twice, never an unknown pointer), that all tasks have come out when every stream reports empty, and, for the modules "
         "whose streams can reach every queue, that NULL is only returned when nothing is pending.  Bounded buffers are 1-2 slots so "
         "that the overflow-to-parent paths run.  A separate query runs the real __parsec_schedule_vp / "
         "__parsec_schedule_flush_private of scheduling.c over two VPs with a recording module: every submitted task is handed to the "
         "module exactly once on a stream of its own VP or retained (one, head of the ring, own VP, free slot only) and flushed once.  "
         "Engine S queries (IR-level sequentialization, symbolic yields inside lifo_chain_sorted / lifo_merge_ring / pop) run llp's and "
         "ll's schedule against a concurrent pop/push/select/schedule on the same queue with the same one-place-per-task oracle.",
 "note": "operations are complete (no interleaving inside schedule/select: containers' own properties); ltq not covered (no verdict "
         "within budget); lfq/pbq queues wired by the harness (their two-barrier flow_init is not executed); spq/lhq distances and "
         "streams enumerated; lhq on one 2-level topology with scaled queue sizes; overlays: typed allocations for struct-hack "
         "arrays, pointer-typed CAS, field-wise 128-bit CAS of the LIFO head, char* priority access; "
         "finding C08-flush-private-stale-ring (flush of a retained task from a ring of >=2) was found by the schedule_vp query and is fixed (c68133c).",
 "technique": "CBMC bounded symbolic execution of the real C units + SAT (cadical); operation histories with symbolic streams/distances/priorities; "
              "Engine S (clang IR -> ll2c sequentialization with symbolic schedules) for the concurrent llp/ll scenarios",
}
