import os
import subprocess
from vp.api import Q, Mutant
from vp import ptg

TITLE = "parsec-ptgpp rejects programs exceeding the runtime limits on flows, dependencies and locals"
JC = "parsec/interfaces/ptg/ptg-compiler/jdf.c"
OUTSIDE = ["'accepted => emitted C compiles' for arbitrary programs (a string-building code generator plus a C compiler cannot be "
           "executed symbolically); only the limit clause is decided, plus concrete replays through the real ptgpp + gcc",
           "determinism of the output", 
           "more than 23 flows; dependencies (0..12, symbolic direction) on the first two flows only, the other flows carry none"]
ASSUMPTIONS = ["the AST shapes are those the grammar can produce: flow type in {CTL, READ, WRITE, RW}; every dependency is either input or output",
               "limits as configured in this build: MAX_PARAM_COUNT=20, MAX_DEP_IN_COUNT=MAX_DEP_OUT_COUNT=10"]
BOUNDS = {"quick": {"named locals": "0..23 symbolic", "local-definition slots": "0..4 symbolic", "flows": "0..23 symbolic", "deps per flow": "0..12 symbolic on 2 flows", "flow/dep kinds": "symbolic"},
          "thorough": {"flows": "0..23", "deps per flow": "0..12 on 2 flows"}}
KF = "C24-total-flows"


def jdf_text(nr, nw, nc, nx):
    flows = []
    for i in range(nr):
        flows.append("  READ  R%d <- A(k, 0)" % i)
    for i in range(nw):
        flows.append("  WRITE W%d <- NEW\n           -> A(k, 0)" % i)
    for i in range(nx):
        flows.append("  RW    X%d <- A(k, 0)\n           -> A(k, 0)" % i)
    for i in range(nc):
        flows.append("  CTL   C%d <- (k > 0) ? C%d TASK(k-1)\n           -> (k < NT) ? C%d TASK(k+1)" % (i, i, i))
    return ("extern \"C\" %{\n#include \"parsec.h\"\n%}\n\nA   [type = \"parsec_data_collection_t*\"]\nNT  [type = int]\n\n"
            "TASK(k)\n\n  k = 0 .. NT\n: A(k,0)\n\n" + "\n".join(flows) + "\nBODY\n{\n}\nEND\n")


def jdf_text_locals(named, nld):
    """named locals in total: k, c (defined with `nld` local indices, a plain expression if nld == 0) and named-2 derived ones"""
    idx = ", ".join("i%d = 0 .. 1" % i for i in range(nld))
    cdef = ("[ %s ] %s + k" % (idx, " + ".join("i%d" % i for i in range(nld)))) if nld else "k + 1"
    loc = "\n".join("  d%d = k + %d" % (i, i) for i in range(named - 2))
    return ("extern \"C\" %{\n#include \"parsec.h\"\n%}\n\nA   [type = \"parsec_data_collection_t*\"]\nNT  [type = int]\n\n"
            "TASK(k, c)\n\n  k = 0 .. NT\n  c = " + cdef + "\n" + loc + "\n: A(k,0)\n\n  READ  R0 <- A(k, 0)\nBODY\n{\n}\nEND\n")


def real_run(ctx, q, qdir, overlays, text, over, kfclass, what):
    jp = os.path.join(qdir, "c24prog.jdf")
    with open(jp, "w") as f:
        f.write(text)
    r = ptg.run(ctx, jp, qdir, name="c24prog", overlays=overlays, check=False, opts=["--Werror"])
    cc_rc = -1
    cc_err = ""
    if r["rc"] == 0:
        cmd = ["gcc", "-fsyntax-only", "-w", "-D_GNU_SOURCE", "-std=gnu11", "-I."] + ctx.inc_flags(overlays) + ["c24prog.c"]
        p = subprocess.run(cmd, cwd=qdir, stdout=subprocess.PIPE, stderr=subprocess.PIPE, text=True)
        cc_rc = p.returncode
        cc_err = "\n".join(l for l in p.stderr.splitlines() if "error" in l)[:400]
    with open(os.path.join(qdir, "c24_result.h"), "w") as f:
        f.write("#define PTGPP_RC %d\n#define CC_RC %d\n#define OVER_LIMIT %d\n#define IN_KF_CLASS %d\n" % (r["rc"], cc_rc, int(over), int(kfclass)))
    q.info["real run"] = dict(what, ptgpp_rc=r["rc"], cc_rc=cc_rc, ptgpp_stderr=r["stderr"][-300:], cc_errors=cc_err)


def real_gen_locals(named, nld):
    def g(ctx, q, qdir, overlays):
        real_run(ctx, q, qdir, overlays, jdf_text_locals(named, nld), named + nld > 20, False,
                 {"named locals": named, "local indices": nld})
    return g


def real_gen(nr, nw, nc, nx):
    def g(ctx, q, qdir, overlays):
        total = nr + nw + nc + nx
        over = total > 20 or nr + nx > 20 or nw + nx > 20
        real_run(ctx, q, qdir, overlays, jdf_text(nr, nw, nc, nx), over, total > 20 and nr + nx <= 20 and nw + nx <= 20,
                 {"flows": {"READ": nr, "WRITE": nw, "CTL": nc, "RW": nx}})
    return g


def queries(ctx):
    qs = [Q("limits_symbolic_ast", ["h.c"], defs=["NF=23", "NDF=2", "ND=12"], unwind=25, units=[JC, "parsec/interfaces/ptg/ptg-compiler/jdf.h"],
            object_bits=10, timeout=1800, kf=KF,
            incs=[os.path.join(ctx.repo, "parsec/interfaces/ptg/ptg-compiler")],
            info={"symbolic": ["number of flows 0..23", "type of every flow", "number 0..12 and direction of the dependencies of the first two flows"],
                  "stubs": ["vsnprintf/fprintf inside jdf_warn/jdf_fatal are empty for the solver (diagnostic text is not part of the verdict)"], "functions": ["jdf_sanity_check_flows_and_deps_number"],
                  "bounds": {"flows": 23, "deps/flow": 12, "flows with deps": 2}})]
    qs.append(Q("limits_symbolic_locals", ["locals.c"], defs=["NL=23", "NLD=4"], unwind=26, object_bits=10, timeout=1800,
                units=["parsec/interfaces/ptg/ptg-compiler/jdf2c.c", "parsec/interfaces/ptg/ptg-compiler/jdf.h"],
                incs=[os.path.join(ctx.repo, "parsec/interfaces/ptg/ptg-compiler")],
                info={"symbolic": ["number of named locals 0..23", "nb_max_local_def (local-definition slots) 0..4"],
                      "stubs": ["exit -> harness (asserts the rejection is justified, ends the path)", "jdf_fatal (empty)",
                                "string arena / list dumper / asprintf empty for the solver (real in the native replay)"],
                      "functions": ["jdf_generate_task_typedef"], "bounds": {"named locals": 23, "slots": 4}}))
    # concrete replays of the locals clause: (named locals, local indices)
    for nn, nld in ((18, 2), (19, 2), (20, 0), (21, 0)):
        qs.append(Q("real_ptgpp_locals_%dnamed_%dldef" % (nn, nld), ["real.c"], gen=real_gen_locals(nn, nld), cflags=ptg.CFLAGS,
                    engine="G", unwind=2, units=ptg.UNITS, timeout=600,
                    info={"enumerated": {"named locals": nn, "local indices": nld}, "symbolic": [],
                          "functions": ["parsec-ptgpp --Werror (whole program, rebuilt from the current sources)", "gcc -fsyntax-only on the emitted C"]}))
    # concrete replays through the real tool chain: (READ, WRITE, CTL, RW)
    for nr, nw, nc, nx in ((11, 10, 0, 0), (10, 10, 0, 0), (21, 0, 0, 0), (0, 0, 1, 20), (8, 8, 5, 0)):
        total = nr + nw + nc + nx
        bad = total > 20 and nr + nx <= 20 and nw + nx <= 20
        qs.append(Q("real_ptgpp_%dR_%dW_%dC_%dRW" % (nr, nw, nc, nx), ["real.c"], gen=real_gen(nr, nw, nc, nx), cflags=ptg.CFLAGS,
                    engine="G", unwind=2, units=ptg.UNITS, kf=(KF if bad else None), timeout=600,
                    info={"enumerated": {"READ": nr, "WRITE": nw, "CTL": nc, "RW": nx}, "symbolic": [],
                          "functions": ["parsec-ptgpp --Werror (whole program, rebuilt from the current sources; --Werror is the documented way to "
                                        "turn its diagnostics into a non-zero exit status)", "gcc -fsyntax-only on the emitted C"]}))
    return qs


def mutants(ctx):
    return [
        # (since the total-flows check exists, weakening only the READ or only the WRITE count is an equivalent change for the
        #  accept/reject verdict: more than 20 READ flows are also more than 20 flows)
        Mutant("total_flows_limit_off_by_one", JC, "if( MAX_PARAM_COUNT < flows_total ) {", "if( MAX_PARAM_COUNT + 1 < flows_total ) {", queries=["limits_symbolic_ast"]),
        Mutant("ctl_flows_not_counted_in_total", JC, "            flows_total++;", "            flows_total += !(JDF_FLOW_TYPE_CTL & flow->flow_flags);", queries=["limits_symbolic_ast", "real_ptgpp_8R_8W_5C_0RW"]),
        Mutant("dep_out_limit_uses_in_count", JC, "if( MAX_DEP_OUT_COUNT < deps_out ) {", "if( MAX_DEP_OUT_COUNT < deps_in ) {", queries=["limits_symbolic_ast"]),
        # locals clause: the ldef[] slots of local indices are not counted by the limit check
        Mutant("locals_check_ignores_local_definition_slots", "parsec/interfaces/ptg/ptg-compiler/jdf2c.c",
               "    if( nb_locals > MAX_LOCAL_COUNT ) {", "    if( nb_locals - f->nb_max_local_def > MAX_LOCAL_COUNT ) {",
               queries=["limits_symbolic_locals"]),
        Mutant("locals_check_ignores_slots_real_tool", "parsec/interfaces/ptg/ptg-compiler/jdf2c.c",
               "    if( nb_locals > MAX_LOCAL_COUNT ) {", "    if( nb_locals - f->nb_max_local_def > MAX_LOCAL_COUNT ) {",
               queries=["real_ptgpp_locals_19named_2ldef"]),
        Mutant("locals_limit_off_by_one", "parsec/interfaces/ptg/ptg-compiler/jdf2c.c",
               "    if( nb_locals > MAX_LOCAL_COUNT ) {", "    if( nb_locals >= MAX_LOCAL_COUNT ) {",
               queries=["limits_symbolic_locals", "real_ptgpp_locals_18named_2ldef"]),
        Mutant("deps_counted_across_flows", JC, "            deps_in = deps_out = 0;\n            for(dep = flow->deps;", "            for(dep = flow->deps;", queries=["limits_symbolic_ast"]),
        Mutant("total_flows_not_checked", JC, "if( MAX_PARAM_COUNT < flows_total ) {", "if( 0 ) {", queries=["limits_symbolic_ast", "real_ptgpp_11R_10W_0C_0RW"]),
    ]


CLAIMED = True
MANIFEST = {
 "engine": "cbmc-src",
 "text": "The one decidable clause of the property: the real jdf_sanity_check_flows_and_deps_number of jdf.c is executed symbolically "
         "by CBMC on an abstract syntax tree built directly with a symbolic number (0..23) of flows of symbolic type and symbolic "
         "dependency lists; a SAT query shows that it reports an error exactly when the READ, WRITE or total flow counts or the "
         "per-flow input/output dependency counts exceed the configured limits; a second query runs the real jdf_generate_task_typedef of "
         "jdf2c.c on a symbolic number of named locals and local-definition slots and shows that the generator gives up exactly when "
         "their sum exceeds MAX_LOCAL_COUNT. The solver's answer is tied to the real tool by "
         "queries that run the parsec-ptgpp rebuilt from the current sources (--Werror) and gcc on concrete programs at and over the "
         "limits. Known finding C24-total-flows (total flow count unchecked) is reported and excluded.",
 "note": "'accepted implies the emitted C compiles' for arbitrary programs and output determinism are outside (not encodable); "
         "AST shapes are those the grammar produces; <= 23 flows, dependency lists on two flows; limits of this build (20/10/10).",
 "technique": "CBMC bounded symbolic execution of the real jdf.c unit on a symbolic AST + SAT (cadical); concrete replays through the rebuilt ptgpp + gcc",
}
