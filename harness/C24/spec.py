import os
import subprocess
from vp.api import Q, Mutant
from vp import ptg

TITLE = "parsec-ptgpp rejects programs exceeding the runtime limits on flows and dependencies"
JC = "parsec/interfaces/ptg/ptg-compiler/jdf.c"
OUTSIDE = ["'accepted => emitted C compiles' for arbitrary programs (a string-building code generator plus a C compiler cannot be "
           "executed symbolically); only the limit clause is decided, plus concrete replays through the real ptgpp + gcc",
           "determinism of the output", "the MAX_LOCAL_COUNT check of jdf2c.c (jdf_generate_task_typedef; exits the process)",
           "more than 23 flows; dependencies (0..12, symbolic direction) on the first two flows only, the other flows carry none"]
ASSUMPTIONS = ["the AST shapes are those the grammar can produce: flow type in {CTL, READ, WRITE, RW}; every dependency is either input or output",
               "limits as configured in this build: MAX_PARAM_COUNT=20, MAX_DEP_IN_COUNT=MAX_DEP_OUT_COUNT=10"]
BOUNDS = {"quick": {"flows": "0..23 symbolic", "deps per flow": "0..12 symbolic on 2 flows", "flow/dep kinds": "symbolic"},
          "thorough": {"flows": "0..23", "deps per flow": "0..12 on 2 flows"}}
KF = "C24-total-flows"


def jdf_text(nr, nw, nc, nx):
    flows = []
    for i in range(nr):
        flows.append("  READ  R%d <- A(k, 0)" % i)
    for i in range(nw):
        flows.append("  WRITE W%d <- NEW\n           -> A(k, 0)" % i)
    for i in range(nx):
        flows.append("  RW    X%d <- A(k, 0)\n           -> A(k, 0)" % i)
    for i in range(nc):
        flows.append("  CTL   C%d <- (k > 0) ? C%d TASK(k-1)\n           -> (k < NT) ? C%d TASK(k+1)" % (i, i, i))
    return ("extern \"C\" %{\n#include \"parsec.h\"\n%}\n\nA   [type = \"parsec_data_collection_t*\"]\nNT  [type = int]\n\n"
            "TASK(k)\n\n  k = 0 .. NT\n: A(k,0)\n\n" + "\n".join(flows) + "\nBODY\n{\n}\nEND\n")


def real_gen(nr, nw, nc, nx):
    def g(ctx, q, qdir, overlays):
        jp = os.path.join(qdir, "c24prog.jdf")
        with open(jp, "w") as f:
            f.write(jdf_text(nr, nw, nc, nx))
        r = ptg.run(ctx, jp, qdir, name="c24prog", overlays=overlays, check=False, opts=["--Werror"])
        cc_rc = -1
        cc_err = ""
        if r["rc"] == 0:
            cmd = ["gcc", "-fsyntax-only", "-w", "-D_GNU_SOURCE", "-std=gnu11", "-I."] + ctx.inc_flags(overlays) + ["c24prog.c"]
            p = subprocess.run(cmd, cwd=qdir, stdout=subprocess.PIPE, stderr=subprocess.PIPE, text=True)
            cc_rc = p.returncode
            cc_err = "\n".join(l for l in p.stderr.splitlines() if "error" in l)[:400]
        with open(os.path.join(qdir, "c24_result.h"), "w") as f:
            f.write("#define PTGPP_RC %d\n#define CC_RC %d\n#define NFLOWS_TOTAL %d\n#define NFLOWS_READ %d\n#define NFLOWS_WRITE %d\n"
                    % (r["rc"], cc_rc, nr + nw + nc + nx, nr + nx, nw + nx))
        q.info["real run"] = {"flows": {"READ": nr, "WRITE": nw, "CTL": nc, "RW": nx}, "ptgpp_rc": r["rc"], "cc_rc": cc_rc,
                              "ptgpp_stderr": r["stderr"][-300:], "cc_errors": cc_err}
    return g


def queries(ctx):
    qs = [Q("limits_symbolic_ast", ["h.c"], defs=["NF=23", "NDF=2", "ND=12"], unwind=25, units=[JC, "parsec/interfaces/ptg/ptg-compiler/jdf.h"],
            object_bits=10, timeout=1800, kf=KF,
            incs=[os.path.join(ctx.repo, "parsec/interfaces/ptg/ptg-compiler")],
            info={"symbolic": ["number of flows 0..23", "type of every flow", "number 0..12 and direction of the dependencies of the first two flows"],
                  "stubs": ["vsnprintf/fprintf inside jdf_warn/jdf_fatal are empty for the solver (diagnostic text is not part of the verdict)"], "functions": ["jdf_sanity_check_flows_and_deps_number"],
                  "bounds": {"flows": 23, "deps/flow": 12, "flows with deps": 2}})]
    # concrete replays through the real tool chain: (READ, WRITE, CTL, RW)
    for nr, nw, nc, nx in ((11, 10, 0, 0), (10, 10, 0, 0), (21, 0, 0, 0), (0, 0, 1, 20), (8, 8, 5, 0)):
        total = nr + nw + nc + nx
        bad = total > 20 and nr + nx <= 20 and nw + nx <= 20
        qs.append(Q("real_ptgpp_%dR_%dW_%dC_%dRW" % (nr, nw, nc, nx), ["real.c"], gen=real_gen(nr, nw, nc, nx), cflags=ptg.CFLAGS,
                    engine="G", unwind=2, units=ptg.UNITS, kf=(KF if bad else None), timeout=600,
                    info={"enumerated": {"READ": nr, "WRITE": nw, "CTL": nc, "RW": nx}, "symbolic": [],
                          "functions": ["parsec-ptgpp --Werror (whole program, rebuilt from the current sources; --Werror is the documented way to "
                                        "turn its diagnostics into a non-zero exit status)", "gcc -fsyntax-only on the emitted C"]}))
    return qs


def mutants(ctx):
    return [
        Mutant("read_limit_off_by_one", JC, "if( MAX_PARAM_COUNT < flows_in ) {", "if( MAX_PARAM_COUNT + 1 < flows_in ) {"),
        Mutant("write_flows_not_counted", JC, "flows_out += !!(JDF_FLOW_TYPE_WRITE & flow->flow_flags);", "flows_out += !!(JDF_FLOW_TYPE_CTL & flow->flow_flags);"),
        Mutant("dep_out_limit_uses_in_count", JC, "if( MAX_DEP_OUT_COUNT < deps_out ) {", "if( MAX_DEP_OUT_COUNT < deps_in ) {"),
        Mutant("deps_counted_across_flows", JC, "            deps_in = deps_out = 0;\n            for(dep = flow->deps;", "            for(dep = flow->deps;"),
    ]


CLAIMED = True
MANIFEST = {
 "engine": "cbmc-src",
 "text": "The one decidable clause of the property: the real jdf_sanity_check_flows_and_deps_number of jdf.c is executed symbolically "
         "by CBMC on an abstract syntax tree built directly with a symbolic number (0..23) of flows of symbolic type and symbolic "
         "dependency lists; a SAT query shows that it reports an error exactly when the READ, WRITE or total flow counts or the "
         "per-flow input/output dependency counts exceed the configured limits. The solver's answer is tied to the real tool by "
         "queries that run the parsec-ptgpp rebuilt from the current sources (--Werror) and gcc on concrete programs at and over the "
         "limits. Known finding C24-total-flows (total flow count unchecked) is reported and excluded.",
 "note": "'accepted implies the emitted C compiles' for arbitrary programs and output determinism are outside (not encodable); "
         "AST shapes are those the grammar produces; <= 23 flows, dependency lists on two flows; limits of this build (20/10/10).",
 "technique": "CBMC bounded symbolic execution of the real jdf.c unit on a symbolic AST + SAT (cadical); concrete replays through the rebuilt ptgpp + gcc",
}
