/* C24, locals clause — a task class whose named locals plus local-definition slots exceed
 * MAX_LOCAL_COUNT is rejected.
 *
 * The REAL jdf_generate_task_typedef (jdf2c.c, static, reached by #include) runs on a SYMBOLIC task
 * class: a list of 0..NL named locals (separate static nodes) and a symbolic nb_max_local_def in
 * 0..NLD (the ldef[] slots the generated assignment structure needs for local indices
 * `[ii = a .. b]`; computed by jdf.c:jdf_assign_ldef_index).  The generator rejects by
 * jdf_fatal(...) + exit(1); `exit` is redirected to the harness:
 *     exit reached     =>  named + slots  > MAX_LOCAL_COUNT      (asserted inside the exit stub)
 *     normal return    =>  named + slots <= MAX_LOCAL_COUNT
 * i.e. rejected iff the generated `parsec_assignment_t ...; ldef[slots]; reserved[MAX_LOCAL_COUNT-n]`
 * structure does not fit (the emitted header carries "#error Too many parameters and local variables").
 * For the solver the string building of the function is made empty (string arena, list dumper,
 * asprintf: the text is not part of the verdict); the native replay runs all of it for real.
 */
#include "vp_harness.h"
#include <stdio.h>
#include <stdlib.h>
#include <stdarg.h>
#include <string.h>
#include "parsec/parsec_config.h"
#include "jdf.h"
#include "string_arena.h"
#include "jdf2c_utils.h"
#include "jdf2c.h"

#ifndef NL
#define NL 23
#endif
#ifndef NLD
#define NLD 4
#endif

static int ref_named, ref_slots, n_exit;
static void vp_exit(int code)
{
    n_exit++;
    VASSERTM(code != 0 && ref_named + ref_slots > MAX_LOCAL_COUNT,
             "the generator gives up (exit) only for a class whose named locals + local-definition slots exceed MAX_LOCAL_COUNT");
#ifdef WITNESS
    if (ref_named <= MAX_LOCAL_COUNT && ref_slots > 0) VWITNESS("rejected: named locals fit, the local-definition slots do not");
#endif
#ifdef VP_NATIVE
    (exit)(0);
#else
    __CPROVER_assume(0);
#endif
}
#define exit(c) vp_exit(c)

#ifndef VP_NATIVE
/* string building made empty for the solver */
static string_arena_t vp_sa; static char vp_empty[1];
#define string_arena_new(n)            (&vp_sa)
#define string_arena_free(sa)          ((void)(sa))
#define string_arena_init(sa)          ((void)(sa))
#define string_arena_add_string(...)   ((void)0)
#define string_arena_get_string(sa)    ((void)(sa), vp_empty)
#undef UTIL_DUMP_LIST_FIELD
#define UTIL_DUMP_LIST_FIELD(arena, ptr, nextfield, eltfield, fct, fctarg, before, prefix, separator, after) ((void)(arena), vp_empty)
#undef UTIL_DUMP_LIST
#define UTIL_DUMP_LIST(arena, ptr, nextfield, fct, fctarg, before, prefix, separator, after) ((void)(arena), vp_empty)
#define asprintf(...)  0
#define vasprintf(...) 0
#endif

jdf_compiler_global_args_t JDF_COMPILER_GLOBAL_ARGS;
jdf_t current_jdf;
void jdf_fatal(int lineno, const char *format, ...) { (void)lineno; (void)format; }
void jdf_warn(int lineno, const char *format, ...) { (void)lineno; (void)format; }

#include "parsec/interfaces/ptg/ptg-compiler/jdf2c.c"

static jdf_function_entry_t fn;
#define V(i) static jdf_variable_list_t vl_##i;
V(0) V(1) V(2) V(3) V(4) V(5) V(6) V(7) V(8) V(9) V(10) V(11) V(12) V(13) V(14) V(15) V(16) V(17) V(18) V(19) V(20) V(21) V(22)
#undef V
static jdf_variable_list_t *const vl[23] = { &vl_0, &vl_1, &vl_2, &vl_3, &vl_4, &vl_5, &vl_6, &vl_7, &vl_8, &vl_9, &vl_10, &vl_11, &vl_12,
    &vl_13, &vl_14, &vl_15, &vl_16, &vl_17, &vl_18, &vl_19, &vl_20, &vl_21, &vl_22 };
_Static_assert(NL <= 23, "node table");
static char fname[] = "T", lname[] = "v";

int main(void)
{
    int named = IN_RANGE(0, NL), slots = IN_RANGE(0, NLD);
    for (int i = 0; i < NL; i++) {
        vl[i]->name = lname;
        vl[i]->next = (i + 1 < NL && i + 1 < named) ? vl[i + 1] : NULL;
    }
    fn.fname = fname;
    fn.locals = named > 0 ? vl[0] : NULL;
    fn.nb_max_local_def = slots;
    fn.dataflow = NULL;
    ref_named = named; ref_slots = slots;
    string_arena_t *sa = string_arena_new(64);
    char *txt = jdf_generate_task_typedef((void **)&fn, sa);
    (void)txt;
    VASSERTM(n_exit == 0 && named + slots <= MAX_LOCAL_COUNT,
             "a class is accepted only if its named locals + local-definition slots fit in MAX_LOCAL_COUNT");
#ifdef WITNESS
    if (named + slots == MAX_LOCAL_COUNT && slots >= 2) VWITNESS("accepted: exactly MAX_LOCAL_COUNT entries, some of them local-definition slots");
#endif
    return 0;
}
