/* C24 — ptgpp rejects every program exceeding the runtime limits (the one decidable clause).
 *
 * The REAL jdf_sanity_check_flows_and_deps_number (jdf.c, static, reached by #include) runs on a
 * SYMBOLIC abstract syntax tree built directly: one task class with nflows in 0..NF flows, every
 * flow with symbolic type (CTL | READ | WRITE | READ+WRITE = RW, the four types the grammar
 * produces); the first NDF flows carry a symbolic number 0..ND of dependencies, each either an
 * input or an output one (the per-flow clause does not depend on which flow it is).
 * Oracle: rc < 0  <=>  #READ-capable flows, #WRITE-capable flows or the TOTAL number of flows
 * exceed MAX_PARAM_COUNT, or some flow has more than MAX_DEP_IN_COUNT input / MAX_DEP_OUT_COUNT
 * output dependencies.  (The total matters: the generated task structure holds one
 * parsec_data_pair_t per flow in data[MAX_PARAM_COUNT] and the generated header carries
 * "#error Too many flows" when it does not fit.)
 */
#include "vp_harness.h"
#include <stdio.h>
#include <stdarg.h>
const char *yyfilename = "symbolic-ast";
#ifndef VP_NATIVE
/* jdf_warn/jdf_fatal format their diagnostic into a 512-byte buffer and print it: the text is not
 * part of the verdict, the two libc calls are made empty for the solver (real in the native replay) */
#define vsnprintf(buf, n, fmt, ap) ((void)(buf), (void)(ap), 0)
#define fprintf(...) 0
#endif
#include "parsec/interfaces/ptg/ptg-compiler/jdf.c"
#ifndef VP_NATIVE
#undef vsnprintf
#undef fprintf
#endif
#include "jdf2c.h"
jdf_compiler_global_args_t JDF_COMPILER_GLOBAL_ARGS;

#ifndef NF
#define NF 23          /* flows (MAX_PARAM_COUNT + 3) */
#endif
#ifndef NDF
#define NDF 2          /* flows that carry a symbolic dependency list (the per-flow clause is independent of the flow) */
#endif
#ifndef ND
#define ND 12          /* dependencies per such flow (MAX_DEP_*_COUNT + 2) */
#endif

static jdf_function_entry_t fn;
/* every AST node is its own static object, reached through constant pointer tables (a pointer
 * into an ARRAY of these large structs costs a division circuit per dereference) */
#define F(i) static jdf_dataflow_t fl_##i;
F(0) F(1) F(2) F(3) F(4) F(5) F(6) F(7) F(8) F(9) F(10) F(11) F(12) F(13) F(14) F(15) F(16) F(17) F(18) F(19) F(20) F(21) F(22)
#undef F
static jdf_dataflow_t *const fl[23] = { &fl_0, &fl_1, &fl_2, &fl_3, &fl_4, &fl_5, &fl_6, &fl_7, &fl_8, &fl_9, &fl_10, &fl_11, &fl_12,
    &fl_13, &fl_14, &fl_15, &fl_16, &fl_17, &fl_18, &fl_19, &fl_20, &fl_21, &fl_22 };
#define D(f, i) static jdf_dep_t dp_##f##_##i;
D(0,0) D(0,1) D(0,2) D(0,3) D(0,4) D(0,5) D(0,6) D(0,7) D(0,8) D(0,9) D(0,10) D(0,11)
D(1,0) D(1,1) D(1,2) D(1,3) D(1,4) D(1,5) D(1,6) D(1,7) D(1,8) D(1,9) D(1,10) D(1,11)
#undef D
static jdf_dep_t *const dpt[2][12] = {
    { &dp_0_0, &dp_0_1, &dp_0_2, &dp_0_3, &dp_0_4, &dp_0_5, &dp_0_6, &dp_0_7, &dp_0_8, &dp_0_9, &dp_0_10, &dp_0_11 },
    { &dp_1_0, &dp_1_1, &dp_1_2, &dp_1_3, &dp_1_4, &dp_1_5, &dp_1_6, &dp_1_7, &dp_1_8, &dp_1_9, &dp_1_10, &dp_1_11 } };
_Static_assert(NF <= 23 && NDF <= 2 && ND <= 12, "object tables");
static char fname[] = "T", vname[] = "F";

int main(void)
{
    int nflows = IN_RANGE(0, NF);
    int n_read = 0, n_write = 0, too_many_deps = 0;
    for (int i = 0; i < NF; i++) {
        int ty = IN_RANGE(0, 3);
        jdf_flow_flags_t ff = ty == 0 ? JDF_FLOW_TYPE_CTL : ty == 1 ? JDF_FLOW_TYPE_READ
                            : ty == 2 ? JDF_FLOW_TYPE_WRITE : (JDF_FLOW_TYPE_READ | JDF_FLOW_TYPE_WRITE);
        int din = 0, dout = 0;
        fl[i]->flow_flags = ff;
        fl[i]->varname = vname;
        fl[i]->next = (i + 1 < NF && i + 1 < nflows) ? fl[i + 1] : NULL;
        fl[i]->deps = NULL;
        if (i < NDF) {
            int ndeps = IN_RANGE(0, ND);
            fl[i]->deps = (ndeps > 0) ? dpt[i][0] : NULL;
            for (int d = 0; d < ND; d++) {
                _Bool isin = IN_BOOL();
                dpt[i][d]->dep_flags = isin ? JDF_DEP_FLOW_IN : JDF_DEP_FLOW_OUT;
                dpt[i][d]->next = (d + 1 < ND && d + 1 < ndeps) ? dpt[i][d + 1] : NULL;
                if (d < ndeps) { if (isin) din++; else dout++; }
            }
        }
        if (i < nflows) {
            if (ff & JDF_FLOW_TYPE_READ) n_read++;
            if (ff & JDF_FLOW_TYPE_WRITE) n_write++;
            if (din > MAX_DEP_IN_COUNT || dout > MAX_DEP_OUT_COUNT) too_many_deps = 1;
        }
    }
    fn.fname = fname;
    fn.dataflow = nflows > 0 ? fl[0] : NULL;
    fn.next = NULL;
    current_jdf.functions = &fn;

    int over_rw = (n_read > MAX_PARAM_COUNT) || (n_write > MAX_PARAM_COUNT) || too_many_deps;
    int over_total = nflows > MAX_PARAM_COUNT;
    /* Known finding C24-total-flows: only the READ and WRITE counts are compared with
     * MAX_PARAM_COUNT, never the total (e.g. 11 READ + 10 WRITE flows are accepted). */
#if defined(KF_EXCLUDE_C24_TOTAL_FLOWS)
    VASSUME(!(over_total && !over_rw));
#elif defined(KF_ONLY_C24_TOTAL_FLOWS)
    VASSUME(over_total && !over_rw);
#endif
    int rc = jdf_sanity_check_flows_and_deps_number();
    VASSERTM((rc < 0) == (over_rw || over_total),
             "program is rejected iff its READ flows, WRITE flows, total flows or per-flow in/out dependencies exceed the runtime limits");
    if (!(over_rw || over_total)) VASSERTM(rc == 0, "a program within the limits passes this check with rc 0");
#if defined(WITNESS) && defined(KF_ONLY_C24_TOTAL_FLOWS)
    VWITNESS("restricted to the recorded failing class: total flows over the limit, READ and WRITE counts within");
#elif defined(WITNESS)
    if (nflows == MAX_PARAM_COUNT && n_read >= 5 && n_write >= 5 && rc == 0) VWITNESS("accepted: exactly MAX_PARAM_COUNT flows of mixed types");
    if (n_read > MAX_PARAM_COUNT && rc < 0) VWITNESS("rejected: too many READ flows");
    if (too_many_deps && n_read <= MAX_PARAM_COUNT && n_write <= MAX_PARAM_COUNT && rc < 0) VWITNESS("rejected: a flow with too many dependencies");
#endif
    return 0;
}
