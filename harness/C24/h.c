/* C24 — ptgpp rejects every program exceeding the runtime limits (the one decidable clause).
 *
 * The REAL jdf_sanity_check_flows_and_deps_number (jdf.c, static, reached by #include) runs on a
 * SYMBOLIC abstract syntax tree built directly: one task class with nflows in 0..NF flows, every
 * flow with symbolic type (CTL | READ | WRITE | READ+WRITE = RW, the four types the grammar
 * produces) and a symbolic number 0..ND of dependencies, each either an input or an output one.
 * Oracle: rc < 0  <=>  #READ-capable flows, #WRITE-capable flows or the TOTAL number of flows
 * exceed MAX_PARAM_COUNT, or some flow has more than MAX_DEP_IN_COUNT input / MAX_DEP_OUT_COUNT
 * output dependencies.  (The total matters: the generated task structure holds one
 * parsec_data_pair_t per flow in data[MAX_PARAM_COUNT] and the generated header carries
 * "#error Too many flows" when it does not fit.)
 */
#include "vp_harness.h"
const char *yyfilename = "symbolic-ast";
#include "parsec/interfaces/ptg/ptg-compiler/jdf.c"
#include "jdf2c.h"
jdf_compiler_global_args_t JDF_COMPILER_GLOBAL_ARGS;

#ifndef NF
#define NF 24
#endif
#ifndef ND
#define ND 12
#endif

static jdf_function_entry_t fn;
static jdf_dataflow_t fl[NF];
static jdf_dep_t dp[NF][ND];
static char fname[] = "T", vname[] = "F";

int main(void)
{
    int nflows = IN_RANGE(0, NF);
    int n_read = 0, n_write = 0, too_many_deps = 0;
    for (int i = 0; i < NF; i++) {
        int ty = IN_RANGE(0, 3);
        jdf_flow_flags_t ff = ty == 0 ? JDF_FLOW_TYPE_CTL : ty == 1 ? JDF_FLOW_TYPE_READ
                            : ty == 2 ? JDF_FLOW_TYPE_WRITE : (JDF_FLOW_TYPE_READ | JDF_FLOW_TYPE_WRITE);
        int ndeps = IN_RANGE(0, ND), din = 0, dout = 0;
        fl[i].flow_flags = ff;
        fl[i].varname = vname;
        fl[i].next = (i + 1 < nflows) ? &fl[i + 1] : NULL;
        fl[i].deps = (ndeps > 0) ? &dp[i][0] : NULL;
        for (int d = 0; d < ND; d++) {
            _Bool isin = IN_BOOL();
            dp[i][d].dep_flags = isin ? JDF_DEP_FLOW_IN : JDF_DEP_FLOW_OUT;
            dp[i][d].next = (d + 1 < ndeps) ? &dp[i][d + 1] : NULL;
            if (d < ndeps) { if (isin) din++; else dout++; }
        }
        if (i < nflows) {
            if (ff & JDF_FLOW_TYPE_READ) n_read++;
            if (ff & JDF_FLOW_TYPE_WRITE) n_write++;
            if (din > MAX_DEP_IN_COUNT || dout > MAX_DEP_OUT_COUNT) too_many_deps = 1;
        }
    }
    fn.fname = fname;
    fn.dataflow = nflows > 0 ? &fl[0] : NULL;
    fn.next = NULL;
    current_jdf.functions = &fn;

    int over_rw = (n_read > MAX_PARAM_COUNT) || (n_write > MAX_PARAM_COUNT) || too_many_deps;
    int over_total = nflows > MAX_PARAM_COUNT;
    /* Known finding C24-total-flows: only the READ and WRITE counts are compared with
     * MAX_PARAM_COUNT, never the total (e.g. 11 READ + 10 WRITE flows are accepted). */
#if defined(KF_EXCLUDE_C24_TOTAL_FLOWS)
    VASSUME(!(over_total && !over_rw));
#elif defined(KF_ONLY_C24_TOTAL_FLOWS)
    VASSUME(over_total && !over_rw);
#endif
    int rc = jdf_sanity_check_flows_and_deps_number();
    VASSERTM((rc < 0) == (over_rw || over_total),
             "program is rejected iff its READ flows, WRITE flows, total flows or per-flow in/out dependencies exceed the runtime limits");
    if (!(over_rw || over_total)) VASSERTM(rc == 0, "a program within the limits passes this check with rc 0");
#ifdef WITNESS
    if (nflows == MAX_PARAM_COUNT && n_read >= 5 && n_write >= 5 && rc == 0) VWITNESS("accepted: exactly MAX_PARAM_COUNT flows of mixed types");
    if (n_read > MAX_PARAM_COUNT && rc < 0) VWITNESS("rejected: too many READ flows");
    if (too_many_deps && n_read <= MAX_PARAM_COUNT && n_write <= MAX_PARAM_COUNT && rc < 0) VWITNESS("rejected: a flow with too many dependencies");
#endif
    return 0;
}
