/* C24 — replay of the solver's answer against the REAL parsec-ptgpp and the C compiler.
 * The spec's gen() writes a JDF (a given number of READ/WRITE/CTL/RW flows, or of named locals and
 * local indices) into the query directory, runs the parsec-ptgpp built from the current sources on it and compiles the emitted
 * C with `gcc -fsyntax-only`; the two exit codes arrive here as c24_result.h.  No symbolic input:
 * this query only ties the symbolic-AST verdict to the observable behaviour of the real tool. */
#include "vp_harness.h"
#include "c24_result.h"      /* PTGPP_RC, CC_RC, OVER_LIMIT (program exceeds a runtime limit), IN_KF_CLASS (recorded failing class) */
int main(void)
{
    int dummy = IN_RANGE(0, 0);
#if defined(KF_EXCLUDE_C24_TOTAL_FLOWS)
    if (IN_KF_CLASS) {
#ifdef WITNESS
        VWITNESS("query excluded: this concrete program is in the recorded failing class (known finding)");
#endif
        return 0;
    }
#elif defined(KF_ONLY_C24_TOTAL_FLOWS)
    VASSUME(IN_KF_CLASS);
#endif
    VASSERTM(!(PTGPP_RC == 0 && CC_RC != 0), "a program accepted by parsec-ptgpp (exit 0) compiles without errors");
    VASSERTM((PTGPP_RC != 0) == (OVER_LIMIT != 0), "programs exceeding a runtime limit are rejected, the others accepted");
#if defined(WITNESS) && !(defined(KF_EXCLUDE_C24_TOTAL_FLOWS) && IN_KF_CLASS)
    if (dummy == 0) VWITNESS("real parsec-ptgpp and cc were run");
#endif
    return 0;
}
