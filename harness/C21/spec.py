from vp.api import Q, Mutant
from vp import ptg
TITLE = "Redistribution copies exactly the requested window"
W = "parsec/data_dist/matrix/redistribute/redistribute_wrapper.c"
WI = "parsec/data_dist/matrix/redistribute/redistribute_internal.h"
J1 = "parsec/data_dist/matrix/redistribute/redistribute.jdf"
J2 = "parsec/data_dist/matrix/redistribute/redistribute_reshuffle.jdf"
OUTSIDE = ["C21 obligation O2, tile level (execution spaces of Send/Receive cover each target tile of the window exactly once) and the general path "
           "redistribute.jdf: not covered (the o2_receive_* queries decide the element level of the Receive body only; the Send body is not encoded)",
           "that the taskpools actually copy the window (only the arguments handed to the generated constructors, num_col, NT and the arena types are checked here)",
           "tabular source/target (batch width computed with ceil() on doubles: floats are not given to the solver); parsec_redistribute_dtd",
           "arguments beyond |v| <= 2^20 / more than 1000 tile rows or columns: the bound checks add displacement and size in int; the solver shows that with values "
           "near INT_MAX the sum wraps and an out-of-range window is accepted (observation, outside the stated argument range)"]
ASSUMPTIONS = ["collections are described by their fields read by the wrapper (dtype, mb, nb, lmt, lnt, llm, storage, grid.cols*grid.kcols or SBC r and uplo); "
               "they are built directly in the harness, not by the init functions (C20)",
               "generated headers come from parsec-ptgpp rebuilt from the tree under test; the generated constructors are recording stubs",
               "oracle: window conditions evaluated in 64-bit arithmetic; 'stored' = tile (m,n) of a lower SBC has m>=n (upper: n>=m)"]
BOUNDS = {"quick": {"tile sizes / kinds / batch widths / storage": "7 enumerated configurations", "lmt,lnt": "1..1000 symbolic", "sizes, displacements": "-2^20..2^20 symbolic", "llm": "1..2^20"},
          "thorough": {"tile sizes / kinds / batch widths / storage": "7 + 12 enumerated configurations", "lmt,lnt": "1..1000 symbolic", "sizes, displacements": "-2^20..2^20 symbolic"}}

def queries(ctx):
    info = {"symbolic": ["lmt/lnt of source and target (1..1000)", "llm", "size_row", "size_col", "4 displacements (|v|<=2^20)", "myrank", "one touched tile per collection"],
            "stubs": ["parsec_redistribute_new / parsec_redistribute_reshuffle_new (record arguments)", "parsec_matrix_adt_define_rect/_square (record)", "logging"],
            "functions": ["parsec_redistribute_New", "redistribute_region_is_stored", "redistribute_pair_num_cols", "redistribute_distribution_num_cols"]}
    g0 = ptg.gen_many([("repo:" + J1, "redistribute", (), None), ("repo:" + J2, "redistribute_reshuffle", (), None)])
    def g(ctx_, q, qdir, overlays):
        # generated headers by ptgpp (rebuilt from the tree under test) + copies of the wrapper and of its private
        # header, both resolved through the overlays (mutants), side by side in the scratch directory: the wrapper
        # includes "redistribute_internal.h" relative to its own directory
        import os, shutil
        g0(ctx_, q, qdir, overlays)
        for rel in (W, WI):
            shutil.copy(ctx_.resolve(rel, overlays), os.path.join(qdir, os.path.basename(rel)))
    qs = []
    def o1(name, mby, nby, mbt, nbt, ky=0, kt=0, ncy=2, nct=3, sty=0, stt=0):
        d = ["MBY=%d" % mby, "NBY=%d" % nby, "MBT=%d" % mbt, "NBT=%d" % nbt, "KINDY=%d" % ky, "KINDT=%d" % kt, "NCY=%d" % ncy, "NCT=%d" % nct,
             "STY=%d" % sty, "STT=%d" % stt]
        qs.append(Q("o1_" + name, ["o1.c"], defs=d, unwind=5, units=[W, WI, J1, J2] + ptg.UNITS, gen=g, cflags=ptg.CFLAGS, object_bits=10, timeout=900,
                    info=dict(info, enumerated=d)))
    o1("same_tiles_bc", 4, 4, 4, 4)
    o1("diff_tiles_bc", 4, 3, 5, 2, ncy=4, nct=2, sty=1, stt=0)
    o1("sbc_lower_to_bc", 3, 3, 3, 3, ky=1, kt=0, ncy=3, nct=2)
    o1("bc_to_sbc_upper", 2, 2, 2, 2, ky=0, kt=2, ncy=1, nct=4, stt=0)
    o1("sbc_lower_to_sbc_upper_diff", 4, 4, 3, 3, ky=1, kt=2, ncy=2, nct=2)
    o1("unsupported_source", 4, 4, 4, 4, ky=3, kt=0)
    o1("lapack_target_diff", 2, 5, 3, 4, ncy=1, nct=1, sty=0, stt=1)
    if ctx.thorough:
        t0 = len(qs)
        k = 0
        for (a, b, c, d) in ((1, 1, 2, 2), (8, 8, 8, 8), (7, 3, 7, 3), (6, 4, 3, 8), (5, 5, 4, 4), (2, 9, 2, 8)):
            for (ky, kt) in ((0, 0), (1, 2)):
                k += 1
                o1("t_%d_%d_%d_%d_k%d%d" % (a, b, c, d, ky, kt), a, b, c, d, ky=ky, kt=kt, ncy=1 + k % 4, nct=1 + (k * 3) % 5, sty=k % 2, stt=(k // 2) % 2)
        for q in qs[t0:]:
            q.tiers = ("thorough",)
    # ---- O2 (element level): the generated Receive body of redistribute_reshuffle.jdf copies exactly the in-window elements
    g2 = ptg.gen("repo:" + J2, "redistribute_reshuffle")
    for mb in (2, 3):
        for nb in (2, 3):
            for (stt, sty) in ((0, 0), (1, 0), (0, 1), (1, 1)):
                quick = (stt, sty) == (0, 0) or (mb, nb) == (2, 3)
                qs.append(Q("o2_receive_mb%d_nb%d_st%d%d" % (mb, nb, stt, sty), ["o2_receive.c"], defs=["MB=%d" % mb, "NB=%d" % nb, "STT=%d" % stt, "STY=%d" % sty],
                            unwind=15, unwindset=["vp_memcpy.0:15"], units=[J2, WI] + ptg.UNITS, gen=g2, cflags=ptg.CFLAGS, object_bits=12, engine="G", timeout=1200,
                            tiers=("quick", "thorough") if quick else ("thorough",),
                            info={"obligation": "O2 element level", "enumerated": {"mb": mb, "nb": nb, "target storage": stt, "source storage": sty, "tile grid": "3x2"},
                                  "symbolic": ["window position (tile aligned) and size", "Receive instance (m_T, n_T)", "rank_Y == rank_T"],
                                  "stubs": ["memcpy -> element-wise copy of doubles for the solver (CBMC's built-in model was imprecise here); no runtime service is called by the hook; "
                                            "hidden globals computed with the JDF's default expressions"],
                                  "functions": ["hook_of_redistribute_reshuffle_Receive_CPU (generated from the JDF BODY)", "CORE_redistribute_reshuffle_copy"]}))
    return qs

def mutants(ctx):
    A = ["o1_same_tiles_bc", "o1_diff_tiles_bc"]
    return [
        Mutant("source_row_bound_ge", W, "(disi_Y+size_row > dcY->lmt*dcY->mb)", "(disi_Y+size_row >= dcY->lmt*dcY->mb)", queries=A),
        Mutant("target_col_bound_uses_mb", W, "(disj_T+size_col > dcT->lnt*dcT->nb)", "(disj_T+size_col > dcT->lnt*dcT->mb)", queries=["o1_diff_tiles_bc", "o1_lapack_target_diff"]),
        Mutant("path_ignores_target_col_alignment", W, " && (disi_T % dcT->mb == 0) && (disj_T % dcT->nb == 0) ) {\n        parsec_redistribute_reshuffle_taskpool_t* taskpool = NULL;",
               " && (disi_T % dcT->mb == 0) ) {\n        parsec_redistribute_reshuffle_taskpool_t* taskpool = NULL;", queries=["o1_same_tiles_bc"]),
        Mutant("reshuffle_last_column_off_by_one", W, "        int n_T_END = (size_col+disj_T-1) / dcT->nb;\n        taskpool->_g_NT = (n_T_END-n_T_START)/taskpool->_g_num_col;\n\n        parsec_matrix_adt_define_rect(&taskpool->arenas_datatypes[PARSEC_redistribute_reshuffle_DEFAULT_ADT_IDX]",
               "        int n_T_END = (size_col+disj_T) / dcT->nb;\n        taskpool->_g_NT = (n_T_END-n_T_START)/taskpool->_g_num_col;\n\n        parsec_matrix_adt_define_rect(&taskpool->arenas_datatypes[PARSEC_redistribute_reshuffle_DEFAULT_ADT_IDX]", queries=["o1_same_tiles_bc"]),
        Mutant("lower_triangle_test_swapped", WI, "        return m_start >= n_end;", "        return m_end >= n_start;", queries=["o1_sbc_lower_to_bc", "o1_sbc_lower_to_sbc_upper_diff"]),
        Mutant("num_cols_min_instead_of_max", WI, "    return (num_col_Y >= num_col_T) ? num_col_Y : num_col_T;", "    return (num_col_Y >= num_col_T) ? num_col_T : num_col_Y;", queries=A),
        Mutant("target_lda_global_rows", W, "int T_LDA = dcT->storage == PARSEC_MATRIX_LAPACK ? dcT->llm : dcT->mb;", "int T_LDA = dcT->storage == PARSEC_MATRIX_LAPACK ? dcT->lm : dcT->mb;", queries=["o1_lapack_target_diff"]),
        Mutant("empty_rows_accepted", W, "    if( size_row < 1 || size_col < 1 ) {", "    if( size_row < 0 || size_col < 1 ) {", queries=A),
        # O2: single-memcpy fast path taken whenever the tile is complete in ONE dimension
        Mutant("receive_fast_path_one_dimension_complete", J2, "        && ( m_T != m_T_END )){", "        && ( (mb == descT->mb) || (nb == descT->nb) )){",
               queries=["o2_receive_mb2_nb2_st00", "o2_receive_mb3_nb2_st00"]),
        Mutant("receive_last_column_width_uses_mb", J2, "parsec_imin(descT->nb, size_col-(n_T_END-n_T_START)*descT->nb): descT->nb;",
               "parsec_imin(descT->nb, size_col-(n_T_END-n_T_START)*descT->mb): descT->nb;", queries=["o2_receive_mb2_nb3_st00", "o2_receive_mb3_nb2_st00"]),
        Mutant("receive_lapack_target_lda_is_mb", J2, "const int T_lda = ( descT->storage == PARSEC_MATRIX_LAPACK )? descT->llm : descT->mb;",
               "const int T_lda = descT->mb;", queries=["o2_receive_mb2_nb3_st10"]),
        Mutant("negative_target_disp_accepted", W, "        disi_T < 0 || disj_T < 0 ) {", "        disi_T < 0 ) {", queries=A),
    ]
CLAIMED = True
MANIFEST = {
 "engine": "cbmc-src",
 "text": "PARTIAL (obligation O1 only). Bounded model checking of the real redistribute_wrapper.c + redistribute_internal.h: for enumerated tile sizes / collection kinds "
         "and symbolic matrix extents (1..1000 tiles), window size and the four displacements (|v|<=2^20), parsec_redistribute_New returns a taskpool iff the window is "
         "non-empty, non-negative, inside source and target and touches only stored tiles of symmetric collections and both distributions are supported; the reshuffle "
         "taskpool is built iff tile sizes are equal and all four displacements are tile-aligned, otherwise the general one; the window is handed over unchanged; "
         "num_col is the larger column period and batches 0..NT cover exactly the touched target tile columns; arena types get the right tile shapes / leading dimensions.",
 "note": "O2 (what the JDF task classes copy) is not covered by these queries; generated constructors and arena-type helpers are recording stubs; tabular collections outside.",
 "technique": "CBMC bounded symbolic execution of the real C unit (+ ptgpp-generated headers) + SAT (cadical)",
}
