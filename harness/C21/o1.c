/* C21 / obligation O1: parsec_redistribute_New validates the window and chooses the path.
 *
 * Unit (real, #included): parsec/data_dist/matrix/redistribute/redistribute_wrapper.c with its
 * redistribute_internal.h (redistribute_region_is_stored, redistribute_pair_num_cols).  The two generated
 * headers redistribute.h / redistribute_reshuffle.h are produced by parsec-ptgpp (rebuilt from the tree
 * under test) from the JDFs on every run; only the taskpool structs and constructor prototypes are used.
 *
 * Enumerated (spec.py): tile sizes MBY NBY MBT NBT, kind of each collection KINDY/KINDT (0 block-cyclic,
 * 1 SBC lower, 2 SBC upper, 3 unsupported type), batch widths NCY NCT (= grid.cols*grid.kcols, or r for SBC),
 * storage STY/STT (0 tile, 1 LAPACK).
 * Symbolic: lmt/lnt of both collections (1..LMAX), llm of both, size_row, size_col, the four displacements
 * (|.| <= VBOUND), myrank, a touched tile of each collection (for the stored-triangle oracle).
 *
 * Stubs: parsec_redistribute_new / parsec_redistribute_reshuffle_new (generated constructors; record their
 * arguments, return a static taskpool), parsec_matrix_adt_define_rect/_square (record), logging.
 */
#include "vp_harness.h"
#ifndef MBY
#define MBY 4
#define NBY 4
#define MBT 4
#define NBT 4
#endif
#ifndef KINDY
#define KINDY 0
#define KINDT 0
#endif
#ifndef NCY
#define NCY 2
#define NCT 3
#endif
#ifndef STY
#define STY 0
#define STT 0
#endif
#ifndef LMAX
#define LMAX 1000
#endif
#ifndef VBOUND
#define VBOUND (1 << 20)
#endif

struct ompi_predefined_datatype_t { char opaque[64]; };
struct ompi_predefined_datatype_t ompi_mpi_datatype_null, ompi_mpi_double;

#include "redistribute_wrapper.c"     /* copy of the repo file (through overlays) placed in the scratch dir by spec.py */

int parsec_debug_output, parsec_debug_colorize, parsec_debug_rank;
static int n_warn;
void parsec_output_verbose(int level, int id, const char *fmt, ...) { (void)level; (void)id; (void)fmt; n_warn++; }
parsec_class_t parsec_taskpool_t_class;

static parsec_redistribute_taskpool_t TPG;
static parsec_redistribute_reshuffle_taskpool_t TPR;
static struct { int n; parsec_tiled_matrix_t *Y, *T; int size_row, size_col, disi_Y, disj_Y, disi_T, disj_T, R; } cg, cr;
parsec_redistribute_taskpool_t *parsec_redistribute_new(parsec_tiled_matrix_t *Y, parsec_tiled_matrix_t *T, int size_row, int size_col,
                                                        int disi_Y, int disj_Y, int disi_T, int disj_T, int R)
{ cg.n++; cg.Y = Y; cg.T = T; cg.size_row = size_row; cg.size_col = size_col; cg.disi_Y = disi_Y; cg.disj_Y = disj_Y; cg.disi_T = disi_T; cg.disj_T = disj_T; cg.R = R; return &TPG; }
parsec_redistribute_reshuffle_taskpool_t *parsec_redistribute_reshuffle_new(parsec_tiled_matrix_t *Y, parsec_tiled_matrix_t *T, int size_row, int size_col,
                                                        int disi_Y, int disj_Y, int disi_T, int disj_T)
{ cr.n++; cr.Y = Y; cr.T = T; cr.size_row = size_row; cr.size_col = size_col; cr.disi_Y = disi_Y; cr.disj_Y = disj_Y; cr.disi_T = disi_T; cr.disj_T = disj_T; cr.R = 0; return &TPR; }

static struct { int n; parsec_arena_datatype_t *adt[4]; int m[4], nn[4], ld[4], square[4]; } adt;
int parsec_matrix_adt_define_rect(parsec_arena_datatype_t *a, parsec_datatype_t old, unsigned int m, unsigned int n, unsigned int ld)
{ VASSERTM(old == parsec_datatype_double_t, "arena types are built from doubles"); if (adt.n < 4) { adt.adt[adt.n] = a; adt.m[adt.n] = (int)m; adt.nn[adt.n] = (int)n; adt.ld[adt.n] = (int)ld; adt.square[adt.n] = 0; } adt.n++; return 0; }
int parsec_matrix_adt_define_square(parsec_arena_datatype_t *a, parsec_datatype_t old, unsigned int m)
{ VASSERTM(old == parsec_datatype_double_t, "arena types are built from doubles"); if (adt.n < 4) { adt.adt[adt.n] = a; adt.m[adt.n] = (int)m; adt.nn[adt.n] = (int)m; adt.ld[adt.n] = (int)m; adt.square[adt.n] = 1; } adt.n++; return 0; }
int parsec_matrix_arena_datatype_destruct_free_type(parsec_arena_datatype_t *a) { (void)a; return 0; }
/* referenced only by parsec_redistribute() (not under test) */
int parsec_context_add_taskpool(parsec_context_t *c, parsec_taskpool_t *tp) { (void)c; (void)tp; return 0; }
int parsec_context_start(parsec_context_t *c) { (void)c; return 0; }
int parsec_context_wait(parsec_context_t *c) { (void)c; return 0; }
void parsec_taskpool_free(parsec_taskpool_t *tp) { (void)tp; }

/* the two collections: a union-like static object big enough for either kind */
static parsec_matrix_block_cyclic_t Ybc, Tbc;
static parsec_matrix_sbc_t Ysbc, Tsbc;

static parsec_tiled_matrix_t *mk(int kind, parsec_matrix_block_cyclic_t *bc, parsec_matrix_sbc_t *sbc, int mb, int nb, int nc, int st, int lmt, int lnt, int llm, int rank)
{
    parsec_tiled_matrix_t *d;
    if (kind == 1 || kind == 2) {
        d = &sbc->super; d->dtype = parsec_matrix_type | parsec_matrix_sbc_type;
        sbc->uplo = (kind == 1) ? PARSEC_MATRIX_LOWER : PARSEC_MATRIX_UPPER; sbc->r = (uint16_t)nc;
    } else {
        d = &bc->super; d->dtype = parsec_matrix_type | (kind == 0 ? parsec_matrix_block_cyclic_type : parsec_matrix_sym_block_cyclic_type);
        bc->grid.cols = nc; bc->grid.kcols = 1;
    }
    d->mb = mb; d->nb = nb; d->lmt = lmt; d->lnt = lnt; d->lm = lmt * mb; d->ln = lnt * nb; d->llm = llm;
    d->storage = st ? PARSEC_MATRIX_LAPACK : PARSEC_MATRIX_TILE; d->super.myrank = rank;
    return d;
}
static int stored(int kind, int m, int n) { return kind == 1 ? (m >= n) : kind == 2 ? (n >= m) : 1; }

int main(void)
{
    int lmtY = IN_RANGE(1, LMAX), lntY = IN_RANGE(1, LMAX), lmtT = IN_RANGE(1, LMAX), lntT = IN_RANGE(1, LMAX);
    int llmY = IN_RANGE(1, 1 << 20), llmT = IN_RANGE(1, 1 << 20), rank = IN_RANGE(0, 7);
    int size_row = IN_INT(), size_col = IN_INT(), disi_Y = IN_INT(), disj_Y = IN_INT(), disi_T = IN_INT(), disj_T = IN_INT();
    VASSUME(size_row >= -VBOUND && size_row <= VBOUND && size_col >= -VBOUND && size_col <= VBOUND);
    VASSUME(disi_Y >= -VBOUND && disi_Y <= VBOUND && disj_Y >= -VBOUND && disj_Y <= VBOUND);
    VASSUME(disi_T >= -VBOUND && disi_T <= VBOUND && disj_T >= -VBOUND && disj_T <= VBOUND);
    parsec_tiled_matrix_t *Y = mk(KINDY, &Ybc, &Ysbc, MBY, NBY, NCY, STY, lmtY, lntY, llmY, rank);
    parsec_tiled_matrix_t *T = mk(KINDT, &Tbc, &Tsbc, MBT, NBT, NCT, STT, lmtT, lntT, llmT, rank);

    parsec_taskpool_t *tp = parsec_redistribute_New(Y, T, size_row, size_col, disi_Y, disj_Y, disi_T, disj_T);

    /* ---- the mathematical window conditions (64-bit, no wrap) ---- */
    long long sr = size_row, sc = size_col;
    int in_range = sr >= 1 && sc >= 1 && disi_Y >= 0 && disj_Y >= 0 && disi_T >= 0 && disj_T >= 0
        && disi_Y + sr <= (long long)lmtY * MBY && disj_Y + sc <= (long long)lntY * NBY
        && disi_T + sr <= (long long)lmtT * MBT && disj_T + sc <= (long long)lntT * NBT;
    int supported = (KINDY != 3) && (KINDT != 3);
    if (tp != NULL) {
        VASSERTM(in_range, "an accepted window is non-empty, non-negative and inside both matrices");
        VASSERTM(supported, "an accepted pair of distributions is supported");
        if (!in_range || !supported) { VASSUME(0); }
        /* every touched tile is a stored tile (symmetric collections store one triangle): symbolic touched tile */
        int mY = IN_INT(), nY = IN_INT(), mT = IN_INT(), nT = IN_INT();
        VASSUME(mY >= disi_Y / MBY && mY <= (disi_Y + size_row - 1) / MBY && nY >= disj_Y / NBY && nY <= (disj_Y + size_col - 1) / NBY);
        VASSUME(mT >= disi_T / MBT && mT <= (disi_T + size_row - 1) / MBT && nT >= disj_T / NBT && nT <= (disj_T + size_col - 1) / NBT);
        VASSERTM(stored(KINDY, mY, nY), "every SOURCE tile touched by an accepted window is a stored tile");
        VASSERTM(stored(KINDT, mT, nT), "every TARGET tile touched by an accepted window is a stored tile");
        /* ---- path choice ---- */
        int aligned = (MBY == MBT) && (NBY == NBT) && disi_Y % MBY == 0 && disj_Y % NBY == 0 && disi_T % MBT == 0 && disj_T % NBT == 0;
        int nc = (NCY >= NCT) ? NCY : NCT;
        int first = disj_T / NBT, last = (disj_T + size_col - 1) / NBT;        /* target tile columns touched */
        if (aligned) {
            VASSERTM(tp == (parsec_taskpool_t *)&TPR && cr.n == 1 && cg.n == 0, "equal tile sizes and four tile-aligned displacements: the reshuffle taskpool is built (once)");
            VASSERTM(cr.Y == Y && cr.T == T && cr.size_row == size_row && cr.size_col == size_col && cr.disi_Y == disi_Y && cr.disj_Y == disj_Y
                     && cr.disi_T == disi_T && cr.disj_T == disj_T, "the window is handed to the reshuffle taskpool unchanged");
            VASSERTM(TPR._g_num_col == nc, "batch width = the larger column period of the two distributions");
            VASSERTM(TPR._g_NT >= 0 && (long long)TPR._g_NT * nc <= last - first && last - first < ((long long)TPR._g_NT + 1) * nc,
                     "batches 0..NT of num_col tile columns cover exactly the touched target tile columns (last batch non-empty)");
            VASSERTM(adt.n == 1 && adt.adt[0] == &TPR.arenas_datatypes[PARSEC_redistribute_reshuffle_DEFAULT_ADT_IDX] && !adt.square[0]
                     && adt.m[0] == MBY && adt.nn[0] == NBY && adt.ld[0] == MBY, "reshuffle arena type = one mb x nb tile, ld = mb");
#if MBY == MBT && NBY == NBT && KINDY != 3 && KINDT != 3
            if (size_col > 2 * NBT * nc && disj_T > 0) VWITNESS("reshuffle path, several batches");
#endif
        } else {
            VASSERTM(tp == (parsec_taskpool_t *)&TPG && cg.n == 1 && cr.n == 0, "otherwise the general taskpool is built (once)");
            VASSERTM(cg.Y == Y && cg.T == T && cg.size_row == size_row && cg.size_col == size_col && cg.disi_Y == disi_Y && cg.disj_Y == disj_Y
                     && cg.disi_T == disi_T && cg.disj_T == disj_T && cg.R == 0, "the window is handed to the general taskpool unchanged, R = 0");
            VASSERTM(TPG._g_num_col == nc, "batch width = the larger column period of the two distributions");
            VASSERTM(TPG._g_NT >= 0 && (long long)TPG._g_NT * nc <= last - first && last - first < ((long long)TPG._g_NT + 1) * nc,
                     "batches 0..NT of num_col tile columns cover exactly the touched target tile columns (last batch non-empty)");
            int yl = STY ? llmY : MBY, tl = STT ? llmT : MBT, okd = 0, okt = 0, oki = 0;
            for (int k = 0; k < 3; k++) if (k < adt.n) {
                if (adt.adt[k] == &TPG.arenas_datatypes[PARSEC_redistribute_DEFAULT_ADT_IDX]) okd += (adt.square[k] && adt.m[k] == 1);
                if (adt.adt[k] == &TPG.arenas_datatypes[PARSEC_redistribute_TARGET_ADT_IDX]) okt += (!adt.square[k] && adt.m[k] == MBT && adt.nn[k] == NBT && adt.ld[k] == tl);
                if (adt.adt[k] == &TPG.arenas_datatypes[PARSEC_redistribute_INNER_ADT_IDX]) oki += (!adt.square[k] && adt.m[k] == MBY && adt.nn[k] == NBY && adt.ld[k] == yl);
            }
            VASSERTM(adt.n == 3 && okd == 1 && okt == 1 && oki == 1, "general path arena types: 1x1 default, target tile (ld = llm if LAPACK else mb), source tile likewise");
#if KINDY != 3 && KINDT != 3
            if (size_col > 2 * NBT * nc && (disi_Y % MBY != 0 || MBY != MBT)) VWITNESS("general path, several batches");
#endif
        }
    } else {
        VASSERTM(cr.n == 0 && cg.n == 0 && adt.n == 0, "a refused call builds nothing");
        /* refused => some condition is violated: out of range, unsupported, or a touched tile that is not stored */
        int unstoredY = !stored(KINDY, disi_Y / MBY, (int)((disj_Y + sc - 1) / NBY)) || !stored(KINDY, (int)((disi_Y + sr - 1) / MBY), disj_Y / NBY);
        int unstoredT = !stored(KINDT, disi_T / MBT, (int)((disj_T + sc - 1) / NBT)) || !stored(KINDT, (int)((disi_T + sr - 1) / MBT), disj_T / NBT);
        VASSERTM(!in_range || !supported || unstoredY || unstoredT, "a window that satisfies every condition is accepted");
#if KINDY == 1 || KINDY == 2 || KINDT == 1 || KINDT == 2
        if (in_range && supported) VWITNESS("refused only because of the stored triangle");
#endif
#if KINDY == 3 || KINDT == 3
        if (in_range) VWITNESS("refused: unsupported distribution type");
#endif
        if (!in_range && size_row >= 1 && size_col >= 1 && disi_T >= 0 && disj_T >= 0 && disi_Y >= 0 && disj_Y >= 0) VWITNESS("refused: exceeds a matrix");
    }
    return 0;
}
