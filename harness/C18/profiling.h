/* forwarding header: remote_dep_mpi.c includes "profiling.h" relative to its own directory, which an
 * overlay/mutant copy of the file does not have next to it */
#include "parsec/profiling.h"
