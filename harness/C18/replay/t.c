/*
 * Copyright (c) 2017-2024 The University of Tennessee and The University
 *                         of Tennessee Research Foundation.  All rights
 *                         reserved.
 */

#include <string.h>

#if defined(PARSEC_HAVE_MPI)
#include <mpi.h>
#endif

#include "parsec/data_dist/matrix/two_dim_rectangle_cyclic.h"
#include "common.h"

#include "plain.h"
#include "mixed.h"
int main(int argc, char *argv[])
{
    parsec_context_t* parsec;
    int rank, nodes, ch;
    int ret = 0, cret;
    int op_args0 = 0, op_args1 = 1, op_args2[2] = {1, 0};
    parsec_matrix_block_cyclic_t dcA;
    parsec_matrix_block_cyclic_t dcA_check;
    parsec_taskpool_t * tp;
    int m = 0; int M = 8; int N = 8; int MB = 4; int NB = 4; int P = 1; int KP = 1; int KQ = 1; int cores = -1;
    DO_INIT();
    DO_INI_DATATYPES();
    parsec_matrix_block_cyclic_init(&dcA, PARSEC_MATRIX_INTEGER, PARSEC_MATRIX_TILE, rank, MB, NB, M, N, 0, 0, M, N, P, nodes/P, KP, KQ, 0, 0);
    dcA.mat = parsec_data_allocate((size_t)dcA.super.nb_local_tiles * (size_t)dcA.super.bsiz * (size_t)parsec_datadist_getsizeoftype(dcA.super.mtype));
    parsec_data_collection_set_key((parsec_data_collection_t*)&dcA, "dcA");
    parsec_matrix_block_cyclic_init(&dcA_check, PARSEC_MATRIX_INTEGER, PARSEC_MATRIX_TILE, rank, MB, NB, M, N, 0, 0, M, N, P, nodes/P, KP, KQ, 0, 0);
    dcA_check.mat = parsec_data_allocate((size_t)dcA_check.super.nb_local_tiles * (size_t)dcA_check.super.bsiz * (size_t)parsec_datadist_getsizeoftype(dcA_check.super.mtype));
    parsec_data_collection_set_key((parsec_data_collection_t*)&dcA_check, "dcA_check");
#define ONE(NAME) \
    parsec_apply( parsec, PARSEC_MATRIX_FULL, (parsec_tiled_matrix_t *)&dcA, (parsec_tiled_matrix_unary_op_t)reshape_set_matrix_value, &op_args1); \
    parsec_apply( parsec, PARSEC_MATRIX_FULL, (parsec_tiled_matrix_t *)&dcA_check, (parsec_tiled_matrix_unary_op_t)reshape_set_matrix_value_lower_tile, op_args2); \
    { parsec_##NAME##_taskpool_t *ctp = parsec_##NAME##_new((parsec_tiled_matrix_t *)&dcA); \
      ctp->arenas_datatypes[PARSEC_##NAME##_DEFAULT_ADT_IDX]    = adt_default; \
      ctp->arenas_datatypes[PARSEC_##NAME##_LOWER_TILE_ADT_IDX] = adt_lower; \
      DO_RUN(ctp); DO_CHECK(NAME, dcA, dcA_check); printf("TEST %s ret=%d\n", #NAME, ret); }
    ONE(plain)
    ONE(mixed)
    return ret;
}
