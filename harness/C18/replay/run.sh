#!/bin/bash
# Real-runtime replay of the known finding C18-mixed-output-types-share-promise (single process).
#   ./run.sh [repo]        (default $VP_REPO or /repo; needs repo/_build with parsec-ptgpp and libparsec.so)
# plain.jdf = tests/collections/reshape/local_output_reshape.jdf (READ_A -> SET_ZEROS [type=LOWER_TILE]);
# mixed.jdf = the same plus one untyped output dependency 'READ_A -> A NOOP(m,k)' on the same flow.
# Both are run through the test suite's own checker (only the lower triangle of every tile may be
# zeroed).  Expected on a tree WITHOUT the fix: "Test plain PASSED", "Test mixed FAILED".
REPO=${1:-${VP_REPO:-/repo}}; B=$REPO/_build
HERE=$(cd "$(dirname "$0")" && pwd)
W=$(mktemp -d /tmp/c18replay.XXXXXX); trap 'rm -rf "$W"' EXIT
cp $HERE/plain.jdf $HERE/mixed.jdf $HERE/t.c $REPO/tests/collections/reshape/common.c $REPO/tests/collections/reshape/common.h $W/ && cd $W || exit 2
for j in plain mixed; do $B/parsec/interfaces/ptg/ptg-compiler/parsec-ptgpp -E -i $j.jdf -o $j -f $j >/dev/null 2>ptg.$j.log || { cat ptg.$j.log; exit 2; }; done
mpicc -O0 -g -w -I. -I$B/parsec/include -I$B -I$REPO/parsec/include -I$REPO t.c common.c plain.c mixed.c -o t.exe \
      -L$B/parsec -lparsec -Wl,-rpath,$B/parsec -lpthread -lm || exit 2
export OMPI_ALLOW_RUN_AS_ROOT=1 OMPI_ALLOW_RUN_AS_ROOT_CONFIRM=1
timeout 120 mpiexec --oversubscribe -n 1 ./t.exe > out.txt 2>&1
grep "^Test " out.txt
[ "$(grep -c 'PASSED' out.txt)" = 2 ] && ! grep -q FAILED out.txt
