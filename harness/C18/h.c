/* C18 (reduced): typed PTG flows deliver correctly converted copies -- the reshape-promise protocol.
 *
 * Real code (included, static functions reached directly):
 *   parsec_reshape.c            parsec_set_up_reshape_promise, parsec_create_reshape_promise,
 *                               parsec_new_reshape_promise, parsec_setup_nested_future,
 *                               parsec_reshape_check_match_datatypes, parsec_get_copy_reshape_from_dep,
 *                               parsec_cleanup_reshape_promise
 *   class/parsec_datacopy_future.c  init / get_or_trigger (nested futures) / set / destruct
 *   class/parsec_future.c, parsec_list.c, parsec_object.c  constructors/destructors (the class
 *                               tables are installed by the harness as parsec_class_initialize
 *                               would compute them)
 *   remote_dep_mpi.c            parsec_local_reshape_cb, reshape_copy_allocate, remote_dep_copy_allocate
 *
 * Scenario: one producer task with one output flow holding copy ORIG of type T0, and NC consumer
 * tasks.  Consumer c is fed by an output dependency of the producer with local type OT[c] in
 * {none, T0, T1, T2} and declares on its own input dependency the local type IT[c] in the same set.
 * (OT[] and the IT of all consumers but the last are chosen by one symbolic selector over an
 * if-chain of concrete alternatives, the IT of the last consumer is a free symbol: see main().)
 * The harness drives the real functions EXACTLY as ptgpp-generated code does
 * (generated from a JDF with three output dependencies of different [type], see FINDING.md):
 *   release_deps:  arg.output_entry = producer's repo entry; iterate_successors sets
 *                  data.data = ORIG, data.data_future = NULL ONCE per flow, then for every
 *                  dependency (untyped ones first, equal types adjacent) fills data.local with
 *                  the dependency's type and calls parsec_set_up_reshape_promise;
 *   data_lookup:   every consumer takes the promise from its own repo entry if the producer put
 *                  one there, else from the producer's entry, fills data.local with ITS declared
 *                  type and calls parsec_get_copy_reshape_from_dep.
 * The datatype copy primitive (parsec_ce.reshape) records (src copy, src type, dst copy, dst type);
 * arena allocation returns a fresh copy.  COMM_MT mode: conversions run in the calling thread.
 *
 * Oracle (property text): the copy a consumer observes has the type it asked for (its input type
 * if any, else the type of the producer's output dependency, else the producer's type); a consumer
 * whose type is the producer's gets the original copy, unconverted; every conversion reads the
 * producer's copy and writes a FRESH copy that is neither the producer's nor the result of another
 * conversion; consumers asking for the same (output type, input type) share one copy, i.e. at most
 * one conversion per distinct requested shape.
 */
#include "vp_harness.h"
#define VP_KEY2DEPS(k) ((parsec_remote_deps_t *)(k))
#include "parsec/class/parsec_object.c"
#include "parsec/class/parsec_list.c"
#include "parsec/class/parsec_future.c"
#include "parsec/class/parsec_datacopy_future.c"
#include "parsec/parsec_reshape.c"
#include "parsec/remote_dep_mpi.c"

#ifndef NC
#define NC 2
#endif
#define NT 3                                   /* T0 (producer's), T1, T2 */
#define NOTYPE 3                               /* index meaning "no type on the dependency" */
#define MAXCONV (2 * NC)

/* ---- datatypes: MPI handles are addresses of opaque objects */
struct ompi_predefined_datatype_t { char opaque[8]; };
struct ompi_predefined_datatype_t ompi_mpi_int8_t, ompi_mpi_datatype_null, ompi_mpi_packed, ompi_mpi_byte;
static struct ompi_predefined_datatype_t dtt_obj[NT];
static parsec_datatype_t TY(int t) { return t == NOTYPE ? PARSEC_DATATYPE_NULL : (parsec_datatype_t)&dtt_obj[t]; }
int parsec_type_match(parsec_datatype_t a, parsec_datatype_t b) { return a == b ? PARSEC_SUCCESS : PARSEC_ERROR; }   /* as datatype_mpi.c */

/* ---- environment */
struct ompi_predefined_communicator_t { char opaque[8]; };
struct ompi_predefined_communicator_t ompi_mpi_comm_world;
int MPI_Pack_size(int incount, MPI_Datatype datatype, MPI_Comm comm, int *size) { (void)datatype; (void)comm; *size = incount * 8; return 0; }   /* PACKED reception only: not reached */
void parsec_output(int id, const char *fmt, ...) { (void)id; (void)fmt; }
void parsec_output_verbose(int level, int id, const char *fmt, ...) { (void)level; (void)id; (void)fmt; }
static void vp_fatal_exit(int status) { (void)status; VASSUME(0); }
void (*parsec_weaksym_exit)(int status) = vp_fatal_exit;
int parsec_debug_coredump_on_fatal = 0, parsec_debug_history_on_fatal = 0, parsec_debug_colorize = 0, parsec_debug_rank = 0;
const char *parsec_hostname = "vp";
parsec_comm_engine_t parsec_ce;
int parsec_taskpool_update_runtime_nbtask(parsec_taskpool_t *t, int32_t n) { (void)t; (void)n; return 0; }

static parsec_context_t ctx; static parsec_vp_t vp; static parsec_execution_stream_t es;
static parsec_taskpool_t tp; static parsec_task_t ptask, ctask[NC];
static parsec_flow_t pflow, cflow; static parsec_dep_t dep[NC];
static parsec_arena_t arena[NT];
static data_repo_t PREPO, SREPO[NC]; static data_repo_entry_t PE, SE[NC]; static int se_created[NC]; static int usage_added[NC];

/* ---- copies */
static parsec_data_t ODATA, NDATA[MAXCONV];
static parsec_data_copy_t ORIG, NEWC[MAXCONV]; static int n_new;
static int zero_released;
static void vp_copy_to_zero(parsec_object_t *o) { (void)o; zero_released++; }
parsec_data_copy_t *parsec_arena_get_new_copy(parsec_arena_t *a, size_t count, int device, parsec_datatype_t dtt)
{   /* contract: a fresh copy (reference count 1) of a fresh data (count 2: copy + arena owner), CPU device, with the given type */
    (void)count; (void)device;
    VASSERTM(a != NULL, "a conversion allocates from the arena of the requested type");
    VASSUME(n_new < MAXCONV);
    parsec_data_copy_t *c = &NEWC[n_new]; parsec_data_t *d = &NDATA[n_new]; n_new++;
    c->super.super.obj_reference_count = 1; c->super.super.obj_release = vp_copy_to_zero;
    d->super.obj_reference_count = 2; d->super.obj_release = vp_copy_to_zero;
    c->original = d; c->device_index = 0; c->dtt = dtt; c->flags = 0;
    return c;
}
int parsec_data_start_transfer_ownership_to_copy(parsec_data_t *d, uint8_t dev, uint8_t mode) { (void)d; (void)dev; (void)mode; return 0; }
int parsec_data_release_self_contained_data(parsec_data_t *d) { (void)d; return 0; }

/* ---- the datatype copy primitive */
static int n_conv; static parsec_data_copy_t *conv_src[MAXCONV], *conv_dst[MAXCONV]; static parsec_datatype_t conv_st[MAXCONV], conv_dt[MAXCONV];
static int stub_reshape(parsec_comm_engine_t *ce, parsec_execution_stream_t *e,
                        parsec_data_copy_t *dst, int64_t ddispl, parsec_datatype_t dtype, uint64_t dcount,
                        parsec_data_copy_t *src, int64_t sdispl, parsec_datatype_t stype, uint64_t scount)
{
    (void)ce; (void)e; (void)ddispl; (void)sdispl; (void)dcount; (void)scount;
    VASSUME(n_conv < MAXCONV);
    conv_src[n_conv] = src; conv_dst[n_conv] = dst; conv_st[n_conv] = stype; conv_dt[n_conv] = dtype; n_conv++;
    return 0;
}

/* ---- data repositories (hash tables of C25): one entry per task instance */
data_repo_entry_t *__data_repo_lookup_entry_and_create(parsec_execution_stream_t *e, data_repo_t *repo, parsec_key_t key)
{
    (void)e;
    for (int c = 0; c < NC; c++) if (repo == &SREPO[c]) { VASSERTM(key == (parsec_key_t)c, "the successor entry is looked up under the successor's key"); se_created[c] = 1; return &SE[c]; }
    VASSERTM(0, "only successor repositories are created into by the reshape code"); VASSUME(0); return NULL;
}
void __data_repo_entry_addto_usage_limit(data_repo_t *repo, parsec_key_t key, uint32_t n)
{
    (void)key; for (int c = 0; c < NC; c++) if (repo == &SREPO[c]) usage_added[c] += (int)n;
}

/* ---- typed allocation: the runtime mallocs its promise objects; CBMC needs typed objects */
#ifndef VP_NATIVE
static parsec_datacopy_future_t FUT[MAXCONV + NC + 2]; static int n_fut;
static parsec_reshape_promise_description_t PD[MAXCONV + NC + 2]; static int n_pd;
static parsec_dep_type_description_t TD[MAXCONV + NC + 2]; static int n_td;
static parsec_datatype_t MD[MAXCONV + NC + 2][2]; static int n_md;
static parsec_list_t LST[NC + 2]; static int n_lst;
void *malloc(size_t sz)
{
    if (sz == sizeof(parsec_datacopy_future_t)) { __CPROVER_assume(n_fut < MAXCONV + NC + 2); return &FUT[n_fut++]; }
    if (sz == sizeof(parsec_reshape_promise_description_t)) { __CPROVER_assume(n_pd < MAXCONV + NC + 2); return &PD[n_pd++]; }
    if (sz == sizeof(parsec_dep_type_description_t)) { __CPROVER_assume(n_td < MAXCONV + NC + 2); return &TD[n_td++]; }
    if (sz == sizeof(parsec_datatype_t) * 2) { __CPROVER_assume(n_md < MAXCONV + NC + 2); return &MD[n_md++][0]; }
    if (sz == sizeof(parsec_list_t)) { __CPROVER_assume(n_lst < NC + 2); return &LST[n_lst++]; }
    __CPROVER_assert(0, "P: unexpected allocation size in the reshape code"); __CPROVER_assume(0); return (void *)0;
}
void free(void *p) { (void)p; }
#endif

/* class tables as parsec_class_initialize() computes them (parent-first constructors, child-first destructors) */
static parsec_construct_t ctor_item[] = { (parsec_construct_t)parsec_list_item_construct, NULL };
static parsec_destruct_t  dtor_none[] = { NULL };
static parsec_construct_t ctor_list[] = { (parsec_construct_t)parsec_list_construct, NULL };
static parsec_destruct_t  dtor_list[] = { (parsec_destruct_t)parsec_list_destruct, NULL };
static parsec_construct_t ctor_dcf[]  = { (parsec_construct_t)parsec_list_item_construct, (parsec_construct_t)parsec_base_future_construct,
                                          (parsec_construct_t)parsec_datacopy_future_construct, NULL };
static parsec_destruct_t  dtor_dcf[]  = { (parsec_destruct_t)parsec_datacopy_future_destruct, NULL };
static void install_class(parsec_class_t *c, parsec_construct_t *ct, parsec_destruct_t *dt, int depth)
{ c->cls_initialized = 1; c->cls_depth = depth; c->cls_construct_array = ct; c->cls_destruct_array = dt; }

static int kind(int ot) { return (ot == NOTYPE || ot == 0) ? 0 : ot; }       /* which copy an output type yields: 0 = the original */

static void scenario(int ot0, int ot1, int ot2, int it0, int it1)
{
    (void)ot2; (void)it1;
    /* ---- symbolic scenario */
    /* see main(): OT[] and the input types of all consumers but the last are concrete in every
     * alternative; the input type of the LAST consumer is symbolic */
    int OT[NC], IT[NC];
    OT[0] = ot0; OT[1] = ot1; IT[0] = it0;
#if NC >= 3
    OT[2] = ot2; IT[1] = it1;
#endif
    IT[NC - 1] = IN_RANGE(0, 3);
    int in_class = 0;                 /* known finding: the output dependencies of the flow do not all yield the same copy */
    for (int c = 1; c < NC; c++) if (kind(OT[c]) != kind(OT[0])) in_class = 1;
#if defined(KF_EXCLUDE_C18_MIXED_OUTPUT_TYPES_SHARE_PROMISE)
    VASSUME(!in_class);
#elif defined(KF_ONLY_C18_MIXED_OUTPUT_TYPES_SHARE_PROMISE)
    VASSUME(in_class);
#endif

    /* ---- producer: release_deps_of -> iterate_successors_of(..., parsec_set_up_reshape_promise, &arg) */
    parsec_release_dep_fct_arg_t arg;
    arg.action_mask = PARSEC_ACTION_RELEASE_LOCAL_DEPS | PARSEC_ACTION_RESHAPE_ON_RELEASE;
    arg.output_repo = &PREPO; arg.output_entry = &PE; arg.output_usage = 0; arg.ready_lists = NULL;
    PE.ht_item.key = (parsec_key_t)77;
    parsec_dep_data_description_t data;
    data.data = &ORIG; data.data_future = NULL;                       /* once per flow */
    for (int c = 0; c < NC; c++) {
        dep[c].dep_index = c; dep[c].dep_datatype_index = c; dep[c].belongs_to = &pflow; dep[c].flow = &cflow;
        ctask[c].taskpool = &tp;
        data.local.arena = (OT[c] == NOTYPE) ? &arena[0] : &arena[OT[c]];
        data.local.src_datatype = data.local.dst_datatype = TY(OT[c]);
        data.local.src_count = data.local.dst_count = 1; data.local.src_displ = data.local.dst_displ = 0;
        data.remote.arena = &arena[0]; data.remote.src_datatype = data.remote.dst_datatype = ORIG.dtt;
        data.remote.src_count = data.remote.dst_count = 1; data.remote.src_displ = data.remote.dst_displ = 0;
        parsec_ontask_iterate_t it = parsec_set_up_reshape_promise(&es, &ctask[c], &ptask, &dep[c], &data, 0, 0, 0,
                                                                   &SREPO[c], (parsec_key_t)c, &arg);
        VASSERTM(it == PARSEC_ITERATE_CONTINUE, "set_up_reshape_promise continues the iteration");
    }
    VASSERTM(PE.data[0] != NULL, "the producer's repo entry holds a promise for the flow");

    /* ---- consumers: data_lookup_of -> parsec_get_copy_reshape_from_dep */
    parsec_data_copy_t *got[NC];
    for (int c = 0; c < NC; c++) {
        data_repo_entry_t *consumed = (se_created[c] && SE[c].data[0] != NULL) ? &SE[c] : &PE;
        parsec_dep_data_description_t d;
        d.data = NULL; d.data_future = (parsec_datacopy_future_t *)consumed->data[0];
        d.local.arena = (IT[c] == NOTYPE) ? NULL : &arena[IT[c]];
        d.local.src_datatype = d.local.dst_datatype = TY(IT[c]);
        d.local.src_count = d.local.dst_count = 1; d.local.src_displ = d.local.dst_displ = 0;
        VASSERTM(d.data_future != NULL, "a consumer finds a promise where the generated code looks for it");
        if (d.data_future == NULL) VASSUME(0);
        /* the promise outlives this lookup: its destruction (last consumer) is outside this query, see spec.py OUTSIDE */
        PARSEC_OBJ_RETAIN(d.data_future);
        parsec_data_copy_t *chunk = NULL;
        int rc = parsec_get_copy_reshape_from_dep(&es, &tp, &ctask[c], 0, &SREPO[c], (parsec_key_t)c, &d, &chunk);
        VASSERTM(rc == PARSEC_HOOK_RETURN_RESHAPE_DONE && chunk != NULL, "in multithreaded-MPI mode the reshape completes in the calling thread");
        got[c] = chunk;
        int want = (IT[c] != NOTYPE) ? IT[c] : (OT[c] != NOTYPE) ? OT[c] : 0;
        VASSERTM(chunk == NULL || chunk->dtt == TY(want), "the consumer observes a copy of the type it asked for");
        if (want == 0 && kind(OT[c]) == 0) VASSERTM(chunk == &ORIG, "a consumer asking for the producer's own type gets the original copy, unconverted");
        if (want != 0) VASSERTM(chunk != &ORIG, "a consumer asking for another type never gets the producer's copy");
    }
    /* ---- conversions */
    for (int i = 0; i < MAXCONV; i++) if (i < n_conv) {
        VASSERTM(conv_src[i] == &ORIG, "every conversion reads the producer's copy");
        VASSERTM(conv_dst[i] != &ORIG && conv_dst[i] != NULL, "no conversion writes into the producer's copy");
        VASSERTM(conv_dst[i]->dtt == conv_dt[i], "a conversion writes a copy of its destination type");
        for (int j = 0; j < i; j++) VASSERTM(conv_dst[j] != conv_dst[i], "every conversion writes a fresh copy");
    }
    for (int c = 0; c < NC; c++) for (int b = 0; b < c; b++) {
        if (OT[b] == OT[c] && IT[b] == IT[c]) VASSERTM(got[b] == got[c], "consumers asking for the same shape share one converted copy (one fulfilment per shape)");
        if (got[b] != NULL && got[c] != NULL && got[b]->dtt != got[c]->dtt) VASSERTM(got[b] != got[c], "consumers of different types get different copies");
    }
    VASSERTM(n_conv <= 2 * NC && n_conv == n_new, "every conversion has its own fresh destination; at most two levels of reshape per consumer");
    VASSERTM(zero_released == 0, "no copy loses its last reference while consumers still hold it");

    if (got[0] != NULL && got[NC - 1] != NULL && n_conv == n_new) VWITNESS("every consumer was served");
}

int main(void)
{
    install_class(&parsec_list_item_t_class, ctor_item, dtor_none, 1);
    install_class(&parsec_list_t_class, ctor_list, dtor_list, 1);
    install_class(&parsec_base_future_t_class, ctor_dcf, dtor_none, 2);       /* never instantiated here */
    install_class(&parsec_datacopy_future_t_class, ctor_dcf, dtor_dcf, 3);
    ctx.nb_nodes = 1; ctx.my_rank = 0; ctx.flags = PARSEC_CONTEXT_FLAG_COMM_MT;
    vp.parsec_context = &ctx; es.virtual_process = &vp;
    parsec_ce.reshape = stub_reshape;
    pflow.flow_index = 0; cflow.flow_index = 0;
    ptask.taskpool = &tp;
    ODATA.super.obj_reference_count = 1000; ODATA.super.obj_release = vp_copy_to_zero;
    ORIG.super.super.obj_reference_count = 1000; ORIG.super.super.obj_release = vp_copy_to_zero;
    ORIG.original = &ODATA; ORIG.dtt = TY(0); ORIG.device_index = 0;

    /* ---- alternatives.  Which promise object lands in which repository entry is decided by the
     * output types OT[] and, for consumers sharing a promise, by the input types of the earlier
     * consumers.  With those symbolic every pointer of the promise graph is a symbolic choice and
     * CBMC cannot resolve the callbacks (measured: no verdict in 600 s for 2 consumers).  They are
     * therefore selected by ONE symbolic selector over an if-chain of concrete alternatives (the
     * solver still decides which alternative -- and which input type of the last consumer --
     * violates an assertion); T1 and T2 are interchangeable, so sequences are listed up to that
     * symmetry; only sequences ptgpp can emit (untyped first, equal types adjacent). */
    static const signed char alt[][5] = {
#if NC == 2
#define A4(a, b) {a, b, 0, 3, 0}, {a, b, 0, 0, 0}, {a, b, 0, 1, 0}, {a, b, 0, 2, 0}
        A4(3, 3), A4(3, 0), A4(3, 1), A4(0, 0), A4(0, 1), A4(1, 0), A4(1, 1), A4(1, 2),
#else
#define A2(a, b, c, i) {a, b, c, i, 3}, {a, b, c, i, 1}
#define A6(a, b, c) A2(a, b, c, 3), A2(a, b, c, 1), A2(a, b, c, 2)
        A6(3, 3, 3), A6(3, 3, 1), A6(3, 0, 1), A6(3, 1, 1), A6(3, 1, 2), A6(0, 0, 1), A6(0, 1, 1), A6(1, 1, 1), A6(1, 1, 2), A6(1, 2, 0),
#endif
    };
    enum { NALT = sizeof(alt) / sizeof(alt[0]) };
#ifndef ALT_LO
#define ALT_LO 0
#endif
#ifndef ALT_HI
#define ALT_HI NALT
#endif
#ifndef ALT_MOD           /* optional striding: only alternatives a with a % ALT_MOD == ALT_REM (mixes type sequences in every chunk) */
#define ALT_MOD 1
#define ALT_REM 0
#endif
    int sel = IN_RANGE(ALT_LO, ALT_HI - 1);
    VASSUME(sel % ALT_MOD == ALT_REM);
    for (int a = ALT_LO; a < ALT_HI; a++)
        if (a % ALT_MOD != ALT_REM) continue; else
        if (sel == a) { scenario(alt[a][0], alt[a][1], alt[a][2], alt[a][3], alt[a][4]); return 0; }   /* the path ends here: no state leaks into the next alternative */
    return 0;
}
