/* C26: data copy ownership transfers keep one consistent newest version.
 *
 * Unit: the real parsec/data.c (#included): parsec_data_start_transfer_ownership_to_copy,
 * parsec_data_end_transfer_ownership_to_copy (and the locked pair
 * parsec_data_transfer_ownership_to_copy when nothing is transferred).
 * data_internal.h is compiled from an overlay copy in which the flexible array
 * `device_copies[]` has the declared bound VP_NDEV (struct hack, see spec.py).
 *
 * Two modes:
 *   default : INDUCTIVE STEP.  A symbolic pre-state over VP_NDEV device copies
 *             (presence, coherency, version <= VMAX, readers, owner_device) constrained by
 *             the invariant INV below, then ONE operation with symbolic (device, access, bump).
 *   -DHIST=K: K operations from the state parsec_data_create() builds (CPU copy OWNED v0,
 *             owner 0, the other copies attached INVALID), INV and the oracle checked
 *             after every operation.
 *
 * One operation = what every caller in the tree does around the pair
 * (device_gpu.c:parsec_device_data_stage_in, generated PTG hooks, DTD):
 *     src = start(data, dev, access);
 *     if (src != -1) { copy the bytes; target.version = source.version; }     (transfer)
 *     end(data, dev, access);
 *     if (access & WRITE) target.version = newest + 1   (always for write-only; optional
 *                                                         "bump" for RW: prefetch does not bump)
 *
 * INV (representation invariant of one parsec_data_t; "valid" = not INVALID,
 *      newest = max version over valid copies):
 *   I1  at most one copy is OWNED, and then owner_device names it;
 *   I2  owner_device is -1 or names an attached, valid copy of version newest;
 *   I3  a valid copy older than newest ("stale") is SHARED, and stale copies exist only while
 *       some copy is OWNED (the OWNED copy is how start() recognises staleness);
 *   I4  an OWNED copy has version newest;
 *   I5  an EXCLUSIVE copy is the only valid copy;
 *   I6  at least one valid copy exists (the data is somewhere);
 *   I7  no copy is UNDER_TRANSFER (contract of the asserts in start()/end(): the caller
 *       serialises transfers of one data under data->lock), readers >= 0.
 */
#include "vp_harness.h"
#ifndef VP_NDEV
#define VP_NDEV 3
#endif
#ifndef VMAX
#define VMAX 3
#endif
#include "parsec/data.c"

uint32_t parsec_nb_devices = VP_NDEV;
int parsec_debug_output, parsec_debug_colorize, parsec_debug_rank;
void parsec_output_verbose(int level, int id, const char *fmt, ...) { (void)level; (void)id; (void)fmt; }
/* symbols referenced only by the parts of data.c that are not under test (object classes, destructors):
 * defined so that the native replay links; reaching one of the functions is a harness error */
struct ompi_predefined_datatype_t { char opaque[64]; };
struct ompi_predefined_datatype_t ompi_mpi_datatype_null;
parsec_class_t parsec_list_item_t_class, parsec_object_t_class;
void parsec_arena_release(parsec_data_copy_t *c) { (void)c; VASSERTM(0, "harness: parsec_arena_release is not reachable from the ownership functions"); }
parsec_device_module_t *parsec_mca_device_get(uint32_t i) { (void)i; VASSERTM(0, "harness: parsec_mca_device_get is not reachable from the ownership functions"); return NULL; }
int parsec_mca_device_is_gpu(uint32_t i) { (void)i; VASSERTM(0, "harness: parsec_mca_device_is_gpu is not reachable from the ownership functions"); return 0; }
void zone_free(zone_malloc_t *g, void *p) { (void)g; (void)p; VASSERTM(0, "harness: zone_free is not reachable from the ownership functions"); }

static parsec_data_t D;
static parsec_data_copy_t C0, C1, C2;

#define INVALID   PARSEC_DATA_COHERENCY_INVALID
#define OWNED     PARSEC_DATA_COHERENCY_OWNED
#define EXCLUSIVE PARSEC_DATA_COHERENCY_EXCLUSIVE
#define SHARED    PARSEC_DATA_COHERENCY_SHARED
#define RD PARSEC_FLOW_ACCESS_READ
#define WR PARSEC_FLOW_ACCESS_WRITE

static parsec_data_copy_t *cp(int d)
{   /* static typed objects selected by an if-chain */
    if (d == 0) return D.device_copies[0];
    if (d == 1) return D.device_copies[1];
#if VP_NDEV >= 3
    if (d == 2) return D.device_copies[2];
#endif
    return NULL;
}
static int valid(int d) { parsec_data_copy_t *c = cp(d); return c != NULL && c->coherency_state != INVALID; }
static uint32_t newest(void)
{
    uint32_t v = 0;
    for (int d = 0; d < VP_NDEV; d++) if (valid(d) && cp(d)->version > v) v = cp(d)->version;
    return v;
}
static int n_owned(void) { int n = 0; for (int d = 0; d < VP_NDEV; d++) if (valid(d) && cp(d)->coherency_state == OWNED) n++; return n; }
static int n_valid(void) { int n = 0; for (int d = 0; d < VP_NDEV; d++) if (valid(d)) n++; return n; }
static int n_stale(void) { int n = 0; uint32_t nw = newest(); for (int d = 0; d < VP_NDEV; d++) if (valid(d) && cp(d)->version < nw) n++; return n; }

/* the invariant as a predicate (used as assumption on the pre-state and as obligation on the post-state) */
static int inv_I1(void)
{
    if (n_owned() > 1) return 0;
    for (int d = 0; d < VP_NDEV; d++) if (valid(d) && cp(d)->coherency_state == OWNED && D.owner_device != d) return 0;
    return 1;
}
static int inv_I2(void)
{
    int o = D.owner_device;
    if (o == -1) return 1;
    if (o < 0 || o >= VP_NDEV) return 0;
    return valid(o) && cp(o)->version == newest();
}
static int inv_I3(void)
{
    uint32_t nw = newest();
    for (int d = 0; d < VP_NDEV; d++) if (valid(d) && cp(d)->version < nw) {
        if (cp(d)->coherency_state != SHARED) return 0;
        if (n_owned() == 0) return 0;
    }
    return 1;
}
static int inv_I4(void)
{
    for (int d = 0; d < VP_NDEV; d++) if (valid(d) && cp(d)->coherency_state == OWNED && cp(d)->version != newest()) return 0;
    return 1;
}
static int inv_I5(void)
{
    for (int d = 0; d < VP_NDEV; d++) if (valid(d) && cp(d)->coherency_state == EXCLUSIVE && n_valid() != 1) return 0;
    return 1;
}
static int inv_I6(void) { return n_valid() >= 1; }
static int inv_I7(void)
{
    for (int d = 0; d < VP_NDEV; d++) if (cp(d) != NULL) {
        parsec_data_copy_t *c = cp(d);
        if (c->data_transfer_status == PARSEC_DATA_STATUS_UNDER_TRANSFER) return 0;
        if (c->readers < 0) return 0;
        if (c->coherency_state != INVALID && c->coherency_state != OWNED && c->coherency_state != EXCLUSIVE && c->coherency_state != SHARED) return 0;
    }
    return 1;
}

static void attach(parsec_data_copy_t *c, int d, int present)
{
    c->device_index = (int8_t)d; c->original = &D; c->older = NULL;
    D.device_copies[d] = present ? c : NULL;
}

static int n_transfers, n_stale_seen, n_writes;

#ifdef VP_NATIVE
static void dump(const char *when)
{
    printf("  %-12s owner=%d", when, (int)D.owner_device);
    for (int d = 0; d < VP_NDEV; d++) {
        parsec_data_copy_t *c = cp(d);
        if (!c) { printf("  dev%d: -", d); continue; }
        printf("  dev%d: %s v%u r%d", d, c->coherency_state == INVALID ? "INVALID" : c->coherency_state == OWNED ? "OWNED" :
               c->coherency_state == SHARED ? "SHARED" : c->coherency_state == EXCLUSIVE ? "EXCLUSIVE" : "?", c->version, c->readers);
    }
    printf("\n");
}
#else
#define dump(w) do { } while (0)
#endif

/* ONE operation + oracle; returns the value of start() */
static int one_op(int dev, int access, int bump)
{
    parsec_data_copy_t *t = cp(dev);
    /* ---- snapshot of the pre-state ---- */
    const uint32_t nw = newest();
    const int pre_uptodate = valid(dev) && t->version == nw;
    const int pre_owner = D.owner_device;
    int32_t  rd[VP_NDEV]; uint32_t ver[VP_NDEV]; int val[VP_NDEV], st[VP_NDEV];
    for (int d = 0; d < VP_NDEV; d++) { rd[d] = cp(d) ? cp(d)->readers : 0; ver[d] = cp(d) ? cp(d)->version : 0; val[d] = valid(d); st[d] = cp(d) ? cp(d)->coherency_state : 0; }
    if (n_stale() > 0) n_stale_seen++;

    dump("pre");
    int src = parsec_data_start_transfer_ownership_to_copy(&D, (uint8_t)dev, (uint8_t)access);
#ifdef VP_NATIVE
    printf("  start(dev=%d, access=%s) -> %d\n", dev, access == RD ? "READ" : access == WR ? "WRITE" : "RW", src);
#endif
    dump("after start");

    /* ---- oracle on the returned transfer source ---- */
    int want_transfer = (access & RD) && !pre_uptodate;
    VASSERTM(!(want_transfer && src == -1), "a read access to a copy that is INVALID or older than the newest version requests a transfer");
    VASSERTM(!(!want_transfer && src != -1), "no transfer is requested for an up-to-date copy or a write-only access");
    if (src != -1) {
        VASSERTM(src >= 0 && src < VP_NDEV && src != dev, "the transfer source is another device");
        if (!(src >= 0 && src < VP_NDEV && src != dev)) { VASSUME(0); }
        VASSERTM(val[src], "the transfer source was a valid copy");
        VASSERTM(ver[src] == nw, "the transfer source holds the newest version");
        VASSERTM(t->coherency_state == INVALID, "the target is INVALID while the transfer is in flight");
        /* caller: transfer */
        t->data_transfer_status = PARSEC_DATA_STATUS_UNDER_TRANSFER;
        t->version = ver[src];
        t->data_transfer_status = PARSEC_DATA_STATUS_COMPLETE_TRANSFER;
        n_transfers++;
    }
    /* the source (and every other valid copy) is still there while the bytes move */
    for (int d = 0; d < VP_NDEV; d++) if (d != dev && val[d]) {
        VASSERTM(valid(d) || ver[d] < nw, "start() never invalidates another copy holding the newest version");
    }

    parsec_data_end_transfer_ownership_to_copy(&D, (uint8_t)dev, (uint8_t)access);

    /* caller: version bump of a writer */
    if ((access & WR) && (bump || !(access & RD))) t->version = nw + 1;
    if (access & WR) n_writes++;

    dump("post");
    /* ---- effect ---- */
    if (access & WR) {
        VASSERTM(t->coherency_state == OWNED, "after a write access the target copy is OWNED");
        VASSERTM(D.owner_device == dev, "after a write access the target device is owner_device");
    } else if (access & RD) {
        VASSERTM(t->coherency_state != INVALID, "after a read access the target copy is valid");
        VASSERTM(t->version == nw, "after a read access the target copy holds the newest version");
    }
    for (int d = 0; d < VP_NDEV; d++) if (cp(d)) {
        VASSERTM(cp(d)->readers == rd[d] + ((d == dev && (access & RD)) ? 1 : 0), "readers: +1 on the target of a read access, untouched elsewhere");
        if (d != dev) VASSERTM(cp(d)->version == ver[d], "versions of the other copies are untouched");
    }
    (void)pre_owner; (void)st;
    VASSERTM(n_owned() <= 1, "at most one copy is OWNED");
    VASSERTM(inv_I1(), "INV/I1 preserved: the OWNED copy is owner_device");
    VASSERTM(inv_I2(), "INV/I2 preserved: owner_device names a valid copy of the newest version");
    VASSERTM(inv_I3(), "INV/I3 preserved: stale copies are SHARED and exist only next to an OWNED newest copy");
    VASSERTM(inv_I4(), "INV/I4 preserved: the OWNED copy has the newest version");
    VASSERTM(inv_I5(), "INV/I5 preserved: an EXCLUSIVE copy is the only valid one");
    VASSERTM(inv_I6(), "INV/I6 preserved: a valid copy of the data still exists");
    VASSERTM(inv_I7(), "INV/I7 preserved: no copy left UNDER_TRANSFER, readers >= 0");
    return src;
}

static int kf_k = -1;   /* KF_ONLY, history mode: index of the operation forced into the known-finding class */
static void draw_op(int k, int *dev, int *access, int *bump)
{
    *dev = IN_RANGE(0, VP_NDEV - 1);
    { int a = IN_RANGE(1, 3); *access = ((a & 1) ? RD : 0) | ((a & 2) ? WR : 0); }   /* READ, WRITE or RW */
    *bump = IN_BOOL();
    VASSUME(cp(*dev) != NULL);                     /* contract: the target copy is attached (assert in start()) */
#ifdef KF_EXCLUDE_C26_OWNER_READ_DEMOTES
    /* known finding: a READ-only access by the owner of an OWNED copy while stale SHARED copies exist */
    VASSUME(!(*access == RD && D.owner_device == *dev && cp(*dev)->coherency_state == OWNED && n_stale() > 0));
#endif
#ifdef KF_ONLY_C26_OWNER_READ_DEMOTES
    if (kf_k < 0 || k == kf_k)
        VASSUME(*access == RD && D.owner_device == *dev && cp(*dev)->coherency_state == OWNED && n_stale() > 0);
#endif
    (void)k;
}

int main(void)
{
#ifndef HIST
    /* ---------- symbolic pre-state ---------- */
    for (int d = 0; d < VP_NDEV; d++) {
        int present = IN_BOOL();
        parsec_data_copy_t *c = (d == 0) ? &C0 : (d == 1) ? &C1 : &C2;
        int s = IN_RANGE(0, 4); VASSUME(s != 3);
        c->coherency_state = (parsec_data_coherency_t)s;
        c->version = (uint32_t)IN_RANGE(0, VMAX);
        c->readers = IN_RANGE(0, 2);
        c->data_transfer_status = IN_BOOL() ? PARSEC_DATA_STATUS_COMPLETE_TRANSFER : PARSEC_DATA_STATUS_NOT_TRANSFER;
        attach(c, d, present);
    }
    D.owner_device = (int8_t)IN_RANGE(-1, VP_NDEV - 1);
    VASSUME(inv_I1() && inv_I2() && inv_I3() && inv_I4() && inv_I5() && inv_I6() && inv_I7());
    int pre_stale = n_stale(), pre_valid = n_valid();
    int dev, access, bump; draw_op(0, &dev, &access, &bump);
    int src = one_op(dev, access, bump);
#ifdef KF_ONLY_C26_OWNER_READ_DEMOTES
    VWITNESS("known-finding class: READ by the owner of an OWNED copy with stale copies around");
    return 0;
#endif
    if (src != -1 && pre_valid >= 2 && pre_stale >= 1) VWITNESS("transfer requested with a stale third copy around");
    if (src == -1 && (access & RD) && pre_valid >= 2 && dev != D.owner_device) VWITNESS("read of an up-to-date non-owner copy, no transfer");
    if ((access & WR) && pre_valid >= 2) VWITNESS("write with other valid copies");
#else
    /* ---------- the state parsec_data_create() + copy_attach build ---------- */
    C0.coherency_state = OWNED; C0.version = 0; C0.readers = 0; C0.data_transfer_status = PARSEC_DATA_STATUS_NOT_TRANSFER;
    C1.coherency_state = INVALID; C1.version = 0; C1.readers = 0; C1.data_transfer_status = PARSEC_DATA_STATUS_NOT_TRANSFER;
    C2.coherency_state = INVALID; C2.version = 0; C2.readers = 0; C2.data_transfer_status = PARSEC_DATA_STATUS_NOT_TRANSFER;
    attach(&C0, 0, 1); attach(&C1, 1, 1);
#if VP_NDEV >= 3
    attach(&C2, 2, 1);
#endif
    D.owner_device = 0;
    VASSERTM(inv_I1() && inv_I2() && inv_I3() && inv_I4() && inv_I5() && inv_I6() && inv_I7(), "INV holds in the state built by parsec_data_create");
#ifdef KF_ONLY_C26_OWNER_READ_DEMOTES
    kf_k = IN_RANGE(0, HIST - 1);
#endif
    for (int k = 0; k < HIST; k++) {
        int dev, access, bump; draw_op(k, &dev, &access, &bump);
        (void)one_op(dev, access, bump);
    }
    if (n_transfers >= 2 && n_writes >= 2 && n_stale_seen >= 1) VWITNESS("history with >=2 transfers, >=2 writes and a stale copy");
#endif
    return 0;
}
