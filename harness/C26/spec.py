from vp.api import Q, Mutant
TITLE = "Data copy ownership transfers keep one consistent newest version"
U = "parsec/data.c"
H = "parsec/data_internal.h"
KF = "C26-owner-read-demotes"
OUTSIDE = ["concurrent callers (every caller holds data->lock around start/end; the pair is checked as one sequential operation)",
           "the GPU device layer around the pair (LRU lists, stage-in/out, eviction): C43",
           "more than 3 device copies; data_copy attach/detach/older-version chains; reference counting of copies",
           "remote_dep_mpi.c's start(WRITE) without a matching end() on a freshly allocated single-copy data"]
ASSUMPTIONS = ["caller protocol (device_gpu.c:parsec_device_data_stage_in, ptgpp-generated hooks, DTD): src=start(); if src!=-1 the target takes the "
               "source's version; end(); a WRITE access sets the target version to newest+1 (always for write-only, optional for RW)",
               "pre-state invariant INV I1-I7 (own.c header) - shown to hold in the state built by parsec_data_create and to be preserved by "
               "every operation outside the known finding; the target copy is attached; no copy is UNDER_TRANSFER when start() is called",
               "data_internal.h is compiled from an overlay with device_copies[VP_NDEV] instead of the flexible array member (regenerated from the repo on every run)"]
BOUNDS = {"quick": {"devices": "2, 3", "versions (step)": "0..3 symbolic", "history": "4 and 8 ops from parsec_data_create state"},
          "thorough": {"devices": "2, 3", "versions (step)": "0..6 symbolic", "history": "8 ops from parsec_data_create state"}}
PATCH = [(H, r"device_copies\[\];", "device_copies[VP_NDEV];")]

def queries(ctx):
    info = {"symbolic": ["per copy: attached, coherency state, version, readers, transfer status", "owner_device", "device", "access mode", "version bump"],
            "stubs": ["logging (empty)", "parsec_arena_release / parsec_mca_device_get / zone_free: unreachable, assert if reached"],
            "assumptions": ["INV I1-I7 on the pre-state", "caller protocol for versions"],
            "functions": ["parsec_data_start_transfer_ownership_to_copy", "parsec_data_end_transfer_ownership_to_copy"]}
    qs = []
    for nd in (2, 3):
        qs.append(Q("step_%ddev" % nd, ["own.c"], defs=["VP_NDEV=%d" % nd, "VMAX=3"], unwind=nd + 2, units=[U, H], patches=PATCH,
                    object_bits=10, timeout=600, kf=KF, info=dict(info, bounds={"devices": nd, "version": "0..3", "mode": "one operation from any INV state"})))
    qs.append(Q("hist4_3dev", ["own.c"], defs=["VP_NDEV=3", "HIST=4"], unwind=6, units=[U, H], patches=PATCH,
                object_bits=10, timeout=600, kf=KF, info=dict(info, bounds={"devices": 3, "ops": 4, "mode": "history from parsec_data_create state"})))
    qs.append(Q("hist8_3dev", ["own.c"], defs=["VP_NDEV=3", "HIST=8"], unwind=10, units=[U, H], patches=PATCH,
                object_bits=10, timeout=900, kf=KF, info=dict(info, bounds={"devices": 3, "ops": 8, "mode": "history from parsec_data_create state"})))
    if ctx.thorough:
        qs.append(Q("step_3dev_v6", ["own.c"], defs=["VP_NDEV=3", "VMAX=6"], unwind=5, units=[U, H], patches=PATCH, tiers=("thorough",),
                    object_bits=10, timeout=1800, kf=KF, info=dict(info, bounds={"devices": 3, "version": "0..6", "mode": "one operation from any INV state"})))
        for nd in (2,):
            qs.append(Q("hist8_%ddev" % nd, ["own.c"], defs=["VP_NDEV=%d" % nd, "HIST=8"], unwind=10, units=[U, H], patches=PATCH, tiers=("thorough",),
                        object_bits=10, timeout=3000, kf=KF, info=dict(info, bounds={"devices": nd, "ops": 8, "mode": "history from parsec_data_create state"})))
    return qs

def mutants(ctx):
    S = ["step_2dev", "step_3dev"]
    return [
        Mutant("write_owner_not_recorded", U, "        data->owner_device = (uint8_t)device;\n", "        /* owner not recorded */\n", queries=S),
        Mutant("shared_version_ge", U, "&& data->device_copies[i]->version > copy->version ) {", "&& data->device_copies[i]->version >= copy->version ) {", queries=S),
        Mutant("write_keeps_old_owner_owned", U,
               "            assert(data->device_copies[i]->data_transfer_status != PARSEC_DATA_STATUS_UNDER_TRANSFER);\n            data->device_copies[i]->coherency_state = PARSEC_DATA_COHERENCY_SHARED;\n        }\n    }\n\n  bookkeeping:",
               "            assert(data->device_copies[i]->data_transfer_status != PARSEC_DATA_STATUS_UNDER_TRANSFER);\n        }\n    }\n\n  bookkeeping:", queries=S),
        Mutant("no_source_search_without_owner", U, "        if( -1 == valid_copy ) {\n            for( i = 0;", "        if( 0 ) {\n            for( i = 0;", queries=S),
        Mutant("write_only_still_transfers", U, "    else transfer_required = 0; /* finally we'll just overwrite w/o read */", "    /* else transfer_required = 0; */", queries=S),
        Mutant("end_write_leaves_shared", U, "    if( PARSEC_FLOW_ACCESS_WRITE & access_mode ) {\n        copy->coherency_state = PARSEC_DATA_COHERENCY_OWNED;", "    if( PARSEC_FLOW_ACCESS_WRITE & access_mode ) {\n        copy->coherency_state = PARSEC_DATA_COHERENCY_SHARED;", queries=S),
        Mutant("target_not_invalid_in_flight", U, "    copy->coherency_state = PARSEC_DATA_COHERENCY_INVALID;\n    return valid_copy;", "    return valid_copy;", queries=S),
        Mutant("reader_not_counted", U, "        (void)parsec_atomic_fetch_inc_int32(&copy->readers);", "        (void)copy->readers;", queries=S),
        Mutant("source_is_first_valid_not_owner", U, "    int valid_copy = data->owner_device;", "    int valid_copy = -1;", queries=["step_3dev", "hist4_3dev"]),
    ]
CLAIMED = True
MANIFEST = {
 "engine": "cbmc-src",
 "text": "Bounded model checking of the real data.c ownership functions. Inductive step: from EVERY state of 2 or 3 device copies that satisfies the "
         "representation invariant I1-I7 (one OWNED copy = owner_device, OWNED has the newest version, stale copies are SHARED and only next to an OWNED copy, ...) "
         "one start/transfer/end operation with symbolic device, access mode and version bump preserves the invariant, requests a transfer exactly for read "
         "accesses to INVALID or outdated copies, names a source holding the newest version, never invalidates a newest copy, makes a writer OWNED and owner_device, "
         "and counts readers.  Histories of 4 and 8 symbolic operations from the parsec_data_create state satisfy the same obligations.  One class of operations "
         "(READ by the owner of an OWNED copy while stale copies exist) violates them on the unchanged tree: reported as KNOWN-FINDING C26-owner-read-demotes with a tested fix.",
 "note": "sequential (callers hold data->lock); caller protocol for version numbers is modelled in the harness from device_gpu.c / generated hooks; "
         "data_internal.h flexible array given the bound VP_NDEV through an overlay; GPU layer around the pair is C43.",
 "technique": "CBMC bounded symbolic execution of the real C unit + SAT (cadical); symbolic pre-state constrained by the invariant (inductive), symbolic operation",
}
