/* C06: wait / completion calls return exactly when the work is done.
 * Units (real, included): scheduling.c — parsec_context_add_taskpool,
 * parsec_context_start, parsec_context_wait, __parsec_context_wait,
 * parsec_taskpool_wait, __parsec_taskpool_wait, __parsec_task_progress,
 * parsec_taskpool_termination_detected — and termdet_local_module.c (the
 * detector add_taskpool installs).  One execution stream (the master).
 *
 * The harness plays the DSL and the scheduler module:
 *  - NTP taskpools tp0..; taskpool k owns nt[k] tasks (symbolic, 0..NT): like
 *    map_operator it presets nb_tasks = nt, nb_pending_actions = (nt > 0) and
 *    its start-up hook hands its tasks to the scheduler; a task's release_task
 *    does addto_nb_tasks(-1) through the installed detector module.
 *  - the scheduler's select() returns ANY pending task (symbolic choice of the
 *    taskpool) — there is one static task object, re-initialised per selection,
 *    so the real code never sees a symbolic task pointer.
 *  - taskpool 0 is submitted by the main program; taskpool j > 0 is submitted
 *    (symbolic choice `adder[j]`): by the main program before the start, by a
 *    task body of a taskpool k < j (the first of its tasks to run), or by the
 *    completion callback of a taskpool k < j.
 * MODE 0: add, start, context_wait.
 * MODE 1: add, start, parsec_taskpool_wait(tp_w) (w symbolic), context_wait.
 * MODE 2: two epochs (add/start/wait, then the remaining taskpools, start/wait).
 * Oracle (ghost counters): when parsec_context_wait returns, every submitted
 * taskpool has executed all its tasks and reported completion; when
 * parsec_taskpool_wait(tp) returns, tp has; every completion callback runs
 * exactly once, only after the taskpool's last task, and has RETURNED before the
 * taskpool is reported TERMINATED (observed from inside the callback: the state a
 * concurrent waiter would read is still not TERMINATED); no task runs after the
 * wait returned; active_taskpools is back to 0 and the context can be started
 * again; the wait loop never spins without a runnable task (lost termination).
 */
#include "vp_harness.h"
#include "parsec/scheduling.c"
#include "parsec/mca/termdet/local/termdet_local_module.c"
#include "sched_env.h"

#ifndef MODE
#define MODE 0
#endif
#ifndef NTP
#define NTP 3
#endif
#ifndef NT
#define NT 2
#endif
#define LOOPB (NTP*NT + 2)

/* ---- environment stubs (not under test) ---- */
int parsec_termdet_open_module(parsec_taskpool_t *tp, char *name){ (void)name; tp->tdm.module = &parsec_termdet_local_module.module; return PARSEC_SUCCESS; }
int parsec_barrier_wait(parsec_barrier_t *b){ (void)b; return 0; }      /* one thread */
int parsec_communication_engine_up = 0;                                  /* no communication thread */
parsec_comm_engine_t parsec_ce;
int remote_dep_dequeue_on(parsec_context_t *c){ (void)c; return 0; }
int remote_dep_dequeue_off(parsec_context_t *c){ (void)c; return 0; }
int remote_dep_dequeue_nothread_progress(parsec_execution_stream_t *es, int cycles){ (void)es; (void)cycles; return 0; }
int remote_dep_ce_reconfigure(parsec_context_t *c){ (void)c; return 0; }
int parsec_remote_dep_reconfigure(parsec_context_t *c){ (void)c; return 0; }
/* parsec_warning is a macro over parsec_output (stubbed in sched_env.h) */
/* placeholders for callbacks that are NULL / disabled in this scenario (see restrict_fp in spec.py) */
int vp_ce_enable(parsec_comm_engine_t *ce){ (void)ce; VASSERTM(0, "communication engine is down in this scenario"); return 0; }
int vp_ev_never(parsec_taskpool_t *tp, void *d){ (void)tp; (void)d; VASSERTM(0, "event callback not installed in this scenario"); return 0; }
int vp_hook_never(parsec_execution_stream_t *es, parsec_task_t *t){ (void)es; (void)t; VASSERTM(0, "hook not installed in this scenario"); return 0; }
void vp_release_never(parsec_object_t *o){ (void)o; VASSERTM(0, "no taskpool is destroyed in this scenario"); }
static parsec_device_module_t cpu_dev;
int parsec_select_best_device(parsec_task_t *t){ t->selected_device = &cpu_dev; t->selected_chore = 0; return PARSEC_SUCCESS; }

static parsec_context_t ctx; static parsec_vp_t vp0; static parsec_execution_stream_t es0;
static parsec_list_t tplist;
parsec_execution_stream_t *parsec_my_execution_stream(void){ return &es0; }

static parsec_taskpool_t tp0, tp1, tp2;
#define TPP(k) ((k)==0?&tp0:(k)==1?&tp1:&tp2)
static int nt[3], adder[3];        /* adder[j]: -1 main, 10+k task body of tp k, 20+k completion callback of tp k, 99 second epoch / never */
static int added[3], pending[3], executed[3], cbn[3], cb_after_last[3];
static int waiting_over;           /* ghost: set when a wait returned; no task may run afterwards until the next start */
static int ran_after_wait;

static void submit(int j)
{
    added[j] = 1;
    if(j == 1) parsec_context_add_taskpool(&ctx, &tp1); else if(j == 2) parsec_context_add_taskpool(&ctx, &tp2); else parsec_context_add_taskpool(&ctx, &tp0);
}
/* taskpools that `who` (10+k / 20+k) must submit */
static void submit_for(int who, int k)
{
    if(k < 1 && NTP > 1 && adder[1] == who && !added[1]) submit(1);
    if(k < 2 && NTP > 2 && adder[2] == who && !added[2]) submit(2);
}

/* ---- the DSL ---- */
static void startup0(parsec_context_t *c, parsec_taskpool_t *tp, parsec_task_t **l){ (void)c; (void)tp; (void)l; pending[0] = nt[0]; }
static void startup1(parsec_context_t *c, parsec_taskpool_t *tp, parsec_task_t **l){ (void)c; (void)tp; (void)l; pending[1] = nt[1]; }
static void startup2(parsec_context_t *c, parsec_taskpool_t *tp, parsec_task_t **l){ (void)c; (void)tp; (void)l; pending[2] = nt[2]; }
static int in_callback[3];         /* ghost: completion callback of tp k entered and not yet returned */
static int cb_saw_terminated, cb_nested_self;
static int complete_cb(int k)
{
    if(in_callback[k]) cb_nested_self = 1;
    in_callback[k] = 1;
    cbn[k]++; cb_after_last[k] = (executed[k] == nt[k]);
    /* the state a concurrent parsec_taskpool_wait(tp k) / taskpool_state(tp k) would read while this callback runs:
     * it must not be TERMINATED yet, at entry and after the callback's own work (it may submit other taskpools) */
    if(parsec_termdet_local_taskpool_state(k == 0 ? &tp0 : k == 1 ? &tp1 : &tp2) == PARSEC_TERM_TP_TERMINATED) cb_saw_terminated = 1;
    submit_for(20 + k, k);
    if(parsec_termdet_local_taskpool_state(k == 0 ? &tp0 : k == 1 ? &tp1 : &tp2) == PARSEC_TERM_TP_TERMINATED) cb_saw_terminated = 1;
    in_callback[k] = 0;
    return 0;
}
static int on_complete0(parsec_taskpool_t *tp, void *d){ (void)tp; (void)d; return complete_cb(0); }
static int on_complete1(parsec_taskpool_t *tp, void *d){ (void)tp; (void)d; return complete_cb(1); }
static int on_complete2(parsec_taskpool_t *tp, void *d){ (void)tp; (void)d; return complete_cb(2); }

static parsec_task_class_t tc; static __parsec_chore_t chores[2];
static parsec_task_t the_task; static int cur_tp = -1;
static int h_prep(parsec_execution_stream_t *es, parsec_task_t *t){ (void)es; (void)t; return PARSEC_HOOK_RETURN_DONE; }
static int h_hook(parsec_execution_stream_t *es, parsec_task_t *t)
{
    (void)es; (void)t;
    if(waiting_over) ran_after_wait = 1;
    int k = cur_tp;
    if(executed[k] == 0) submit_for(10 + k, k);            /* the first task of tp k to run submits "its" taskpools */
    return PARSEC_HOOK_RETURN_DONE;
}
static int h_cexec(parsec_execution_stream_t *es, parsec_task_t *t){ (void)es; (void)t; return 0; }
static int h_rel(parsec_execution_stream_t *es, parsec_task_t *t)
{
    (void)es; (void)t;
    int k = cur_tp; cur_tp = -1;
    executed[k]++;
    /* = tp->tdm.module->taskpool_addto_nb_tasks(tp, -1) with the module add_taskpool installed (the local one) */
    if(k == 0) parsec_termdet_local_taskpool_addto_nb_tasks(&tp0, -1);
    else if(k == 1) parsec_termdet_local_taskpool_addto_nb_tasks(&tp1, -1);
    else parsec_termdet_local_taskpool_addto_nb_tasks(&tp2, -1);
    return 0;
}
/* ---- the scheduler module ---- */
static int sel_choice[LOOPB * 2 + 2], sel_n;
static parsec_task_t *s_select(parsec_execution_stream_t *es, int32_t *distance)
{
    (void)es; *distance = 0;
    int tot = pending[0] + pending[1] + pending[2];
    if(tot == 0) {   /* the caller is waiting for work that does not exist: a termination was lost */
        VASSERTM(0, "wait loop spins although no task is runnable (lost termination / accounting)");
        VASSUME(0);
    }
    VASSERTM(cur_tp == -1, "one task at a time on the single stream");
    VASSUME(sel_n < LOOPB * 2 + 2);
    int k = sel_choice[sel_n++];
    VASSUME(k >= 0 && k < NTP && pending[k] > 0);
    pending[k]--; cur_tp = k;
    the_task.status = PARSEC_TASK_STATUS_NONE; the_task.priority = 0; the_task.task_class = &tc;
    the_task.taskpool = TPP(k);
    return &the_task;
}
static int s_schedule(parsec_execution_stream_t *es, parsec_task_t *ring, int32_t d){ (void)es; (void)ring; (void)d; VASSERTM(0, "no task is rescheduled in this scenario"); return 0; }
static parsec_sched_module_t stub_sched;

static void init_tp(parsec_taskpool_t *tp, int k)
{
    PARSEC_OBJ_CONSTRUCT(tp, parsec_taskpool_t);
    tp->taskpool_id = 10 + k;
    tp->nb_tasks = nt[k]; tp->nb_pending_actions = (nt[k] > 0);
    tp->startup_hook = (k == 0) ? startup0 : (k == 1) ? startup1 : startup2;
    tp->on_complete = (k == 0) ? on_complete0 : (k == 1) ? on_complete1 : on_complete2;
}
static void check_all_done(const char *unused)
{
    (void)unused;
    for(int k = 0; k < NTP; k++) if(added[k]) {
        VASSERTM(executed[k] == nt[k] && pending[k] == 0, "wait returned: every task of every submitted taskpool has run");
        VASSERTM(cbn[k] == 1, "wait returned: the completion callback of every submitted taskpool ran exactly once");
        VASSERTM(parsec_termdet_local_taskpool_state(TPP(k)) == PARSEC_TERM_TP_TERMINATED, "wait returned: every submitted taskpool terminated");
    }
    for(int k = 0; k < NTP; k++) VASSERTM(!in_callback[k], "wait returned: no completion callback is still running");
    VASSERTM(ctx.active_taskpools == 0, "wait returned: active_taskpools is zero");
    VASSERTM(!(ctx.flags & PARSEC_CONTEXT_FLAG_CONTEXT_ACTIVE), "wait returned: the context can be started again");
}

int main(void)
{
    ctx.nb_vp = 1; ctx.virtual_processes[0] = &vp0; ctx.taskpool_list = &tplist; vp0.parsec_context = &ctx; vp0.nb_cores = 1; vp0.vp_id = 0;
    es0.virtual_process = &vp0; es0.th_id = 0;
    PARSEC_OBJ_CONSTRUCT(&tplist, parsec_list_t);
    stub_sched.module.select = s_select; stub_sched.module.schedule = s_schedule; parsec_current_scheduler = &stub_sched;
    cpu_dev.type = PARSEC_DEV_CPU;
    chores[0].type = PARSEC_DEV_CPU; chores[0].hook = h_hook; chores[1].type = PARSEC_DEV_NONE;
    tc.name = "T"; tc.prepare_input = h_prep; tc.incarnations = chores; tc.complete_execution = h_cexec; tc.release_task = h_rel; tc.nb_flows = 0;

    for(int i = 0; i < LOOPB * 2 + 2; i++) sel_choice[i] = IN_RANGE(0, NTP - 1);
    for(int k = 0; k < NTP; k++) { nt[k] = IN_RANGE(0, NT); init_tp(TPP(k), k); }
    adder[0] = -1;
    for(int j = 1; j < NTP; j++) {
        adder[j] = IN_INT();
        int ok = (adder[j] == -1) || (adder[j] == 99);
        for(int k = 0; k < j; k++) ok = ok || (adder[j] == 10 + k && nt[k] > 0) || (adder[j] == 20 + k);
        VASSUME(ok);
#if MODE != 2
        VASSUME(adder[j] != 99);
#endif
    }
    /* ---- epoch 1 ---- */
    submit(0);
    for(int j = 1; j < NTP; j++) if(adder[j] == -1) submit(j);
    VASSERTM(parsec_context_start(&ctx) == 0, "context started");
#if MODE == 1
    int w = IN_RANGE(0, NTP - 1); VASSUME(added[w]);
    int rcw = parsec_taskpool_wait(TPP(w));
    VASSERTM(rcw >= 0, "taskpool_wait succeeded");
    VASSERTM(!in_callback[w], "taskpool_wait(tp) returned: the completion callback of tp has returned");
    VASSERTM(executed[w] == nt[w] && cbn[w] == 1 && parsec_termdet_local_taskpool_state(TPP(w)) == PARSEC_TERM_TP_TERMINATED,
             "taskpool_wait(tp) returned: every task of tp has run, its completion callback ran once, tp terminated");
    int left_after_tpwait = pending[0] + pending[1] + pending[2];
#endif
    VASSERTM(parsec_context_wait(&ctx) == PARSEC_SUCCESS, "context_wait succeeded");
    waiting_over = 1;
    check_all_done("epoch 1");
    /* a taskpool belongs to the second epoch if it is kept back (99) or if its submitter does */
    int epoch2[3] = {0, 0, 0};
    for(int j = 1; j < NTP; j++) { int a = adder[j]; epoch2[j] = (a == 99) || (a >= 10 && a < 30 && epoch2[a % 10]); }
    for(int k = 0; k < NTP; k++) VASSERTM(added[k] == !epoch2[k], "exactly the taskpools designated for this epoch were submitted");
#if MODE == 2
    /* ---- epoch 2: the taskpools kept back are submitted now; same behaviour expected ---- */
    int any2 = 0;
    waiting_over = 0;
    for(int j = 1; j < NTP; j++) if(adder[j] == 99) { submit(j); any2 = 1; }
    VASSERTM(parsec_context_start(&ctx) == 0, "context started again");
    VASSERTM(parsec_context_wait(&ctx) == PARSEC_SUCCESS, "second context_wait succeeded");
    waiting_over = 1;
    check_all_done("epoch 2");
    for(int k = 0; k < NTP; k++) VASSERTM(added[k], "every taskpool submitted by the end");
#endif
    for(int k = 0; k < NTP; k++) if(cbn[k]) VASSERTM(cb_after_last[k], "completion callback ran after the last task of its taskpool");
    VASSERTM(!cb_saw_terminated, "a taskpool is not reported TERMINATED while its completion callback is still running (a wait on it cannot return before the callback returned)");
    VASSERTM(!cb_nested_self, "the completion callback of a taskpool is not re-entered");
    VASSERTM(!ran_after_wait, "no task runs after a wait returned");

    int dyn_task = 0, dyn_cb = 0, empties = 0, total = 0;
    for(int j = 1; j < NTP; j++) { if(adder[j] >= 10 && adder[j] < 20) dyn_task++; if(adder[j] >= 20 && adder[j] < 30) dyn_cb++; }
    for(int k = 0; k < NTP; k++) { empties += (nt[k] == 0); total += nt[k]; }
#if NTP >= 3
    if(dyn_task >= 1 && dyn_cb >= 1 && total >= 3) VWITNESS("one taskpool submitted from a task body, one from a completion callback");
    if(adder[2] == 21 && nt[1] == 0 && adder[1] == 10) VWITNESS("empty taskpool submitted from a task; its completion callback submits another one");
#else
    if(dyn_task + dyn_cb >= 1 && total >= 2) VWITNESS("a taskpool submitted while the context runs");
#endif
#if MODE == 1
    if(left_after_tpwait >= 1 && total >= 3) VWITNESS("taskpool_wait returned while other taskpools still had tasks");
#endif
#if MODE == 2
    if(any2 && total >= 3) VWITNESS("second epoch with work");
#endif
    if(total == NTP * NT) VWITNESS("all taskpools full");
    return 0;
}
