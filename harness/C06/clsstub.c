#include "parsec/parsec_config.h"
#include "parsec/class/parsec_object.h"
parsec_class_t parsec_object_t_class = { "parsec_object_t", NULL, NULL, NULL, 1, 0, NULL, NULL, sizeof(parsec_object_t) };
#define MAXCLS 8
#define MAXD 6
static parsec_construct_t carr[MAXCLS][MAXD+1]; static parsec_destruct_t darr[MAXCLS][MAXD+1]; static int ncls;
void parsec_class_initialize(parsec_class_t *cls){
  if(cls->cls_initialized) return; int me = ncls++; int nc=0, nd=0, depth=0; parsec_class_t *c;
  for(c=cls;c;c=c->cls_parent){ if(c->cls_construct) nc++; if(c->cls_destruct) nd++; depth++; }
  cls->cls_depth=depth; int ci=nc, di=0; carr[me][nc]=0;
  for(c=cls;c;c=c->cls_parent){ if(c->cls_construct) carr[me][--ci]=c->cls_construct; if(c->cls_destruct) darr[me][di++]=c->cls_destruct; }
  darr[me][di]=0; cls->cls_construct_array=carr[me]; cls->cls_destruct_array=darr[me]; cls->cls_initialized=1; }
/* C15: no object may be destroyed during the scenario (the user still holds a reference on every taskpool):
 * the release functions only count, the harness asserts the count stays 0.  (Running the real destructor
 * chain here makes CBMC explore every one-pointer function as a destructor candidate, recursively.) */
int vp_destroyed;
void parsec_obj_destruct(parsec_object_t *o){ (void)o; vp_destroyed++; }
void parsec_obj_destruct_and_free(parsec_object_t *o){ (void)o; vp_destroyed++; }
