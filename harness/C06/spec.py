import os, re
from vp.api import Q, Mutant
TITLE = "Wait and completion calls return exactly when the work is done"
U = "parsec/scheduling.c"
T = "parsec/mca/termdet/local/termdet_local_module.c"
OUTSIDE = ["more than one execution stream (barriers are no-ops, the master does all the work)", "DTD re-arming of the detector (parsec_dtd_taskpool_leave_wait) and on_enter/leave_wait callbacks",
           "compound taskpools (see C15 and its known finding)", "tasks that reschedule themselves (C16) or have dependencies (C07/C01): a task is an independent unit of work of its taskpool",
           "more than 3 taskpools x 2 tasks, more than 2 epochs", "communication engine (down), parsec_taskpool_test", "scheduler misses (select returns a pending task whenever one exists)"]
ASSUMPTIONS = ["a taskpool is submitted with nb_tasks = its task count and one pending action iff it has tasks (as map_operator does); its start-up hook hands the tasks to the scheduler; release_task does addto_nb_tasks(-1)",
               "scheduler module = harness stub: select returns any pending task (symbolic); there is one static task object re-initialised per selection",
               "function pointer call sites of the units are restricted to the callbacks the scenario installs (goto-instrument --restrict-function-pointer: each restriction carries its own assertion, checked in the same run)",
               "parsec_taskpool_t class: real constructor text extracted from parsec/parsec.c on every run; class system initializer, PINS, debug output, MCA repository, barrier, remote_dep on/off are stubs"]
BOUNDS = {"quick": {"taskpools": "2..3", "tasks per taskpool": "0..2 (3 taskpools: 0..1)", "epochs": "1..2"}, "thorough": {"taskpools": 3, "tasks per taskpool": "0..2", "epochs": "1..2"}}

def gen_tpclass(ctx, q, qdir, overlays):
    src = ctx.resolve("parsec/parsec.c", overlays)
    with open(src) as f:
        txt = f.read()
    m = re.search(r"static void __parsec_taskpool_constructor\(.*?PARSEC_OBJ_CLASS_INSTANCE\(parsec_taskpool_t,[^;]*;", txt, re.S)
    if not m:
        raise Exception("cannot extract the parsec_taskpool_t class from parsec/parsec.c")
    out = os.path.join(qdir, "tpclass.c")
    with open(out, "w") as f:
        f.write('/* generated from %s: the real parsec_taskpool_t class */\n#include "parsec/parsec_config.h"\n#include "parsec/parsec_internal.h"\n#include "parsec/scheduling.h"\n#include <stdlib.h>\n' % src)
        f.write(m.group(0) + "\n")
    if out not in q.srcs:
        q.srcs.append(out)

def fp(ntp):
    oc = ["on_complete%d" % k for k in range(3)]
    su = ["startup%d" % k for k in range(3)]
    S = "function_pointer_call"
    return [
      ("__parsec_complete_execution.%s.1" % S, ["vp_hook_never"]), ("__parsec_complete_execution.%s.2" % S, ["h_cexec"]), ("__parsec_complete_execution.%s.3" % S, ["h_rel"]),
      ("__parsec_context_wait.%s.1" % S, ["vp_ce_enable"]), ("__parsec_context_wait.%s.2" % S, ["vp_exit_stub"]),
      ("__parsec_execute.%s.1" % S, ["h_hook"]), ("__parsec_get_next_task.%s.1" % S, ["s_select"]), ("__parsec_schedule.%s.1" % S, ["s_schedule"]),
      ("__parsec_task_progress.%s.1" % S, ["h_prep"]), ("__parsec_task_progress.%s.2" % S, ["vp_exit_stub"]),
      ("__parsec_taskpool_wait.%s.1" % S, ["vp_exit_stub"]), ("__parsec_taskpool_wait.%s.2" % S, ["vp_ce_enable"]), ("__parsec_taskpool_wait.%s.3" % S, ["vp_ev_never"]),
      ("__parsec_taskpool_wait.%s.4" % S, ["parsec_termdet_local_taskpool_state"]), ("__parsec_taskpool_wait.%s.5" % S, ["vp_ev_never"]),
      ("parsec_context_add_taskpool.%s.1" % S, ["parsec_termdet_local_monitor_taskpool"]), ("parsec_context_add_taskpool.%s.2" % S, ["parsec_termdet_local_taskpool_ready"]),
      ("parsec_context_add_taskpool.%s.3" % S, ["vp_ev_never"]), ("parsec_context_add_taskpool.%s.4" % S, ["vp_ev_never"]), ("parsec_context_add_taskpool.%s.5" % S, su),
      ("parsec_context_enter_wait.%s.1" % S, ["vp_ev_never"]), ("parsec_context_leave_wait.%s.1" % S, ["vp_ev_never"]),
      ("parsec_taskpool_termination_detected.%s.1" % S, oc),
      ("parsec_termdet_local_termination_detected.%s.1" % S, ["parsec_taskpool_termination_detected"]), ("parsec_termdet_local_termination_detected.%s.2" % S, ["vp_release_never"]),
    ]

def queries(ctx):
    info = {"symbolic": ["tasks per taskpool", "who submits each taskpool (main / a task body / a completion callback / second epoch)", "order in which the scheduler hands out pending tasks", "which taskpool parsec_taskpool_wait waits for"],
            "functions": ["parsec_context_add_taskpool", "parsec_context_start", "parsec_context_wait", "__parsec_context_wait", "parsec_taskpool_wait", "__parsec_taskpool_wait", "__parsec_get_next_task",
                          "__parsec_task_progress", "__parsec_execute", "__parsec_complete_execution", "parsec_taskpool_termination_detected", "parsec_termdet_local_* (monitor, ready, addto_nb_tasks, state, termination_detected)", "__parsec_taskpool_constructor"],
            "stubs": ["scheduler module (select/schedule)", "task class hooks", "parsec_termdet_open_module (installs the real local module)", "parsec_barrier_wait", "remote_dep_dequeue_on/off", "parsec_select_best_device",
                      "parsec_pins_*", "parsec_output*", "mca_components_*", "parsec_class_initialize (clsstub.c)"]}
    qs = []
    def add(mode, ntp, ntk, tiers, timeout=900, slow=False):
        nm = {0: "ctxwait", 1: "tpwait", 2: "epochs"}[mode] + "_p%d_t%d" % (ntp, ntk)
        loopb = ntp * ntk + 2
        depth = ntp + 2
        rec = ["%s:%d" % (f, depth) for f in ("parsec_context_add_taskpool", "parsec_termdet_local_termination_detected", "parsec_taskpool_termination_detected", "submit", "submit_for", "complete_cb",
                                             "parsec_termdet_local_taskpool_ready", "parsec_termdet_local_taskpool_addto_nb_tasks")]
        qs.append(Q(nm, ["h.c", "clsstub.c", "repo:parsec/class/parsec_list.c"], defs=["MODE=%d" % mode, "NTP=%d" % ntp, "NT=%d" % ntk], unwind=2 * loopb + 4, unwindset=rec, gen=gen_tpclass,
                    restrict_fp=fp(ntp), object_bits=12, units=[U, T, "parsec/parsec.c"], incs=[os.path.join(ctx.repo, "parsec")],
                    info=dict(info, bounds={"taskpools": ntp, "tasks per taskpool": "0..%d" % ntk, "mode": nm}), tiers=tiers, timeout=timeout, slow=slow))
    both = ("quick", "thorough")
    add(0, 2, 2, both); add(1, 2, 2, both); add(2, 2, 2, both)
    add(0, 3, 1, both)
    if ctx.thorough:
        add(0, 3, 2, ("thorough",), 3000, True); add(1, 3, 1, ("thorough",), 3000, True); add(2, 3, 1, ("thorough",), 3000, True)
    return qs
def mutants(ctx):
    return [
      Mutant("terminated_published_before_callback", T, "    if(NULL != tp->tdm.callback) {", "    parsec_atomic_cas_ptr(&tp->tdm.monitor, PARSEC_TERMDET_LOCAL_TERMINATING, PARSEC_TERMDET_LOCAL_TERMINATED);\n    if(NULL != tp->tdm.callback) {", queries=["ctxwait_p2_t2"]),
      Mutant("state_shows_terminating_as_terminated", T, "    if( PARSEC_TERMDET_LOCAL_TERMINATED == monitor )\n        return PARSEC_TERM_TP_TERMINATED;", "    if( PARSEC_TERMDET_LOCAL_TERMINATED == monitor || PARSEC_TERMDET_LOCAL_TERMINATING == monitor )\n        return PARSEC_TERM_TP_TERMINATED;", queries=["tpwait_p2_t2", "ctxwait_p2_t2"]),
      Mutant("start_without_token", U, "        (void)parsec_atomic_fetch_inc_int32( &context->active_taskpools );\n        return 0;", "        return 0;", queries=["ctxwait_p2_t2"]),
      Mutant("completion_callback_twice", U, "        (void)tp->on_complete( tp, tp->on_complete_data );\n    }", "        (void)tp->on_complete( tp, tp->on_complete_data );\n        (void)tp->on_complete( tp, tp->on_complete_data );\n    }", queries=["ctxwait_p2_t2"]),
      Mutant("add_taskpool_not_counted", U, "    /* Update the number of pending taskpools */\n    (void)parsec_atomic_fetch_inc_int32( &context->active_taskpools );", "    /* Update the number of pending taskpools */", queries=["ctxwait_p2_t2"]),
      Mutant("termination_not_counted", U, "    (void)parsec_atomic_fetch_dec_int32( &(tp->context->active_taskpools) );\n    PARSEC_PINS_TASKPOOL_FINI(tp);", "    PARSEC_PINS_TASKPOOL_FINI(tp);", queries=["ctxwait_p2_t2"]),
      Mutant("all_done_off_by_one", U, "    return (context->active_taskpools == 0);", "    return (context->active_taskpools <= 1);", queries=["ctxwait_p2_t2", "tpwait_p2_t2"]),
      Mutant("wait_keeps_context_active", U, "    context->flags ^= (PARSEC_CONTEXT_FLAG_COMM_ACTIVE | PARSEC_CONTEXT_FLAG_CONTEXT_ACTIVE);", "    context->flags ^= (PARSEC_CONTEXT_FLAG_COMM_ACTIVE);", queries=["epochs_p2_t2", "ctxwait_p2_t2"]),
      Mutant("taskpool_wait_one_iteration", U, "    while( tp->tdm.module->taskpool_state(tp) != PARSEC_TERM_TP_TERMINATED ) {\n\n#if defined(DISTRIBUTED)\n        if( (1 == parsec_communication_engine_up) &&\n            (es->virtual_process[0].parsec_context->nb_nodes == 1) ) {\n            /* check for remote deps completion */\n            while(parsec_remote_dep_progress(es) > 0)  {\n                misses_in_a_row = 0;",
             "    if( tp->tdm.module->taskpool_state(tp) != PARSEC_TERM_TP_TERMINATED ) {\n\n#if defined(DISTRIBUTED)\n        if( (1 == parsec_communication_engine_up) &&\n            (es->virtual_process[0].parsec_context->nb_nodes == 1) ) {\n            /* check for remote deps completion */\n            while(parsec_remote_dep_progress(es) > 0)  {\n                misses_in_a_row = 0;", queries=["tpwait_p2_t2"]),
    ]
CLAIMED = True
MANIFEST = {
 "engine": "cbmc-src",
 "text": "Bounded model checking of the real scheduling.c wait machinery (parsec_context_add_taskpool / _start / _wait, __parsec_context_wait, parsec_taskpool_wait, __parsec_task_progress, parsec_taskpool_termination_detected) with the real local termination detector on one execution stream: 2-3 taskpools with 0..2 tasks each; the solver chooses the task counts, who submits each taskpool (main program, a task body, a completion callback, or a second epoch) and the order in which the scheduler hands out pending tasks.  Ghost counters show: when context_wait returns every submitted taskpool ran all its tasks and reported completion exactly once after its last task, and no taskpool is reported TERMINATED while its completion callback is still running (observed from inside the callback); parsec_taskpool_wait(tp) returns only with tp terminated; no task runs after a wait returned; active_taskpools is back to zero and a second start/wait epoch behaves the same; the wait loop never spins without a runnable task.",
 "note": "single stream (barriers no-ops); tasks are independent units; scheduler module, task class hooks, device selection, PINS, output, MCA, remote_dep on/off are stubs; function pointer call sites are restricted to the installed callbacks with checked assertions; DTD re-arming, on_enter/leave_wait callbacks, compound taskpools (C15 finding) outside.",
 "technique": "CBMC bounded symbolic execution of the real C units + SAT (cadical)",
}
