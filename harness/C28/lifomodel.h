/* Functional (sequential) model of parsec/class/lifo.h for the C28 harnesses (assume/guarantee with C30,
 * which establishes that the real LIFO is a linearizable stack): a singly linked stack through
 * list_next, same entry points and same observable behaviour as the real code when called by one thread
 * (zone_malloc.c only touches the LIFO while holding the zone lock).
 * Why: the real parsec_lifo_pop reads the head through a union with an __int128 (128-bit CAS); CBMC then
 * loses the identity of the popped node and every later access degenerates into byte-level updates of
 * all candidate objects (measured: > 4 GB for one zone operation). */
#ifndef VP_LIFOMODEL_H
#define VP_LIFOMODEL_H
#define LIFO_H_HAS_BEEN_INCLUDED
#include "parsec/parsec_config.h"
#include "parsec/class/list_item.h"
typedef struct parsec_lifo_s {
    parsec_object_t     super;
    uint8_t             alignment;
    parsec_list_item_t *head;
    int64_t             counter;
} parsec_lifo_t;
static inline void parsec_lifo_construct(parsec_lifo_t *lifo) { lifo->alignment = 3; lifo->head = NULL; lifo->counter = 0; }
PARSEC_OBJ_CLASS_INSTANCE(parsec_lifo_t, parsec_object_t, parsec_lifo_construct, NULL);
static inline int parsec_lifo_is_empty(parsec_lifo_t *lifo) { return NULL == lifo->head; }
static inline int parsec_lifo_nolock_is_empty(parsec_lifo_t *lifo) { return NULL == lifo->head; }
static inline void parsec_lifo_nolock_push(parsec_lifo_t *lifo, parsec_list_item_t *item) { item->list_next = lifo->head; lifo->head = item; }
static inline void parsec_lifo_push(parsec_lifo_t *lifo, parsec_list_item_t *item) { parsec_lifo_nolock_push(lifo, item); }
static inline parsec_list_item_t *parsec_lifo_nolock_pop(parsec_lifo_t *lifo)
{ parsec_list_item_t *item = lifo->head; lifo->head = (parsec_list_item_t*)item->list_next; return item; }
static inline parsec_list_item_t *parsec_lifo_pop(parsec_lifo_t *lifo)
{
    parsec_list_item_t *item = lifo->head;
    if (item == NULL) return NULL;
    lifo->head = (parsec_list_item_t*)item->list_next; lifo->counter++;
    item->list_next = NULL;
    return item;
}
#endif
