/* Functional model of parsec/class/parsec_rbtree.c used by the C28 harnesses (assume/guarantee):
 * it implements exactly the contract that C36 establishes for the real tree -- insert adds an absent
 * node with an absent key, remove deletes a member, find / find_or_larger answer like the sorted key
 * set, update_node returns PARSEC_ERR_EXISTS iff ANOTHER node carries the key (and then changes
 * nothing), otherwise stores the key -- and records a breach of the tree's caller contract. */
#ifndef VP_RBMODEL_H
#define VP_RBMODEL_H
#include "parsec/parsec_config.h"
#include "parsec/constants.h"
#include "parsec/class/parsec_rbtree.h"

/* ---------------- functional model of parsec_rbtree.c ---------------- */
#ifndef MAXNODES
#define MAXNODES 6
#endif
static parsec_rbtree_node_t *RBM[MAXNODES]; static int rbn; static int rb_contract_broken, rb_overflow;
static inline void parsec_rbtree_node_construct(parsec_rbtree_node_t *item) { item->color = PARSEC_RBTREE_BLACK; }
PARSEC_OBJ_CLASS_INSTANCE(parsec_rbtree_node_t, parsec_list_item_t, parsec_rbtree_node_construct, NULL);
/* key access: same location as COMPARISON_VAL(node, comp_offset), written as char* arithmetic (no pointer->integer round trip) */
#define RBKEY(t, n) (*((int*)(((char*)(n)) + (t)->comp_offset)))
static void rb_setroot(parsec_rbtree_t *t) { t->root = rbn > 0 ? RBM[0] : t->nil; }
void parsec_rbtree_init(parsec_rbtree_t *t, size_t off)
{ t->nil = &t->nil_element; t->nil_element.color = PARSEC_RBTREE_BLACK; t->comp_offset = off; rbn = 0; rb_setroot(t); }
void parsec_rbtree_fini(parsec_rbtree_t *t) { t->nil = NULL; t->root = NULL; t->comp_offset = 0; }
void parsec_rbtree_insert(parsec_rbtree_t *t, parsec_rbtree_node_t *node)
{
    for (int i = 0; i < MAXNODES; i++) if (i < rbn && (RBM[i] == node || RBKEY(t, RBM[i]) == RBKEY(t, node))) rb_contract_broken = 1;
    if (rbn >= MAXNODES) { rb_overflow = 1; return; }
    RBM[rbn++] = node; rb_setroot(t);
}
void parsec_rbtree_remove(parsec_rbtree_t *t, parsec_rbtree_node_t *z)
{
    int at = -1;
    for (int i = 0; i < MAXNODES; i++) if (i < rbn && RBM[i] == z) at = i;
    if (at < 0) { rb_contract_broken = 1; return; }
    for (int i = 0; i + 1 < MAXNODES; i++) if (i >= at && i + 1 < rbn) RBM[i] = RBM[i + 1];
    rbn--; rb_setroot(t);
}
parsec_rbtree_node_t *parsec_rbtree_find(parsec_rbtree_t *t, int data)
{
    for (int i = 0; i < MAXNODES; i++) if (i < rbn && RBKEY(t, RBM[i]) == data) return RBM[i];
    return NULL;
}
parsec_rbtree_node_t *parsec_rbtree_find_or_larger(parsec_rbtree_t *t, int data)
{
    parsec_rbtree_node_t *best = NULL;
    for (int i = 0; i < MAXNODES; i++) if (i < rbn && RBKEY(t, RBM[i]) >= data && (best == NULL || RBKEY(t, RBM[i]) < RBKEY(t, best))) best = RBM[i];
    return best;
}
int parsec_rbtree_update_node(parsec_rbtree_t *t, parsec_rbtree_node_t *node, int newdata)
{
    int member = 0;
    for (int i = 0; i < MAXNODES; i++) if (i < rbn && RBM[i] == node) member = 1;
    if (!member) rb_contract_broken = 1;
    for (int i = 0; i < MAXNODES; i++) if (i < rbn && RBM[i] != node && RBKEY(t, RBM[i]) == newdata) return PARSEC_ERR_EXISTS;
    RBKEY(t, node) = newdata;
    return PARSEC_SUCCESS;
}
parsec_rbtree_node_t *parsec_rbtree_minimum(parsec_rbtree_t *t, parsec_rbtree_node_t *x) { (void)t; return x; }
void parsec_rbtree_foreach(parsec_rbtree_t *t, parsec_rbtree_visitor_cb *fn, void *cb)
{ for (int i = 0; i < MAXNODES; i++) if (i < rbn) fn(RBM[i], cb); (void)t; }

/* debug output used by zone_debug only (macro -> parsec_output_verbose): empty stub */
int parsec_debug_verbose, parsec_debug_rank, parsec_debug_colorize;
void parsec_output_verbose(int level, int id, const char *fmt, ...) { (void)level; (void)id; (void)fmt; }

#endif
