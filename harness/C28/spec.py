from vp.api import Q, Mutant
TITLE = "The zone allocator is a correct best-fit allocator"
ZM = "parsec/utils/zone_malloc.c"
OUTSIDE = []
ASSUMPTIONS = []
BOUNDS = {}
CLAIMED = False
MANIFEST = {}
OBJ = ["repo:parsec/class/parsec_object.c", "repo:parsec/class/parsec_list.c"]


def layouts(u):
    """every segmentation of u units into FULL(1)/EMPTY(0) segments without two adjacent EMPTY ones"""
    out = []

    def rec(rem, segs):
        if rem == 0:
            out.append(list(segs))
            return
        for sz in range(1, rem + 1):
            for full in (1, 0):
                if not full and segs and not segs[-1][1]:
                    continue
                segs.append((sz, full))
                rec(rem - sz, segs)
                segs.pop()
    rec(u, [])
    return out


def lname(lay):
    return "".join("%s%d" % ("F" if f else "e", s) for s, f in lay)


def queries(ctx):
    qs = []

    def q(name, u, ops, lay=None, forder=0, tiers=("quick", "thorough"), timeout=1800):
        k = len(ops)
        defs = ["U=%d" % u, "K=%d" % k, "MAXNODES=%d" % (u + 1), "OPSEQ=" + ",".join(str(o) for o in ops)]
        has_m, has_f = 0 in ops, 1 in ops
        if lay is None:
            if has_m:
                defs += ["W_SPLIT=1", "W_EXACT=1", "W_FAIL=1"]
            if has_f:
                defs += ["W_FREE=1", "W_MERGE=1"]
        else:
            defs += ["NSEG=%d" % len(lay), "SEGSZ=" + ",".join(str(s) for s, f in lay),
                     "SEGFULL=" + ",".join(str(f) for s, f in lay), "FORDER=%d" % forder]
            free = [s for s, f in lay if not f]
            n = len(lay)
            if has_m:
                defs.append("W_FAIL=1")
                if free:
                    defs.append("W_EXACT=1")
                if any(s >= 2 for s in free):
                    defs.append("W_SPLIT=1")
            if has_f and k == 1:
                defs.append("W_FREE=1")
                if any(lay[i][1] and ((i > 0 and not lay[i - 1][1]) or (i + 1 < n and not lay[i + 1][1])) for i in range(n)):
                    defs.append("W_MERGE=1")
                if any(lay[i][1] and 0 < i < n - 1 and not lay[i - 1][1] and not lay[i + 1][1] for i in range(n)):
                    defs.append("W_MERGE2=1")
        qs.append(Q(name, ["zh.c"] + OBJ, defs=defs, unwind=u + 3, unwindset=["expand_array.0:11"],
                    units=[ZM, "parsec/utils/zone_malloc.h"], object_bits=10, timeout=timeout, tiers=tiers, mem_gb=8, info={}))
    q("init_u3_MM", 3, (0, 0))
    q("init_u3_MF", 3, (0, 1))
    for lay in layouts(3):
        nfree = sum(1 for s, f in lay if not f)
        for fo in ((0, 1) if nfree >= 2 else (0,)):
            q("u3_%s_o%d_M" % (lname(lay), fo), 3, (0,), lay, fo)
            if any(f for s, f in lay):
                q("u3_%s_o%d_F" % (lname(lay), fo), 3, (1,), lay, fo)
    return qs


def mutants(ctx):
    return []
