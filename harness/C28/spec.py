from vp.api import Q, Mutant
TITLE = "The zone allocator is a correct best-fit allocator"
ZM = "parsec/utils/zone_malloc.c"
OUTSIDE = []
ASSUMPTIONS = []
BOUNDS = {}
CLAIMED = False
MANIFEST = {}
OBJ = ["repo:parsec/class/parsec_object.c", "repo:parsec/class/parsec_list.c", "repo:parsec/class/parsec_lifo.c"]

def queries(ctx):
    qs = []
    def hist(u, k, tiers=("quick", "thorough"), timeout=1800):
        qs.append(Q("hist_u%d_k%d" % (u, k), ["zh.c"] + OBJ, defs=["U=%d" % u, "K=%d" % k, "MAXNODES=%d" % (u + 1)], unwind=max(u, k) + 3, unwindset=["expand_array.0:11"],
                    units=[ZM, "parsec/utils/zone_malloc.h"], object_bits=10, timeout=timeout, tiers=tiers, mem_gb=8, slow=True, info={}))
    hist(3, 2)
    return qs

def mutants(ctx):
    return []
