from vp.api import Q, Mutant
TITLE = "The zone allocator is a correct best-fit allocator"
ZM = "parsec/utils/zone_malloc.c"
OUTSIDE = ["zones of more than U units and histories of more than K symbolic operations from a given start state",
           "states that differ from the enumerated start states only in the order of equal-sized free segments inside an index list beyond the two enumerated orders, "
           "in the number of retired index nodes, or in stale table entries inside segments (the start states are built by the real code through a canonical prefix)",
           "sizes >= 2^31 units (int nb_units), zone_free of an address that is not a live allocation (error message path), allocation failure of the index nodes",
           "concurrent callers (every entry point takes the zone lock; only 'lock released on every path' is checked)",
           "the red-black tree and the LIFO themselves: replaced by functional models of the contracts established by C36 and C30 (assume/guarantee)"]
ASSUMPTIONS = ["rbmodel.h: parsec_rbtree_* replaced by an array model implementing exactly the contract C36 proves for the real tree (node set updated exactly, find/find_or_larger = sorted key set, "
               "update_node returns EXISTS iff another node has the key and then changes nothing); the model also asserts that zone_malloc.c respects the tree's caller contract",
               "lifomodel.h: parsec_lifo_* replaced by a sequential stack model (the real pop goes through a union with __int128, which makes CBMC lose the popped node's identity)",
               "malloc stub: zone header, segment table and index nodes are static typed objects handed out by a malloc stub; the real object system (parsec_object.c, parsec_list.c) constructs them",
               "start states: zone_malloc_init followed by a concrete prefix run by the real code (fill the zone with NSEG allocations, free some): every segmentation of U units without two adjacent free segments is enumerated",
               "caller contract: zone_free is called once with the address of a live allocation"]
BOUNDS = {"quick": {"units": 3, "operations": "2 symbolic from init; 1 symbolic from each of the 13 segment layouts (x2 free orders)", "size": "any 0..(U+1)*16 bytes"},
          "thorough": {"units": "3 and 4", "operations": "2 from init; 1 from every layout (U=4: 34 layouts)", "size": "any 0..(U+1)*16 bytes"}}
CLAIMED = True
MANIFEST = {
 "engine": "cbmc-src",
 "text": "Bounded model checking of the real zone_malloc.c (real list.h and object system; red-black tree and LIFO replaced by functional models of the contracts that C36 and C30 establish).  For EVERY segmentation of a 3-unit zone into live and free segments (13 layouts, both orders of freeing; 4 units: two layouts in the quick tier, all 34 in the thorough tier), reached by running the real code on a concrete prefix, ONE symbolic operation is executed: zone_malloc of any byte size 0..(U+1)*16 or zone_free of any live block.  The solver shows: a returned address lies inside the zone, is unit aligned and overlaps no live allocation; NULL is returned only if the size is 0 or no free run of enough units exists; the block is carved from the start of a SMALLEST free run that fits (best fit); afterwards the segment table equals a ghost unit map, no two adjacent free segments exist (free coalesces with both neighbours), back pointers are right, the free-size index contains exactly the free run lengths with non-empty lists, zone_in_use equals the sum of live allocations, the lock is released, and zone_malloc.c respects the tree's caller contract.  Thorough tier adds two symbolic operations from zone_malloc_init.",
 "note": "Single steps from enumerated reachable layouts, not a fully symbolic inductive pre-state (see NOT_APPLICABLE.md: list code reaches the segment table through list-item pointers, CBMC then needs byte-level updates of the whole table; out of memory at 3 units).  Tree and LIFO are models (assume/guarantee with C36/C30); zone header, table and index nodes come from a malloc stub as static typed objects; sizes >= 2^31 units, invalid frees and concurrency outside.",
 "technique": "CBMC bounded symbolic execution of the real C unit from enumerated reachable states (concrete prefix folded by symbolic execution, one symbolic operation) + SAT (cadical); ghost unit map as oracle; functional models for the tree and the LIFO",
}
OBJ = ["repo:parsec/class/parsec_object.c", "repo:parsec/class/parsec_list.c"]


def layouts(u):
    """every segmentation of u units into FULL(1)/EMPTY(0) segments without two adjacent EMPTY ones"""
    out = []

    def rec(rem, segs):
        if rem == 0:
            out.append(list(segs))
            return
        for sz in range(1, rem + 1):
            for full in (1, 0):
                if not full and segs and not segs[-1][1]:
                    continue
                segs.append((sz, full))
                rec(rem - sz, segs)
                segs.pop()
    rec(u, [])
    return out


def lname(lay):
    return "".join("%s%d" % ("F" if f else "e", s) for s, f in lay)


def queries(ctx):
    qs = []

    def q(name, u, ops, lay=None, forder=0, tiers=("quick", "thorough"), timeout=1800, slow=False):
        k = len(ops)
        defs = ["U=%d" % u, "K=%d" % k, "MAXNODES=%d" % (u + 1), "OPSEQ=" + ",".join(str(o) for o in ops)]
        has_m, has_f = 0 in ops, 1 in ops
        if lay is None:
            if has_m:
                defs += ["W_SPLIT=1", "W_EXACT=1", "W_FAIL=1"]
            if has_f:
                defs += ["W_FREE=1", "W_MERGE=1"]
        else:
            defs += ["NSEG=%d" % len(lay), "SEGSZ=" + ",".join(str(s) for s, f in lay),
                     "SEGFULL=" + ",".join(str(f) for s, f in lay), "FORDER=%d" % forder]
            free = [s for s, f in lay if not f]
            n = len(lay)
            if has_m:
                defs.append("W_FAIL=1")
                if free:
                    defs.append("W_EXACT=1")
                # a split happens iff some request nb < s is served (best fit) by a run of size s
                if any(all(not (nb <= t < s) for t in free) for s in free for nb in range(1, s)):
                    defs.append("W_SPLIT=1")
            if has_f and k == 1:
                defs.append("W_FREE=1")
                if any(lay[i][1] and ((i > 0 and not lay[i - 1][1]) or (i + 1 < n and not lay[i + 1][1])) for i in range(n)):
                    defs.append("W_MERGE=1")
                if any(lay[i][1] and 0 < i < n - 1 and not lay[i - 1][1] and not lay[i + 1][1] for i in range(n)):
                    defs.append("W_MERGE2=1")
        qs.append(Q(name, ["zh.c"] + OBJ, defs=defs, unwind=u + 3, unwindset=["expand_array.0:11"],
                    units=[ZM, "parsec/utils/zone_malloc.h"], object_bits=10, timeout=timeout, tiers=tiers, mem_gb=8, slow=slow,
                    info={"symbolic": ["malloc: byte size 0..%d" % ((u + 1) * 16), "free: which live block", "everything the operation reads (table, lists, index) is the state built by the real code"],
                          "enumerated": ["units U=%d" % u, "start state: %s" % ("zone_malloc_init" if lay is None else "layout %s (F=live, e=free, sizes in units), frees in %s address order" % (lname(lay), "decreasing" if forder else "increasing")),
                                         "operation kinds: %s" % ",".join("free" if o else "malloc" for o in ops)],
                          "stubs": ["parsec_rbtree_* = rbmodel.h (contract of C36)", "parsec_lifo_* = lifomodel.h (sequential stack, contract of C30)", "malloc -> static typed objects", "parsec_output_verbose (empty)"],
                          "bounds": {"units": u, "symbolic operations": k, "unit size": 16},
                          "functions": ["zone_malloc_init", "zone_malloc", "zone_free", "zone_in_use", "allocate_chunk_list", "SEGMENT_AT_TID"]}))
    T = ("thorough",)
    # two symbolic operations from zone_malloc_init (every 2-step history of a fresh zone)
    q("init_u3_MM", 3, (0, 0), tiers=T, timeout=3400)
    q("init_u3_MF", 3, (0, 1), tiers=T, timeout=3400)
    # one symbolic operation from EVERY segment layout of 3 units
    for lay in layouts(3):
        nfree = sum(1 for s, f in lay if not f)
        for fo in ((0, 1) if nfree >= 2 else (0,)):
            q("u3_%s_o%d_M" % (lname(lay), fo), 3, (0,), lay, fo)
            if any(f for s, f in lay):
                q("u3_%s_o%d_F" % (lname(lay), fo), 3, (1,), lay, fo)
    # 4 units: two different free sizes exist only from 4 units on (best fit must pick the smaller run)
    quick4 = [[(1, 0), (1, 1), (2, 0)], [(2, 0), (1, 1), (1, 0)]]
    for lay in layouts(4):
        free = [s for s, f in lay if not f]
        tiers = ("quick", "thorough") if lay in quick4 else T
        # the order inside an index list only matters when two free segments have the same size (pop_front picks the first)
        orders = (0, 1) if len(free) != len(set(free)) else (0,)
        for fo in orders:
            q("u4_%s_o%d_M" % (lname(lay), fo), 4, (0,), lay, fo, tiers=tiers, timeout=3400)
        n4 = len(lay)
        mergeable = any(lay[i][1] and ((i > 0 and not lay[i - 1][1]) or (i + 1 < n4 and not lay[i + 1][1])) for i in range(n4))
        if mergeable and lay not in quick4:     # frees without a free neighbour are fully covered at 3 units
            q("u4_%s_o0_F" % lname(lay), 4, (1,), lay, 0, tiers=T, timeout=3400, slow=True)
    return qs


def mutants(ctx):
    return [
        Mutant("split_next_back_pointer_not_updated", ZM, "            next_segment->nb_prev -= nb_units;", "", queries=["u3_e2F1_o0_M"]),
        Mutant("free_merged_size_omits_next", ZM, "    if (NULL != next_segment && next_segment->status == SEGMENT_EMPTY)\n        merged_nb_units += next_segment->nb_units;", "", queries=["u3_e1F1e1_o0_F", "u3_e1F1e1_o1_F"]),
        Mutant("free_prev_merge_next_back_pointer", ZM, "            next_segment->nb_prev += prev_segment->nb_units;", "", queries=["u3_e1F1F1_o0_F"]),
        Mutant("malloc_keeps_old_segment_size", ZM, "        /* reduce size of current segment */\n        current_segment->nb_units = nb_units;", "", queries=["u3_e2F1_o0_M", "u3_e3_o0_M"]),
        Mutant("exact_fit_leaves_empty_index_node", ZM, "    } else if (fl_emptied) {\n        /* No split and the chunk-list is now empty: remove it. */", "    } else if (0) {", queries=["u3_e1F1F1_o0_M", "u3_e3_o0_M"]),
        Mutant("in_use_counts_segments_not_units", ZM, "            ret += gdata->unit_size * current_segment->nb_units;\n        }\n    }\n    parsec_atomic_unlock(&gdata->lock);\n    return ret;\n}\n\ntypedef struct zone_malloc_rbtree_debug_t",
               "            ret += gdata->unit_size;\n        }\n    }\n    parsec_atomic_unlock(&gdata->lock);\n    return ret;\n}\n\ntypedef struct zone_malloc_rbtree_debug_t", queries=["u3_F2e1_o0_M", "u3_F1F2_o0_M"]),
        Mutant("malloc_first_fit_from_larger", ZM, "    fl = (zone_malloc_chunk_list_t*) parsec_rbtree_find_or_larger(&gdata->rbtree, nb_units);",
               "    fl = (zone_malloc_chunk_list_t*) parsec_rbtree_find_or_larger(&gdata->rbtree, nb_units + 1); if (NULL == fl) fl = (zone_malloc_chunk_list_t*) parsec_rbtree_find(&gdata->rbtree, nb_units);",
               queries=["u4_e1F1e2_o0_M", "u4_e2F1e1_o0_M"]),
        Mutant("free_next_merge_following_back_pointer", ZM, "        if( NULL != next_segment ) {\n            next_segment->nb_prev = current_segment->nb_units;\n        }", "", queries=["u3_F1e1F1_o0_F"]),
    ]
