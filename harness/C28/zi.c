/* C28: zone allocator -- INDUCTIVE step: one zone_malloc / zone_free from EVERY valid zone of U units.
 *
 * Unit: the real parsec/utils/zone_malloc.c (included) + real list.h + real lifo.h; the red-black
 * tree is the functional model of rbmodel.h (= the contract C36 establishes for parsec_rbtree.c).
 * Pre-state (all static typed objects): the solver chooses where segments start and which are FULL
 * (no two adjacent EMPTY segments), the garbage in the table entries that are not segment starts,
 * the order of equal-sized free segments inside their chunk list, how many retired chunk-list nodes
 * sit in the free LIFO (0..2).  The same invariant (check_zone + check_lifo) is asserted afterwards,
 * so the step composes to operation histories of any length on a zone of U units.
 * Canonical naming of the chunk-list nodes (interchangeable objects): CL[0], CL[1] index the
 * smallest / second free size, the retired ones follow.
 * malloc stub: a fresh zone_malloc_chunk_list_t (PARSEC_OBJ_NEW when the LIFO is empty) is the
 * static typed object CLNEW; everything else (class constructor tables) comes from calloc.
 */
#include "vp_harness.h"
#include <stdlib.h>
static void *vp_malloc(size_t n);
#define malloc(n) vp_malloc(n)
#include "rbmodel.h"
#include "parsec/utils/zone_malloc.c"
#undef malloc

#ifndef U
#define U 4
#endif
#ifndef UNIT
#define UNIT 16
#endif
#define NCL 4
static char ARENA[U * UNIT + UNIT];
static segment_t SEG[U];
static zone_malloc_t Z;
static zone_malloc_chunk_list_t CL0, CL1, CL2, CL3, CLNEW;
static int clnew_used, malloc_bad;
static void *vp_malloc(size_t n)
{
    if (n == sizeof(zone_malloc_chunk_list_t)) { if (clnew_used++) malloc_bad = 1; return (void*)&CLNEW; }
    return calloc(1, n);
}

/* ---------- abstract pre-state ---------- */
static int start[U + 1], full[U], size_at[U], rank_[U];
static int owner[U];                  /* ghost unit map: 0 free, id (= start tid + 1) of the live allocation */
static int ntree, nlifo, fsz[2];      /* distinct free sizes (ascending) */

static zone_malloc_chunk_list_t *CLP(int j) { return j==0?&CL0:j==1?&CL1:j==2?&CL2:&CL3; }
static void list_init(parsec_list_t *l) { l->ghost_element.list_next = l->ghost_element.list_prev = &l->ghost_element; l->atomic_lock = PARSEC_ATOMIC_UNLOCKED; }

static void build(void)
{
    /* segment starts / status */
    for (int u = 0; u < U; u++) { start[u] = IN_BOOL(); full[u] = IN_BOOL(); rank_[u] = IN_RANGE(0, U - 1); }
    start[0] = 1; start[U] = 1;
    for (int u = 0; u < U; u++) { int l = 0, open = 1; for (int v = 0; v < U; v++) if (v >= u) { if (v > u && start[v]) open = 0; if (open) l++; } size_at[u] = l; }
    { int prev_empty = 0; for (int u = 0; u < U; u++) if (start[u]) { VASSUME(!(prev_empty && !full[u])); prev_empty = !full[u]; } }
    for (int u = 0; u < U; u++) { int s = u; for (int v = 0; v < U; v++) if (v <= u && start[v]) s = v; owner[u] = full[s] ? s + 1 : 0; }
    /* distinct free sizes (at most two for U <= 7) */
    ntree = 0; fsz[0] = fsz[1] = 0;
    for (int u = 0; u < U; u++) if (start[u] && !full[u]) {
        int s = size_at[u];
        if (ntree == 0) { fsz[0] = s; ntree = 1; }
        else if (ntree == 1) { if (s < fsz[0]) { fsz[1] = fsz[0]; fsz[0] = s; ntree = 2; } else if (s > fsz[0]) { fsz[1] = s; ntree = 2; } }
        else VASSUME(s == fsz[0] || s == fsz[1]);
    }
    /* equal-sized free segments: distinct ranks give the list order */
    for (int u = 0; u < U; u++) for (int v = u + 1; v < U; v++)
        if (start[u] && !full[u] && start[v] && !full[v] && size_at[u] == size_at[v]) VASSUME(rank_[u] != rank_[v]);
    /* ---- concretize ---- */
    Z.base = ARENA; Z.segments = SEG; Z.unit_size = UNIT; Z.max_segment = U; Z.next_tid = 0; Z.lock = PARSEC_ATOMIC_UNLOCKED;
    parsec_rbtree_init(&Z.rbtree, offsetof(zone_malloc_chunk_list_t, nb_units));
    for (int j = 0; j < NCL; j++) { list_init(&CLP(j)->list); CLP(j)->nb_units = 0; CLP(j)->super.super.list_next = CLP(j)->super.super.list_prev = &CLP(j)->super.super; }
    list_init(&CLNEW.list);
    { int prev = 1;
      for (int u = 0; u < U; u++) {
        segment_t *sg = &SEG[u];
        if (start[u]) { sg->status = full[u] ? SEGMENT_FULL : SEGMENT_EMPTY; sg->nb_units = size_at[u]; sg->nb_prev = prev; prev = size_at[u]; }
        else { sg->status = IN_RANGE(1, 3); sg->nb_units = IN_INT(); sg->nb_prev = IN_INT(); }     /* stale entry inside a segment */
        sg->super.list_next = sg->super.list_prev = &sg->super;
      } }
    for (int j = 0; j < 2; j++) if (j < ntree) {
        zone_malloc_chunk_list_t *fl = CLP(j);
        fl->nb_units = fsz[j];
        parsec_list_item_t *g = &fl->list.ghost_element;
        for (int u = 0; u < U; u++) if (start[u] && !full[u] && size_at[u] == fsz[j]) {
            /* successor / predecessor by rank among the segments of this size */
            int nx = -1, pv = -1;
            for (int v = 0; v < U; v++) if (v != u && start[v] && !full[v] && size_at[v] == fsz[j]) {
                if (rank_[v] > rank_[u] && (nx < 0 || rank_[v] < rank_[nx])) nx = v;
                if (rank_[v] < rank_[u] && (pv < 0 || rank_[v] > rank_[pv])) pv = v;
            }
            SEG[u].super.list_next = nx < 0 ? g : &SEG[nx].super;
            SEG[u].super.list_prev = pv < 0 ? g : &SEG[pv].super;
            if (pv < 0) g->list_next = &SEG[u].super;
            if (nx < 0) g->list_prev = &SEG[u].super;
        }
        parsec_rbtree_insert(&Z.rbtree, &fl->super);
    }
    /* retired nodes in the LIFO */
    nlifo = IN_RANGE(0, NCL - 2);
    Z.rbtree_free_list.alignment = PARSEC_LIFO_ALIGNMENT_DEFAULT;
    Z.rbtree_free_list.lifo_head.data.guard.counter = IN_INT();
    Z.rbtree_free_list.lifo_head.data.item = nlifo > 0 ? &CLP(ntree)->super.super : NULL;
    for (int j = 0; j < NCL; j++) if (j >= ntree && j < ntree + nlifo) {
        CLP(j)->nb_units = IN_INT();
        CLP(j)->super.super.list_next = (j + 1 < ntree + nlifo) ? &CLP(j + 1)->super.super : NULL;
    }
    rb_contract_broken = 0;
}

/* ---------- the invariant, read from the REAL data structure ---------- */
static int check_zone(zone_malloc_t *z)
{
    int tid = 0, nfree_runs = 0, prev_nb = 1, prev_empty = 0;
    for (int s = 0; s < U; s++) {
        if (tid >= U) break;
        segment_t *sg = &z->segments[tid];
        int nb = sg->nb_units;
        if (nb < 1 || tid + nb > U) return 0;
        if (sg->nb_prev != prev_nb) return 0;
        if (sg->status == SEGMENT_EMPTY) {
            if (prev_empty) return 0;
            for (int u = 0; u < U; u++) if (u >= tid && u < tid + nb && owner[u] != 0) return 0;
            zone_malloc_chunk_list_t *fl = (zone_malloc_chunk_list_t*)parsec_rbtree_find(&z->rbtree, nb);
            if (fl == NULL || fl->nb_units != nb) return 0;
            if (!parsec_list_nolock_contains(&fl->list, &sg->super)) return 0;
            nfree_runs++; prev_empty = 1;
        } else if (sg->status == SEGMENT_FULL) {
            int id = owner[tid];
            if (id == 0) return 0;
            for (int u = 0; u < U; u++) if (u >= tid && u < tid + nb && owner[u] != id) return 0;
            if (tid + nb < U && owner[tid + nb] == id) return 0;
            prev_empty = 0;
        } else return 0;
        prev_nb = nb; tid += nb;
    }
    if (tid != U) return 0;
    int indexed = 0;
    for (int i = 0; i < MAXNODES; i++) if (i < rbn) {
        zone_malloc_chunk_list_t *fl = (zone_malloc_chunk_list_t*)RBM[i];
        int cnt = 0;
        volatile parsec_list_item_t *it = fl->list.ghost_element.list_next, *pv = &fl->list.ghost_element;
        for (int s = 0; s < U + 1; s++) {
            if (it == &fl->list.ghost_element) break;
            segment_t *sg = (segment_t*)it;
            if (sg < z->segments || sg >= z->segments + U) return 0;
            if (sg->status != SEGMENT_EMPTY || sg->nb_units != fl->nb_units) return 0;
            if (it->list_prev != pv) return 0;
            cnt++; pv = it; it = it->list_next;
        }
        if (it != &fl->list.ghost_element || fl->list.ghost_element.list_prev != pv) return 0;
        if (cnt == 0) return 0;
        indexed += cnt;
    }
    if (indexed != nfree_runs) return 0;
    return 1;
}
static int is_cl(volatile void *p) { for (int j = 0; j < NCL; j++) if (p == (void*)CLP(j)) return 1; return p == (void*)&CLNEW; }
/* retired nodes: distinct known chunk lists, not in the tree, with an EMPTY list, NULL terminated */
static int check_lifo(zone_malloc_t *z)
{
    volatile parsec_list_item_t *it = z->rbtree_free_list.lifo_head.data.item;
    volatile parsec_list_item_t *seen[NCL + 2]; int n = 0;
    for (int s = 0; s < NCL + 2; s++) {
        if (it == NULL) break;
        if (!is_cl(it)) return 0;
        zone_malloc_chunk_list_t *fl = (zone_malloc_chunk_list_t*)it;
        for (int i = 0; i < MAXNODES; i++) if (i < rbn && RBM[i] == &fl->super) return 0;
        for (int i = 0; i < NCL + 2; i++) if (i < n && seen[i] == it) return 0;
        if (fl->list.ghost_element.list_next != &fl->list.ghost_element || fl->list.ghost_element.list_prev != &fl->list.ghost_element) return 0;
        if (n < NCL + 2) seen[n++] = it;
        it = it->list_next;
    }
    return it == NULL;
}
static int run_len_at(int tid) { int l = 0, open = 1; for (int u = 0; u < U; u++) if (u >= tid && open) { if (owner[u] != 0) open = 0; else l++; } return l; }
static int is_run_start(int tid) { return owner[tid] == 0 && (tid == 0 || owner[tid - 1] != 0); }

#define OP_MALLOC 0
#define OP_FREE 1
#define OP_INUSE 2

int main(void)
{
    int w1 = 0, w2 = 0, w3 = 0;
    build();
    VASSERTM(check_zone(&Z) && check_lifo(&Z), "closure: the constructed pre-state satisfies the invariant that is asserted after the operation");
    int nseg = 0, nfreeseg = 0; for (int u = 0; u < U; u++) if (start[u]) { nseg++; if (!full[u]) nfreeseg++; }
#if OP == OP_MALLOC
    int size = IN_RANGE(0, (U + 1) * UNIT);
    int nb = (size + UNIT - 1) / UNIT;
    int best = 0, fits = 0;
    for (int t = 0; t < U; t++) if (is_run_start(t)) { int l = run_len_at(t); if (l >= nb && (!fits || l < best)) { best = l; fits = 1; } }
    int ntree0 = ntree, nlifo0 = nlifo;
    char *p = (char*)zone_malloc(&Z, (size_t)size);
    int split = 0;
    if (p == NULL) {
        VASSERTM(nb == 0 || !fits, "malloc: NULL only if the size is 0 or no free run of enough units exists");
    } else {
        long off = p - ARENA;
        VASSERTM(nb > 0 && fits, "malloc: succeeds only if a free run of enough units exists");
        VASSERTM(off >= 0 && off % UNIT == 0 && off / UNIT + nb <= U, "malloc: address inside the zone and unit aligned");
        int tid = (int)(off / UNIT);
        VASSUME(tid >= 0 && tid < U);           /* (established by the assertion above) */
        int clash = 0; for (int u = 0; u < U; u++) if (u >= tid && u < tid + nb && owner[u] != 0) clash = 1;
        VASSERTM(!clash, "malloc: does not overlap a live allocation");
        VASSERTM(is_run_start(tid) && run_len_at(tid) == best, "malloc: best fit -- carved from the start of a smallest free run that fits");
        split = run_len_at(tid) > nb;
        for (int u = 0; u < U; u++) if (u >= tid && u < tid + nb) owner[u] = tid + 1;
    }
    w1 = (p != NULL && split && ntree0 == 2 && nfreeseg >= 2); w2 = (p == NULL && nb > 0 && nfreeseg >= 1); w3 = (p != NULL && !split && nlifo0 == 0);
#define W1 "malloc splits a segment while two free sizes are indexed"
#define W2 "malloc fails although something is free"
#define W3 "exact fit"
#elif OP == OP_FREE
    int t = IN_RANGE(0, U - 1);
    VASSUME(start[t] && full[t]);               /* contract: the address of a live allocation */
    int nbt = size_at[t];
    int mprev = (t > 0 && owner[t - 1] == 0), mnext = (t + nbt < U && owner[t + nbt] == 0);
    zone_free(&Z, ARENA + (long)t * UNIT);
    for (int u = 0; u < U; u++) if (u >= t && u < t + nbt) owner[u] = 0;
    w1 = (mprev && mnext); w2 = (!mprev && !mnext && nseg >= 3); w3 = (mprev && !mnext && nlifo == 0 && ntree == 2);
#define W1 "free merges with both neighbours"
#define W2 "free without merging"
#define W3 "free merges with the previous segment only"
#elif OP == OP_INUSE
    w1 = (nseg >= 3);
#define W1 "in_use over >=3 segments"
#else
#error "OP"
#endif
    VASSERTM(check_zone(&Z), "after the operation: segment table = ghost map, no two adjacent free segments, back pointers right, free-size index exact");
    VASSERTM(check_lifo(&Z), "after the operation: retired chunk-list nodes are distinct, out of the tree, with empty lists");
    { size_t used = 0; for (int u = 0; u < U; u++) if (owner[u] != 0) used += UNIT;
      VASSERTM(zone_in_use(&Z) == used, "zone_in_use = sum of the live allocations"); }
    VASSERTM(Z.lock == PARSEC_ATOMIC_UNLOCKED, "zone lock released");
    VASSERTM(!rb_contract_broken, "zone_malloc.c respects the red-black tree's caller contract (insert absent node+key, remove/update members)");
    VASSERTM(!rb_overflow && !malloc_bad, "harness: tree model / malloc stub capacity sufficient");
    if (w1) VWITNESS(W1);
#ifdef W2
    if (w2) VWITNESS(W2);
#endif
#ifdef W3
    if (w3) VWITNESS(W3);
#endif
    return 0;
}
