/* C28: zone allocator -- histories of K symbolic operations from zone_malloc_init.
 *
 * Unit: the real parsec/utils/zone_malloc.c (included) with the real list.h, lifo.h and the real
 * object system (parsec_object.c, parsec_list.c, parsec_lifo.c linked).  The red-black tree is
 * replaced by a FUNCTIONAL MODEL (unordered array of node pointers) that implements exactly the
 * contract C36 establishes for the real parsec_rbtree.c: insert adds an absent node with an absent
 * key, remove deletes a member, find / find_or_larger answer like the sorted key set, update_node
 * returns PARSEC_ERR_EXISTS iff another node carries the key (then changes nothing) and otherwise
 * stores the key.  The model also CHECKS that zone_malloc.c respects the tree's caller contract.
 *
 * Oracle: a ghost unit map (owner[u] = id of the live allocation covering unit u, 0 = free).
 */
#include "vp_harness.h"
#include "parsec/parsec_config.h"
#include "parsec/constants.h"
#include "parsec/class/parsec_rbtree.h"

/* ---------------- functional model of parsec_rbtree.c ---------------- */
#ifndef MAXNODES
#define MAXNODES 6
#endif
static parsec_rbtree_node_t *RBM[MAXNODES]; static int rbn; static int rb_contract_broken, rb_overflow;
static inline void parsec_rbtree_node_construct(parsec_rbtree_node_t *item) { item->color = PARSEC_RBTREE_BLACK; }
PARSEC_OBJ_CLASS_INSTANCE(parsec_rbtree_node_t, parsec_list_item_t, parsec_rbtree_node_construct, NULL);
#define RBKEY(t, n) COMPARISON_VAL((n), (t)->comp_offset)
static void rb_setroot(parsec_rbtree_t *t) { t->root = rbn > 0 ? RBM[0] : t->nil; }
void parsec_rbtree_init(parsec_rbtree_t *t, size_t off)
{ t->nil = &t->nil_element; t->nil_element.color = PARSEC_RBTREE_BLACK; t->comp_offset = off; rbn = 0; rb_setroot(t); }
void parsec_rbtree_fini(parsec_rbtree_t *t) { t->nil = NULL; t->root = NULL; t->comp_offset = 0; }
void parsec_rbtree_insert(parsec_rbtree_t *t, parsec_rbtree_node_t *node)
{
    for (int i = 0; i < MAXNODES; i++) if (i < rbn && (RBM[i] == node || RBKEY(t, RBM[i]) == RBKEY(t, node))) rb_contract_broken = 1;
    if (rbn >= MAXNODES) { rb_overflow = 1; return; }
    RBM[rbn++] = node; rb_setroot(t);
}
void parsec_rbtree_remove(parsec_rbtree_t *t, parsec_rbtree_node_t *z)
{
    int at = -1;
    for (int i = 0; i < MAXNODES; i++) if (i < rbn && RBM[i] == z) at = i;
    if (at < 0) { rb_contract_broken = 1; return; }
    for (int i = 0; i + 1 < MAXNODES; i++) if (i >= at && i + 1 < rbn) RBM[i] = RBM[i + 1];
    rbn--; rb_setroot(t);
}
parsec_rbtree_node_t *parsec_rbtree_find(parsec_rbtree_t *t, int data)
{
    for (int i = 0; i < MAXNODES; i++) if (i < rbn && RBKEY(t, RBM[i]) == data) return RBM[i];
    return NULL;
}
parsec_rbtree_node_t *parsec_rbtree_find_or_larger(parsec_rbtree_t *t, int data)
{
    parsec_rbtree_node_t *best = NULL;
    for (int i = 0; i < MAXNODES; i++) if (i < rbn && RBKEY(t, RBM[i]) >= data && (best == NULL || RBKEY(t, RBM[i]) < RBKEY(t, best))) best = RBM[i];
    return best;
}
int parsec_rbtree_update_node(parsec_rbtree_t *t, parsec_rbtree_node_t *node, int newdata)
{
    int member = 0;
    for (int i = 0; i < MAXNODES; i++) if (i < rbn && RBM[i] == node) member = 1;
    if (!member) rb_contract_broken = 1;
    for (int i = 0; i < MAXNODES; i++) if (i < rbn && RBM[i] != node && RBKEY(t, RBM[i]) == newdata) return PARSEC_ERR_EXISTS;
    RBKEY(t, node) = newdata;
    return PARSEC_SUCCESS;
}
parsec_rbtree_node_t *parsec_rbtree_minimum(parsec_rbtree_t *t, parsec_rbtree_node_t *x) { (void)t; return x; }
void parsec_rbtree_foreach(parsec_rbtree_t *t, parsec_rbtree_visitor_cb *fn, void *cb)
{ for (int i = 0; i < MAXNODES; i++) if (i < rbn) fn(RBM[i], cb); (void)t; }

/* debug output used by zone_debug only (macro -> parsec_output_verbose): empty stub */
int parsec_debug_verbose, parsec_debug_rank, parsec_debug_colorize;
void parsec_output_verbose(int level, int id, const char *fmt, ...) { (void)level; (void)id; (void)fmt; }

#include "parsec/utils/zone_malloc.c"

/* ---------------- harness ---------------- */
#ifndef U
#define U 3             /* units in the zone */
#endif
#ifndef K
#define K 2             /* operations */
#endif
#ifndef UNIT
#define UNIT 16
#endif
static char ARENA[U * UNIT + UNIT];
static int owner[U];             /* ghost: 0 = free, id = live allocation */
static int live_tid[K + 1], live_nb[K + 1], live_on[K + 1];

/* longest-run helpers on the ghost map */
static int run_len_at(int tid) { int l = 0; for (int u = 0; u < U; u++) if (u >= tid) { if (owner[u] != 0) break; l++; } return l; }
static int is_run_start(int tid) { return owner[tid] == 0 && (tid == 0 || owner[tid - 1] != 0); }

/* invariant of the real data structure against the ghost map */
static int check_zone(zone_malloc_t *z)
{
    int tid = 0, nfree_runs = 0, prev_nb = 1, prev_empty = 0;
    for (int s = 0; s < U; s++) {
        if (tid >= U) break;
        segment_t *sg = &z->segments[tid];
        int nb = sg->nb_units;
        if (nb < 1 || tid + nb > U) return 0;
        if (sg->nb_prev != prev_nb) return 0;                     /* back pointer = size of the previous segment (1 for the head) */
        if (sg->status == SEGMENT_EMPTY) {
            if (prev_empty) return 0;                             /* adjacent free segments must have been merged */
            for (int u = 0; u < U; u++) if (u >= tid && u < tid + nb && owner[u] != 0) return 0;
            /* indexed: exactly one tree node with this size, and the segment is on its list */
            zone_malloc_chunk_list_t *fl = (zone_malloc_chunk_list_t*)parsec_rbtree_find(&z->rbtree, nb);
            if (fl == NULL || fl->nb_units != nb) return 0;
            if (!parsec_list_nolock_contains(&fl->list, &sg->super)) return 0;
            nfree_runs++; prev_empty = 1;
        } else if (sg->status == SEGMENT_FULL) {
            int id = owner[tid];
            if (id == 0) return 0;
            for (int u = 0; u < U; u++) if (u >= tid && u < tid + nb && owner[u] != id) return 0;
            if (tid + nb < U && owner[tid + nb] == id) return 0;
            prev_empty = 0;
        } else return 0;
        prev_nb = nb; tid += nb;
    }
    if (tid != U) return 0;
    /* the index holds nothing else: every tree node has a non-empty list whose members are free segments of that size */
    int indexed = 0;
    for (int i = 0; i < MAXNODES; i++) if (i < rbn) {
        zone_malloc_chunk_list_t *fl = (zone_malloc_chunk_list_t*)RBM[i];
        int cnt = 0;
        volatile parsec_list_item_t *it = fl->list.ghost_element.list_next;
        for (int s = 0; s < U + 1; s++) {
            if (it == &fl->list.ghost_element) break;
            segment_t *sg = (segment_t*)it;
            if (sg < z->segments || sg >= z->segments + U) return 0;
            if (sg->status != SEGMENT_EMPTY || sg->nb_units != fl->nb_units) return 0;
            cnt++; it = it->list_next;
        }
        if (it != &fl->list.ghost_element) return 0;
        if (cnt == 0) return 0;
        indexed += cnt;
    }
    if (indexed != nfree_runs) return 0;
    return 1;
}

int main(void)
{
    zone_malloc_t *z = zone_malloc_init(ARENA, U, UNIT);
    VASSERTM(z != NULL, "init succeeds");
    VASSERTM(check_zone(z), "init: one free segment covering the zone, indexed under its size");
    VASSERTM(zone_in_use(z) == 0, "init: nothing in use");
    int nmalloc_ok = 0, nfree = 0, nfail = 0, nsplit = 0, nmerge = 0;
    for (int step = 0; step < K; step++) {
        int do_free = IN_BOOL();
        if (!do_free) {
            int size = IN_RANGE(0, (U + 1) * UNIT);
            int nb = (size + UNIT - 1) / UNIT;
            /* expected best fit on the ghost map */
            int best = 0, fits = 0;
            for (int t = 0; t < U; t++) if (is_run_start(t)) { int l = run_len_at(t); if (l >= nb && (!fits || l < best)) { best = l; fits = 1; } }
            char *p = (char*)zone_malloc(z, (size_t)size);
            if (p == NULL) {
                VASSERTM(nb == 0 || !fits, "malloc: NULL only if the size is 0 or no free run of enough units exists");
                nfail++;
            } else {
                long off = p - ARENA;
                VASSERTM(nb > 0 && fits, "malloc: succeeds only if a free run of enough units exists");
                VASSERTM(off >= 0 && off % UNIT == 0 && off / UNIT + nb <= U, "malloc: address inside the zone and unit aligned");
                int tid = (int)(off / UNIT);
                int clash = 0; for (int u = 0; u < U; u++) if (u >= tid && u < tid + nb && owner[u] != 0) clash = 1;
                VASSERTM(!clash, "malloc: does not overlap a live allocation");
                VASSERTM(is_run_start(tid) && run_len_at(tid) == best, "malloc: best fit -- carved from the start of a smallest free run that fits");
                if (run_len_at(tid) > nb) nsplit++;
                for (int u = 0; u < U; u++) if (u >= tid && u < tid + nb) owner[u] = step + 1;
                live_tid[step] = tid; live_nb[step] = nb; live_on[step] = 1; nmalloc_ok++;
            }
        } else {
            int which = IN_RANGE(0, K - 1);
            VASSUME(which < step && live_on[which]);       /* contract: free a live block, once */
            int tid = live_tid[which], nb = live_nb[which];
            if ((tid > 0 && owner[tid - 1] == 0) || (tid + nb < U && owner[tid + nb] == 0)) nmerge++;
            zone_free(z, ARENA + (long)tid * UNIT);
            for (int u = 0; u < U; u++) if (u >= tid && u < tid + nb) owner[u] = 0;
            live_on[which] = 0; nfree++;
        }
        VASSERTM(check_zone(z), "after each operation: segment table = ghost map, no two adjacent free segments, back pointers right, free-size index exact");
        { size_t used = 0; for (int u = 0; u < U; u++) if (owner[u] != 0) used += UNIT;
          VASSERTM(zone_in_use(z) == used, "zone_in_use = sum of the live allocations"); }
        VASSERTM(z->lock == PARSEC_ATOMIC_UNLOCKED, "zone lock released");
    }
    VASSERTM(!rb_contract_broken, "zone_malloc.c respects the red-black tree's caller contract (insert absent node+key, remove/update members)");
    VASSERTM(!rb_overflow, "harness: tree model capacity sufficient");
    if (nmalloc_ok == K && nsplit >= 1) VWITNESS("two allocations, at least one split");
    if (nfree >= 1 && nmerge >= 1) VWITNESS("a free that merges with a free neighbour");
    if (nfail >= 1 && nmalloc_ok >= 1) VWITNESS("an allocation fails for lack of space after a successful one");
    return 0;
}
