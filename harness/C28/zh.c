/* C28: zone allocator -- K symbolic operations from a REACHABLE zone state.
 *
 * Unit: the real parsec/utils/zone_malloc.c (included) with the real list.h and the real object
 * system (parsec_object.c, parsec_list.c linked); the LIFO of retired index nodes is the sequential
 * model of lifomodel.h (see there).  The red-black tree is
 * replaced by the functional model of rbmodel.h (= the contract C36 establishes for the real
 * parsec_rbtree.c; the model also CHECKS that zone_malloc.c respects the tree's caller contract).
 *
 * Start state: zone_malloc_init, followed by a CONCRETE prefix executed by the real code (symbolic
 * execution folds it to constants): the zone is filled with NSEG allocations of SEGSZ[i] units and
 * those with SEGFULL[i]==0 are freed again (FORDER: in increasing / decreasing address order), which
 * reaches the segment layout chosen by spec.py (every layout of U units without two adjacent free
 * segments is enumerated there).  Then K operations are SYMBOLIC: zone_malloc of any byte size
 * 0..(U+1)*UNIT or zone_free of any live block.
 * Why not a fully symbolic (inductive) pre-state as for C36/C31: list code reaches the segments as
 * parsec_list_item_t* pointing INTO the segment_t array; with a symbolic table every such access
 * becomes a byte_update of the whole array at a symbolic offset (measured: out of memory at 8 GB for
 * 3 units, harness zi.c kept for reference).
 *
 * Oracle: a ghost unit map (owner[u] = id of the live allocation covering unit u, 0 = free).
 * malloc stub: zone_malloc_init / PARSEC_OBJ_NEW get STATIC TYPED objects (zone header, segment
 * table, chunk-list nodes); the object system's own tables come from calloc.
 */
#include "vp_harness.h"
#include <stdlib.h>
static void *vp_malloc(size_t n);
#define malloc(n) vp_malloc(n)
#include "lifomodel.h"
#include "rbmodel.h"
#include "parsec/utils/zone_malloc.c"
#undef malloc

/* ---------------- harness ---------------- */
#ifndef U
#define U 3             /* units in the zone */
#endif
#ifndef K
#define K 2             /* operations */
#endif
#ifndef UNIT
#define UNIT 16
#endif
static char ARENA[U * UNIT + UNIT];
static int owner[U];             /* ghost: 0 = free, id = live allocation */
static zone_malloc_t ZS; static segment_t SEGS[U];
static zone_malloc_chunk_list_t CLS0, CLS1, CLS2, CLS3, CLS4, CLS5;
static int n_z, n_seg, n_cl, malloc_bad;
static void *vp_malloc(size_t n)
{
    if (n == sizeof(zone_malloc_t)) { if (n_z++) malloc_bad = 1; return (void*)&ZS; }
    if (n == sizeof(segment_t) * U) { if (n_seg++) malloc_bad = 1; return (void*)SEGS; }
    if (n == sizeof(zone_malloc_chunk_list_t)) {
        int k = n_cl++;
        if (k > 5) malloc_bad = 1;
        return (void*)(k==0?&CLS0:k==1?&CLS1:k==2?&CLS2:k==3?&CLS3:k==4?&CLS4:&CLS5);
    }
    return calloc(1, n);
}

/* longest-run helpers on the ghost map */
static int run_len_at(int tid) { int l = 0; for (int u = 0; u < U; u++) if (u >= tid) { if (owner[u] != 0) break; l++; } return l; }
static int is_run_start(int tid) { return owner[tid] == 0 && (tid == 0 || owner[tid - 1] != 0); }

/* invariant of the real data structure against the ghost map */
static int check_zone(zone_malloc_t *z)
{
    int tid = 0, nfree_runs = 0, prev_nb = 1, prev_empty = 0;
    for (int s = 0; s < U; s++) {
        if (tid >= U) break;
        segment_t *sg = &z->segments[tid];
        int nb = sg->nb_units;
        if (nb < 1 || tid + nb > U) return 0;
        if (sg->nb_prev != prev_nb) return 0;                     /* back pointer = size of the previous segment (1 for the head) */
        if (sg->status == SEGMENT_EMPTY) {
            if (prev_empty) return 0;                             /* adjacent free segments must have been merged */
            for (int u = 0; u < U; u++) if (u >= tid && u < tid + nb && owner[u] != 0) return 0;
            /* indexed: exactly one tree node with this size, and the segment is on its list */
            zone_malloc_chunk_list_t *fl = (zone_malloc_chunk_list_t*)parsec_rbtree_find(&z->rbtree, nb);
            if (fl == NULL || fl->nb_units != nb) return 0;
            if (!parsec_list_nolock_contains(&fl->list, &sg->super)) return 0;
            nfree_runs++; prev_empty = 1;
        } else if (sg->status == SEGMENT_FULL) {
            int id = owner[tid];
            if (id == 0) return 0;
            for (int u = 0; u < U; u++) if (u >= tid && u < tid + nb && owner[u] != id) return 0;
            if (tid + nb < U && owner[tid + nb] == id) return 0;
            prev_empty = 0;
        } else return 0;
        prev_nb = nb; tid += nb;
    }
    if (tid != U) return 0;
    /* the index holds nothing else: every tree node has a non-empty list whose members are free segments of that size */
    int indexed = 0;
    for (int i = 0; i < MAXNODES; i++) if (i < rbn) {
        zone_malloc_chunk_list_t *fl = (zone_malloc_chunk_list_t*)RBM[i];
        int cnt = 0;
        volatile parsec_list_item_t *it = fl->list.ghost_element.list_next;
        for (int s = 0; s < U + 1; s++) {
            if (it == &fl->list.ghost_element) break;
            segment_t *sg = (segment_t*)it;
            if (sg < z->segments || sg >= z->segments + U) return 0;
            if (sg->status != SEGMENT_EMPTY || sg->nb_units != fl->nb_units) return 0;
            cnt++; it = it->list_next;
        }
        if (it != &fl->list.ghost_element) return 0;
        if (cnt == 0) return 0;
        indexed += cnt;
    }
    if (indexed != nfree_runs) return 0;
    return 1;
}

int main(void)
{
    zone_malloc_t *z = zone_malloc_init(ARENA, U, UNIT);
    VASSERTM(z != NULL, "init succeeds");
    VASSERTM(check_zone(z), "init: one free segment covering the zone, indexed under its size");
    VASSERTM(zone_in_use(z) == 0, "init: nothing in use");
#ifdef NSEG
    {   /* concrete prefix: reach the layout chosen by spec.py with the real code */
        static const int segsz[NSEG] = { SEGSZ }, segfull[NSEG] = { SEGFULL };
        char *pp[NSEG]; int t = 0;
        for (int i = 0; i < NSEG; i++) {
            pp[i] = (char*)zone_malloc(z, (size_t)segsz[i] * UNIT);
            VASSERTM(pp[i] == ARENA + (long)t * UNIT, "prefix: sequential allocations are contiguous");
            for (int u = 0; u < U; u++) if (u >= t && u < t + segsz[i]) owner[u] = i + 1;
            t += segsz[i];
        }
        for (int j = 0; j < NSEG; j++) {
            int i = FORDER ? NSEG - 1 - j : j;
            if (!segfull[i]) { zone_free(z, pp[i]); for (int u = 0; u < U; u++) if (owner[u] == i + 1) owner[u] = 0; }
        }
        VASSERTM(check_zone(z), "prefix: the reached state satisfies the invariant");
    }
#endif
    int nmalloc_ok = 0, nfree = 0, nfail = 0, nsplit = 0, nmerge = 0, nexact = 0, nmerge2 = 0;
    for (int step = 0; step < K; step++) {
#ifdef OPSEQ
        static const int opseq[K] = { OPSEQ };      /* operation kinds enumerated by spec.py: 0 = malloc, 1 = free */
        int do_free = opseq[step];
#else
        int do_free = IN_BOOL();
#endif
        if (!do_free) {
            int size = IN_RANGE(0, (U + 1) * UNIT);
            int nb = (size + UNIT - 1) / UNIT;
            /* expected best fit on the ghost map */
            int best = 0, fits = 0;
            for (int t = 0; t < U; t++) if (is_run_start(t)) { int l = run_len_at(t); if (l >= nb && (!fits || l < best)) { best = l; fits = 1; } }
            char *p = (char*)zone_malloc(z, (size_t)size);
            if (p == NULL) {
                VASSERTM(nb == 0 || !fits, "malloc: NULL only if the size is 0 or no free run of enough units exists");
                nfail++;
            } else {
                long off = p - ARENA;
                VASSERTM(nb > 0 && fits, "malloc: succeeds only if a free run of enough units exists");
                VASSERTM(off >= 0 && off % UNIT == 0 && off / UNIT + nb <= U, "malloc: address inside the zone and unit aligned");
                int tid = (int)(off / UNIT);
                VASSUME(tid >= 0 && tid < U);       /* established by the assertion above */
                int clash = 0; for (int u = 0; u < U; u++) if (u >= tid && u < tid + nb && owner[u] != 0) clash = 1;
                VASSERTM(!clash, "malloc: does not overlap a live allocation");
                VASSERTM(is_run_start(tid) && run_len_at(tid) == best, "malloc: best fit -- carved from the start of a smallest free run that fits");
                if (run_len_at(tid) > nb) nsplit++; else nexact++;
                for (int u = 0; u < U; u++) if (u >= tid && u < tid + nb) owner[u] = 100 + step;
                nmalloc_ok++;
            }
        } else {
            int tid = IN_RANGE(0, U - 1);
            /* contract: the address of a live allocation (its first unit) */
            VASSUME(owner[tid] != 0 && (tid == 0 || owner[tid - 1] != owner[tid]));
            int id = owner[tid], nb = 0;
            for (int u = 0; u < U; u++) if (owner[u] == id) nb++;
            int mp = (tid > 0 && owner[tid - 1] == 0), mn = (tid + nb < U && owner[tid + nb] == 0);
            if (mp || mn) nmerge++;
            if (mp && mn) nmerge2++;
            zone_free(z, ARENA + (long)tid * UNIT);
            for (int u = 0; u < U; u++) if (owner[u] == id) owner[u] = 0;
            nfree++;
        }
        VASSERTM(check_zone(z), "after each operation: segment table = ghost map, no two adjacent free segments, back pointers right, free-size index exact");
        { size_t used = 0; for (int u = 0; u < U; u++) if (owner[u] != 0) used += UNIT;
          VASSERTM(zone_in_use(z) == used, "zone_in_use = sum of the live allocations"); }
        VASSERTM(z->lock == PARSEC_ATOMIC_UNLOCKED, "zone lock released");
    }
    VASSERTM(!rb_contract_broken, "zone_malloc.c respects the red-black tree's caller contract (insert absent node+key, remove/update members)");
    VASSERTM(!rb_overflow && !malloc_bad, "harness: tree model / malloc stub capacity sufficient");
#if defined(W_SPLIT)
    if (nsplit >= 1) VWITNESS("an allocation that splits a free segment");
#endif
#if defined(W_EXACT)
    if (nexact >= 1) VWITNESS("an exact-fit allocation");
#endif
#if defined(W_FAIL)
    if (nfail >= 1) VWITNESS("an allocation that fails");
#endif
#if defined(W_MERGE)
    if (nmerge >= 1) VWITNESS("a free that merges with a free neighbour");
#endif
#if defined(W_MERGE2)
    if (nmerge2 >= 1) VWITNESS("a free that merges with both neighbours");
#endif
#if defined(W_FREE)
    if (nfree >= 1) VWITNESS("a free");
#endif
    if (nmalloc_ok + nfree + nfail == K) VWITNESS("K operations executed");
    return 0;
}
