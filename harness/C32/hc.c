/* C32 (concurrent half, Engine S): the real parsec_hash_table.c + parsec_rwlock.c under symbolic
 * interleavings: 2 threads x 1-2 operations around a resize / a migration from an old table.
 * setup() builds the initial table with the real API (sequentially); the thread entries call the real
 * functions (everything directly called is inlined, yields before every shared access; key_functions.*
 * are indirect calls and run atomically); check() abstracts the final table with the same scan/INV as the
 * sequential half (ht_common.h) and asserts per scenario that every result equals the result of SOME
 * sequential order of the operations and that the final contents equal the map model.
 * The drain phase of the generated scheduler asserts that both threads complete (no deadlock between the
 * table rwlock, top-level bucket locks and old-table bucket locks). */
#include "ht_common.h"

#ifndef SCEN
#define SCEN 1
#endif
static void *r[4];                 /* operation results, program order per thread (T0: r[0..1], T1: r[2..3]) */
static int ins[2];                 /* find-or-insert: thread t inserted */
static int done[2];

static void table_init(int hint)
{
    hash_tables();
    ht.max_collisions_hint = hint; ht.max_table_nb_bits = MAXBITS;
    parsec_hash_table_init(&ht, offsetof(elt_t, hi), 1, parsec_hash_table_generic_key_fn, NULL);
    E0.hi.key = (parsec_key_t)KEY0; E1.hi.key = (parsec_key_t)KEY1; E2.hi.key = (parsec_key_t)KEY2; E3.hi.key = (parsec_key_t)KEY3;
}
static inline void find_or_insert(int t, elt_t *mine, parsec_key_t key)
{
    parsec_key_handle_t kh;
    parsec_hash_table_lock_bucket_handle(&ht, key, &kh);
    void *f = parsec_hash_table_nolock_find_handle(&ht, &kh);
    if(NULL == f) { parsec_hash_table_nolock_insert_handle(&ht, &kh, &mine->hi); ins[t] = 1; f = mine; }
    parsec_hash_table_unlock_bucket_handle(&ht, &kh);
    r[2 * t] = f;
}

#if SCEN == 1   /* L0 = {k0}, hint 1.  T0: insert(k1) (collides: bucket length 2 > 1 -> resize)   T1: find(k0); remove(k0) */
void setup(void){ table_init(1); parsec_hash_table_insert(&ht, &E0.hi); }
void thread0(void){ parsec_hash_table_insert(&ht, &E1.hi); done[0] = 1; }
void thread1(void){ r[2] = parsec_hash_table_find(&ht, (parsec_key_t)KEY0); r[3] = parsec_hash_table_remove(&ht, (parsec_key_t)KEY0); done[1] = 1; }
#elif SCEN == 2 /* old L0 = {k0,k2} (same bucket), top L1 empty.  T0: find(k0) (migrates)   T1: remove(k2) (from the old bucket) */
void setup(void){ table_init(1); parsec_hash_table_insert(&ht, &E0.hi); parsec_hash_table_insert(&ht, &E2.hi); }
void thread0(void){ r[0] = parsec_hash_table_find(&ht, (parsec_key_t)KEY0); done[0] = 1; }
void thread1(void){ r[2] = parsec_hash_table_remove(&ht, (parsec_key_t)KEY2); done[1] = 1; }
#elif SCEN == 3 /* empty table, hint 0: every insert asks for a resize.  T0: insert(k0)   T1: insert(k1) */
void setup(void){ table_init(0); }
void thread0(void){ parsec_hash_table_insert(&ht, &E0.hi); done[0] = 1; }
void thread1(void){ parsec_hash_table_insert(&ht, &E1.hi); done[1] = 1; }
#elif SCEN == 4 /* three levels: L0 = {k0}, L1 = {k1}, top L2 empty.  T0: find(k0) (walks L1, L0)   T1: remove(k1) (empties and unlinks L1) */
void setup(void){ table_init(0); parsec_hash_table_insert(&ht, &E0.hi); parsec_hash_table_insert(&ht, &E1.hi); }
void thread0(void){ r[0] = parsec_hash_table_find(&ht, (parsec_key_t)KEY0); done[0] = 1; }
void thread1(void){ r[2] = parsec_hash_table_remove(&ht, (parsec_key_t)KEY1); done[1] = 1; }
#elif SCEN == 5 /* find-or-insert race on ONE key (spec passes KEY3 = KEY0: E0 and E3 are two elements with the same key), hint 0 */
void setup(void){ table_init(0); }
void thread0(void){ find_or_insert(0, &E0, (parsec_key_t)KEY0); done[0] = 1; }
void thread1(void){ find_or_insert(1, &E3, (parsec_key_t)KEY3); done[1] = 1; }
#elif SCEN == 6 /* old L0 = {k0,k2}, top L1 empty.  T0: remove(k0)   T1: remove(k0) */
void setup(void){ table_init(1); parsec_hash_table_insert(&ht, &E0.hi); parsec_hash_table_insert(&ht, &E2.hi); }
void thread0(void){ r[0] = parsec_hash_table_remove(&ht, (parsec_key_t)KEY0); done[0] = 1; }
void thread1(void){ r[2] = parsec_hash_table_remove(&ht, (parsec_key_t)KEY0); done[1] = 1; }
#elif SCEN == 7 /* L0 = {k0}, hint 1.  T0: insert(k1) -> resize   T1: insert(k2) -> resize (both collide in the same bucket) */
void setup(void){ table_init(1); parsec_hash_table_insert(&ht, &E0.hi); }
void thread0(void){ parsec_hash_table_insert(&ht, &E1.hi); done[0] = 1; }
void thread1(void){ parsec_hash_table_insert(&ht, &E2.hi); r[3] = parsec_hash_table_find(&ht, (parsec_key_t)KEY0); done[1] = 1; }
#elif SCEN == 8 || SCEN == 9
/* L0 = {k0}, hint 1.  The FIRST half of a colliding insert through the handle API (lock_bucket_handle(k1); nolock_insert_handle)
 * is done by setup on behalf of thread 0, which therefore starts holding the table read lock and the bucket lock;
 * T0: unlock_bucket_handle (bucket length 2 > 1: unlock, rdunlock, wrlock, re-check, RESIZE, wrunlock)
 * T1: find(k0) (8) / remove(k0) (9): blocks on the bucket lock, then races with the pending resize. */
static parsec_key_handle_t kh0;
void setup(void){ table_init(1); parsec_hash_table_insert(&ht, &E0.hi);
    parsec_hash_table_lock_bucket_handle(&ht, (parsec_key_t)KEY1, &kh0); parsec_hash_table_nolock_insert_handle(&ht, &kh0, &E1.hi); }
void thread0(void){ parsec_hash_table_unlock_bucket_handle(&ht, &kh0); done[0] = 1; }
#if SCEN == 8
void thread1(void){ r[2] = parsec_hash_table_find(&ht, (parsec_key_t)KEY0); done[1] = 1; }
#else
void thread1(void){ r[2] = parsec_hash_table_remove(&ht, (parsec_key_t)KEY0); done[1] = 1; }
#endif
#endif

void check(void)
{
    VASSERTM(done[0] && done[1], "both threads completed");
    scan(); assert_inv();
#if SCEN == 1
    VASSERTM(r[2] == &E0 && r[3] == &E0, "k0 is stored throughout: find and remove return it whatever the resize does");
    VASSERTM(a_cnt[0] == 0 && a_cnt[1] == 1 && a_cnt[2] == 0 && a_cnt[3] == 0, "final contents = {k1}");
    VASSERTM(a_top == 0 || a_top == 1, "at most one resize");
    VASSERTM(a_top == 0 || a_lk[0] == (a_ne[0] > 0), "old table linked iff it still holds k1");
    if(a_top == 1 && a_loc[1] == 0) VWITNESS("resized; k1 stays in the old table");
    if(a_top == 0) VWITNESS("k0 removed before k1 arrived: no resize");
#elif SCEN == 2
    VASSERTM(r[0] == &E0, "find(k0) returns k0's element while k2 is removed from the same old bucket");
    VASSERTM(r[2] == &E2, "remove(k2) returns k2's element while k0 migrates out of the same old bucket");
    VASSERTM(a_cnt[0] == 1 && a_loc[0] == 1 && a_cnt[2] == 0 && a_cnt[1] == 0 && a_cnt[3] == 0, "final contents = {k0}, migrated to the top table");
    VASSERTM(a_top == 1 && a_lk[0] == 0, "the emptied old table is unlinked (both threads unlink through the top table)");
    VWITNESS("migration and removal from one old bucket");
#elif SCEN == 3
    VASSERTM(a_cnt[0] == 1 && a_cnt[1] == 1 && a_cnt[2] == 0 && a_cnt[3] == 0, "final contents = {k0, k1}");
    VASSERTM(a_top == 1 || a_top == 2, "one or two resizes");
    if(a_top == 1) VWITNESS("both inserted before the single resize (second resizer saw rw_hash changed)");
    if(a_top == 2 && a_loc[0] == 1) VWITNESS("k1's insert resized first, then k0's");
#elif SCEN == 4
    VASSERTM(r[0] == &E0, "find(k0) reaches the oldest table while the middle one is emptied and unlinked");
    VASSERTM(r[2] == &E1, "remove(k1) returns k1's element");
    VASSERTM(a_cnt[0] == 1 && a_loc[0] == 2 && a_cnt[1] == 0 && a_cnt[2] == 0 && a_cnt[3] == 0, "final contents = {k0}, migrated to the top table");
    VASSERTM(a_top == 2 && a_lk[1] == 0, "the emptied middle table is unlinked");
#ifdef STRICT_UNLINK
    VASSERTM(a_lk[0] == 0, "the emptied oldest table is unlinked");
#else
    /* NOT asserted: the oldest table may stay linked although empty (the finder unlinks it from the middle table which the
     * remover concurrently unlinked from the top): harmless for the map semantics (INV allows an empty linked table). */
    if(a_lk[0] == 1) VWITNESS("emptied oldest table left in the lookup chain (benign leak)");
#endif
    if(a_lk[0] == 0) VWITNESS("both old tables unlinked");
#elif SCEN == 5
    VASSERTM(ins[0] + ins[1] == 1, "exactly one of two racing find-or-insert on one key inserts");
    VASSERTM(r[0] == r[2] && r[0] == (ins[0] ? (void*)&E0 : (void*)&E3), "both end with the element of the one that inserted (unique keys)");
    VASSERTM(a_cnt[0] + a_cnt[3] == 1 && a_cnt[0] == ins[0] && a_cnt[1] == 0 && a_cnt[2] == 0, "final contents = the inserter's element only");
    VASSERTM(a_top == 1 || a_top == 2, "hint 0: the insert (and the migration by the finder) trigger resizes at unlock");
    if(ins[1] && a_top == 2) VWITNESS("T1 inserted, T0 found it in the old table, migrated, resized again");
    if(ins[0]) VWITNESS("T0 inserted");
#elif SCEN == 6
    VASSERTM((r[0] == &E0) != (r[2] == &E0) && (r[0] == NULL || r[0] == &E0) && (r[2] == NULL || r[2] == &E0), "exactly one of two racing removes gets the element, the other NULL");
    VASSERTM(a_cnt[0] == 0 && a_cnt[2] == 1 && a_loc[2] == 0 && a_cnt[1] == 0 && a_cnt[3] == 0, "final contents = {k2}, untouched in the old table");
    VASSERTM(a_top == 1 && a_lk[0] == 1, "the old table still holds k2: stays linked");
    if(r[2] == &E0) VWITNESS("T1 won the remove");
    if(r[0] == &E0) VWITNESS("T0 won the remove");
#elif SCEN == 7
    VASSERTM(r[3] == &E0, "k0 stays findable across the racing resizes");
    VASSERTM(a_cnt[0] == 1 && a_cnt[1] == 1 && a_cnt[2] == 1 && a_cnt[3] == 0, "final contents = {k0, k1, k2}");
    VASSERTM(a_top == 1, "exactly one resize (the second resizer sees rw_hash changed, or its bucket in the new table is short)");
    if(a_loc[1] == 0 && a_loc[2] == 0) VWITNESS("both colliding inserts landed before the single resize");
    if(a_loc[2] == 1) VWITNESS("k2 inserted into the new table");
#elif SCEN == 8 || SCEN == 9
    VASSERTM(r[2] == &E0, "k0 is found / removed whatever the pending resize does");
    VASSERTM(a_top == 1 && a_lk[0] == 1, "the insert that exceeded the hint resized exactly once; the old table (still holding k1) stays linked");
    VASSERTM(a_cnt[1] == 1 && a_loc[1] == 0 && a_cnt[2] == 0 && a_cnt[3] == 0, "k1 stays where it was inserted");
#if SCEN == 8
    VASSERTM(a_cnt[0] == 1, "final contents = {k0, k1}");
    if(a_loc[0] == 1) VWITNESS("find ran after the resize: k0 migrated to the new table");
    if(a_loc[0] == 0) VWITNESS("find ran before the resize: k0 still in the old table");
#else
    VASSERTM(a_cnt[0] == 0, "final contents = {k1}");
    VWITNESS("removed around the resize");
#endif
#endif
}
