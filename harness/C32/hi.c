/* C32 (sequential half, Engine A, inductive form): ONE operation of the real
 * parsec_hash_table.c (included; real parsec_rwlock.c linked) from a SYMBOLIC VALID PRE-STATE.
 *
 * Pre-state (described by small integers, constrained by the representation invariant, pointers
 * built with if-chains over static typed pools):
 *   T  in 0..2          level of the top table (level l has nb_bits = l+1, 1<<(l+1) buckets)
 *   lk[l], l < T        old table l still linked in the lookup chain (rw_hash->next...)
 *   loc[i] in -1..T     key i absent / stored at level loc[i], in the bucket its hash selects there
 *   ord[i]              a permutation: relative order of the items inside a bucket
 *   hint in 0..2        max_collisions_hint;  rwlock ticket counters symbolic (unlocked)
 * Invariant INV: every key at most once; item in bucket hash(key, nb_bits(level)) of a linked table
 * (or the top); cur_len = chain length; bucket locks free; table rwlock free; a linked old table is
 * non-empty and its used_buckets = number of its non-empty buckets; unlinked old tables are empty;
 * next_to_free chains all levels T..0; item->key / hash64 consistent.
 * Keys are 4 concrete values chosen by spec.py (collide at 1 bit, split at 2 and 3 bits) so the
 * 64-bit universal hash is constant-folded; WHICH key is operated on is symbolic (if-chain).
 * After the operation: result vs. model, contents = model, INV re-established (closure), resize
 * happened iff the documented trigger fired.  OP selects the operation kind (one query each). */
#include "vp_harness.h"
#include <stddef.h>
#include <stdlib.h>
static void *vp_malloc(size_t sz); static void vp_free(void *p);
#define malloc vp_malloc
#define free vp_free
#ifdef VP_MEMO_HASH
/* spec.py renames the definition of the real universal hash to vp_real_universal_rehash (patches=); every call in the file
 * reaches this memo of the REAL function on the harness' domain (4 concrete keys x nb_bits 1..3), filled by calling the
 * real function on concrete arguments.  Reason: nolock_insert() re-hashes item->key read through a symbolic item pointer,
 * which would put a 64-bit multiplier + divider per chain position into the formula. */
#include "parsec/class/parsec_hash_table.h"
static uint64_t parsec_hash_table_universal_rehash(parsec_key_t key, int nb_bits);
#endif
#include "parsec/class/parsec_hash_table.c"
#undef malloc
#undef free
#ifdef VP_MEMO_HASH
static int HB[4][3]; static int vp_memo_miss;
static uint64_t parsec_hash_table_universal_rehash(parsec_key_t key, int nb_bits)
{
    if(nb_bits < 1 || nb_bits > 3) { vp_memo_miss = 1; return 0; }
    if(key == (parsec_key_t)KEY0) return (uint64_t)HB[0][nb_bits - 1];
    if(key == (parsec_key_t)KEY1) return (uint64_t)HB[1][nb_bits - 1];
    if(key == (parsec_key_t)KEY2) return (uint64_t)HB[2][nb_bits - 1];
    if(key == (parsec_key_t)KEY3) return (uint64_t)HB[3][nb_bits - 1];
    vp_memo_miss = 1; return 0;
}
#define REAL_REHASH vp_real_universal_rehash
#else
static int HB[4][3]; static int vp_memo_miss;
#define REAL_REHASH parsec_hash_table_universal_rehash
#endif

#define OP_INSERT 0
#define OP_FIND 1
#define OP_REMOVE 2
#define OP_FOI 3      /* lock_bucket_handle; nolock_find_handle; if absent nolock_insert_handle; unlock_bucket_handle */
#define OP_FORALL 4
#define OP_FINI 5
#define OP_INIT 6
#define OP_NOLOCK 7   /* lock_bucket; nolock_find; nolock_remove | nolock_insert; unlock_bucket (key API) */
#ifndef OP
#define OP OP_FIND
#endif
#ifndef MAXBITS
#define MAXBITS 4
#endif

static parsec_hash_table_head_t VH0, VH1, VH2;
static parsec_hash_table_bucket_t VB0[2], VB1[4], VB2[8];
static int vp_nhead, vp_nbk, vp_alloc_overflow;
static int vp_freed_h[3], vp_freed_b[3], vp_freed_bad;
static void *vp_malloc(size_t sz)
{
    /* init and resize allocate a head, then its bucket array (sizeof(head) == sizeof(VB0), so the kind is told by call parity) */
    if(vp_nhead == vp_nbk) { int n = vp_nhead++; if(sz == sizeof(parsec_hash_table_head_t)) { if(n == 0) return &VH0; if(n == 1) return &VH1; if(n == 2) return &VH2; } }
    else { int n = vp_nbk++;
        if(n == 0 && sz == sizeof(VB0)) return VB0; if(n == 1 && sz == sizeof(VB1)) return VB1; if(n == 2 && sz == sizeof(VB2)) return VB2; }
    vp_alloc_overflow = 1; return NULL;
}
static void vp_free(void *p)
{
    if(p == &VH0) vp_freed_h[0]++; else if(p == &VH1) vp_freed_h[1]++; else if(p == &VH2) vp_freed_h[2]++;
    else if(p == VB0) vp_freed_b[0]++; else if(p == VB1) vp_freed_b[1]++; else if(p == VB2) vp_freed_b[2]++;
    else vp_freed_bad = 1;
}

int parsec_debug_colorize, parsec_debug_rank;
void parsec_output_verbose(int level, int id, const char *fmt, ...) { (void)level; (void)id; (void)fmt; }
int parsec_mca_param_reg_int_name(const char *t, const char *n, const char *h, bool a, bool b, int d, int *s){ (void)t;(void)n;(void)h;(void)a;(void)b;(void)d;(void)s; return -1; }
int parsec_mca_param_lookup_int(int idx, int *v){ (void)idx;(void)v; return -1; }

typedef struct { int id; parsec_hash_table_item_t hi; } elt_t;
static elt_t E0, E1, E2, E3;
static const uint64_t KEYS[4] = { KEY0, KEY1, KEY2, KEY3 };
static parsec_hash_table_t ht;
/* HB[i][l]: bucket of key i at level l: the REAL hash on concrete arguments (constant-folded) */

/* ---------- pre-state ---------- */
static int T, lk[3], loc[4], ord[4], hint;

static inline void push_front(parsec_hash_table_bucket_t *b, parsec_hash_table_item_t *it)
{ it->next_item = b->first_item; b->first_item = it; b->cur_len++; }
#define PLACE(i, EI, K) do { if(loc[i] >= 0 && ord[i] == p) { \
        EI.hi.key = (parsec_key_t)(K); EI.hi.hash64 = (uint64_t)(K); \
        if(loc[i] == 0) push_front(&VB0[HB[i][0]], &EI.hi); else if(loc[i] == 1) push_front(&VB1[HB[i][1]], &EI.hi); else push_front(&VB2[HB[i][2]], &EI.hi); } } while(0)

static int nonempty0(void){ return (VB0[0].first_item != NULL) + (VB0[1].first_item != NULL); }
static int nonempty1(void){ int n = 0; for(int b = 0; b < 4; b++) n += (VB1[b].first_item != NULL); return n; }
static int nonempty2(void){ int n = 0; for(int b = 0; b < 8; b++) n += (VB2[b].first_item != NULL); return n; }

static void build_pre(void)
{
    for(int l = 0; l < 3; l++) {
        HB[0][l] = (int)REAL_REHASH((parsec_key_t)KEY0, l + 1);
        HB[1][l] = (int)REAL_REHASH((parsec_key_t)KEY1, l + 1);
        HB[2][l] = (int)REAL_REHASH((parsec_key_t)KEY2, l + 1);
        HB[3][l] = (int)REAL_REHASH((parsec_key_t)KEY3, l + 1);
    }
#ifdef TOP
    T = TOP;
#else
    T = IN_RANGE(0, 2);
#endif
#ifdef LK0
    lk[0] = LK0; lk[1] = LK1; lk[2] = 0;
#else
    lk[0] = IN_BOOL(); lk[1] = IN_BOOL(); lk[2] = 0;
#endif
    if(T < 1) lk[0] = 0;
    if(T < 2) lk[1] = 0;
    hint = IN_RANGE(0, 2);
    int used = 0;
    for(int i = 0; i < 4; i++) {
        loc[i] = IN_RANGE(-1, 2); ord[i] = IN_RANGE(0, 3);
        VASSUME(loc[i] <= T);
        VASSUME(loc[i] < 0 || loc[i] == T || lk[loc[i]]);          /* stored only in the top or in a linked old table */
        VASSUME(!(used & (1 << ord[i]))); used |= 1 << ord[i];      /* ord is a permutation */
    }
    /* a linked old table holds at least one item */
    VASSUME(!lk[0] || loc[0] == 0 || loc[1] == 0 || loc[2] == 0 || loc[3] == 0);
    VASSUME(!lk[1] || loc[0] == 1 || loc[1] == 1 || loc[2] == 1 || loc[3] == 1);
    /* tables */
    VH0.nb_bits = 1; VH0.buckets = VB0; VH0.next = NULL; VH0.next_to_free = NULL;
    VH1.nb_bits = 2; VH1.buckets = VB1; VH1.next = lk[0] ? &VH0 : NULL; VH1.next_to_free = &VH0;
    VH2.nb_bits = 3; VH2.buckets = VB2; VH2.next = lk[1] ? &VH1 : (lk[0] ? &VH0 : NULL); VH2.next_to_free = &VH1;
    vp_nhead = vp_nbk = T + 1;
    /* items: push the last-ranked first so that ord gives the order inside each bucket */
    for(int p = 3; p >= 0; p--) { PLACE(0, E0, KEY0); PLACE(1, E1, KEY1); PLACE(2, E2, KEY2); PLACE(3, E3, KEY3); }
    VH0.used_buckets = nonempty0(); VH1.used_buckets = nonempty1(); VH2.used_buckets = nonempty2();
    { int u = IN_INT(); if(T == 0) VH0.used_buckets = u; else if(T == 1) VH1.used_buckets = u; else VH2.used_buckets = u; } /* top: unconstrained */
    ht.rw_hash = (T == 0) ? &VH0 : (T == 1) ? &VH1 : &VH2;
    ht.key_functions = parsec_hash_table_generic_key_fn; ht.hash_data = NULL;
    ht.elt_hashitem_offset = offsetof(elt_t, hi);
    ht.max_collisions_hint = hint; ht.max_table_nb_bits = MAXBITS; ht.warning_issued = IN_BOOL();
    { int nr = IN_RANGE(0, 3), nw = IN_RANGE(0, 3);               /* unlocked rwlock after nr readers / nw writers */
      ht.rw_lock.rin = nr << 8; ht.rw_lock.rout = nr << 8; ht.rw_lock.win = nw; ht.rw_lock.wout = nw; }
}

/* ---------- post-state: abstraction + invariant ---------- */
static int a_top, a_lk[3], a_cnt[4], a_loc[4], a_len[3][8];
static int bad_item, bad_bucket, bad_key, bad_len, bad_lock, bad_cycle, bad_chain, bad_used, bad_unlinked_nonempty, bad_linked_empty, bad_ntf, bad_head;

/* pointers are first translated to small integers (0 = NULL, 1..4 = item of key 0..3, 5 = anything else), so that the
 * chain walks below run over small integer arrays instead of dereferencing symbolic pointers */
static unsigned char nxt[6], first_[3][8];
static inline unsigned char idof(parsec_hash_table_item_t *p)
{ return (p == NULL) ? 0 : (p == &E0.hi) ? 1 : (p == &E1.hi) ? 2 : (p == &E2.hi) ? 3 : (p == &E3.hi) ? 4 : 5; }
static int scan_bucket(int l, parsec_hash_table_bucket_t *b, int bi)
{
    int n = 0; unsigned char cur = idof(b->first_item);
    for(; cur != 0 && n < 5; n++) {
        if(cur == 5) { bad_item = 1; break; }
        a_cnt[cur - 1]++; a_loc[cur - 1] = l;
        if(HB[cur - 1][l] != bi) bad_bucket = 1;
        cur = nxt[cur];
    }
    if(n > 4) bad_cycle = 1;
    if(b->cur_len != n) bad_len = 1;
    if(b->lock != 0) bad_lock = 1;
    a_len[l][bi] = n;
    return n > 0;
}
static void scan_items(void)
{
    nxt[0] = 0; nxt[5] = 5;
    nxt[1] = idof(E0.hi.next_item); nxt[2] = idof(E1.hi.next_item); nxt[3] = idof(E2.hi.next_item); nxt[4] = idof(E3.hi.next_item);
}
static void check_keys(void)
{
    if(a_cnt[0] && (E0.hi.key != (parsec_key_t)KEY0 || E0.hi.hash64 != (uint64_t)KEY0)) bad_key = 1;
    if(a_cnt[1] && (E1.hi.key != (parsec_key_t)KEY1 || E1.hi.hash64 != (uint64_t)KEY1)) bad_key = 1;
    if(a_cnt[2] && (E2.hi.key != (parsec_key_t)KEY2 || E2.hi.hash64 != (uint64_t)KEY2)) bad_key = 1;
    if(a_cnt[3] && (E3.hi.key != (parsec_key_t)KEY3 || E3.hi.hash64 != (uint64_t)KEY3)) bad_key = 1;
}
static void scan(void)
{
    parsec_hash_table_head_t *top = ht.rw_hash, *p;
    a_top = (top == &VH0) ? 0 : (top == &VH1) ? 1 : (top == &VH2) ? 2 : -1;
    if(a_top < 0) { bad_head = 1; return; }
    scan_items();
    /* lookup chain: strictly decreasing levels below the top, NULL-terminated */
    p = top->next;
    if(a_top > 1) { if(p == &VH1) { a_lk[1] = 1; p = VH1.next; } }
    if(a_top > 0) { if(p == &VH0) { a_lk[0] = 1; p = VH0.next; } }
    if(p != NULL) bad_chain = 1;
    /* allocation chain: all levels a_top..0 */
    if(a_top == 2 && (VH2.next_to_free != &VH1 || VH1.next_to_free != &VH0 || VH0.next_to_free != NULL)) bad_ntf = 1;
    if(a_top == 1 && (VH1.next_to_free != &VH0 || VH0.next_to_free != NULL)) bad_ntf = 1;
    if(a_top == 0 && VH0.next_to_free != NULL) bad_ntf = 1;
    if(VH0.nb_bits != 1 || VH0.buckets != VB0 || (a_top >= 1 && (VH1.nb_bits != 2 || VH1.buckets != VB1)) || (a_top >= 2 && (VH2.nb_bits != 3 || VH2.buckets != VB2))) bad_head = 1;
    int ne;
    ne = 0; for(int b = 0; b < 2; b++) ne += scan_bucket(0, &VB0[b], b);
    if(a_top > 0) { if(a_lk[0]) { if(ne == 0) bad_linked_empty = 1; if(VH0.used_buckets != ne) bad_used = 1; } else if(ne != 0) bad_unlinked_nonempty = 1; }
    if(a_top >= 1) {
        ne = 0; for(int b = 0; b < 4; b++) ne += scan_bucket(1, &VB1[b], b);
        if(a_top > 1) { if(a_lk[1]) { if(ne == 0) bad_linked_empty = 1; if(VH1.used_buckets != ne) bad_used = 1; } else if(ne != 0) bad_unlinked_nonempty = 1; }
    }
    if(a_top >= 2) { for(int b = 0; b < 8; b++) scan_bucket(2, &VB2[b], b); }
    check_keys();
}
static void assert_inv(void)
{
    VASSERTM(!vp_memo_miss, "hash memo covers every (key, nb_bits) the code asked for");
    VASSERTM(!bad_head, "INV: rw_hash is a table level with its own nb_bits and bucket array");
    VASSERTM(!bad_chain, "INV: lookup chain = linked older levels in decreasing order, NULL-terminated");
    VASSERTM(!bad_ntf, "INV: next_to_free chains every allocated level");
    VASSERTM(!bad_item && !bad_cycle, "INV: bucket chains are acyclic lists of known items");
    VASSERTM(!bad_bucket, "INV: every item sits in the bucket its hash selects at that level");
    VASSERTM(!bad_key, "INV: item key / hash64 intact");
    VASSERTM(!bad_len, "INV: cur_len equals the chain length in every bucket of every level");
    VASSERTM(!bad_lock, "bucket locks released (all levels)");
    VASSERTM(!bad_linked_empty, "an emptied old table is unlinked from the lookup chain");
    VASSERTM(!bad_used, "INV: used_buckets of a linked old table counts its non-empty buckets");
    VASSERTM(!bad_unlinked_nonempty, "INV: an unlinked old table holds no item (nothing becomes unreachable)");
    VASSERTM(a_cnt[0] <= 1 && a_cnt[1] <= 1 && a_cnt[2] <= 1 && a_cnt[3] <= 1, "INV: unique keys");
    VASSERTM(ht.rw_lock.rin >> 8 == ht.rw_lock.rout >> 8 && ht.rw_lock.win == ht.rw_lock.wout && (ht.rw_lock.rin & 0xff) == 0, "table rwlock released");
    VASSERTM(!vp_alloc_overflow && vp_nhead == a_top + 1 && vp_nbk == a_top + 1, "one head + one bucket array allocated per level");
}

/* ---------- the operation ---------- */
static void *res; static int did_insert;
#define PRESENT(i) (loc[i] >= 0)
static inline void do_op(int i, elt_t *e, parsec_key_t key)
{
#if OP == OP_INSERT
    VASSUME(!PRESENT(i));                                   /* caller contract: the table does not check duplicates */
    e->hi.key = key;
    parsec_hash_table_insert(&ht, &e->hi); did_insert = 1;
#elif OP == OP_FIND
    res = parsec_hash_table_find(&ht, key);
#elif OP == OP_REMOVE
    res = parsec_hash_table_remove(&ht, key);
#elif OP == OP_FOI
    parsec_key_handle_t kh;
    parsec_hash_table_lock_bucket_handle(&ht, key, &kh);
    res = parsec_hash_table_nolock_find_handle(&ht, &kh);
    if(NULL == res) { e->hi.key = key; parsec_hash_table_nolock_insert_handle(&ht, &kh, &e->hi); did_insert = 1; }
    parsec_hash_table_unlock_bucket_handle(&ht, &kh);
#elif OP == OP_NOLOCK
    parsec_hash_table_lock_bucket(&ht, key);
    res = parsec_hash_table_nolock_find(&ht, key);
    if(NULL == res) { e->hi.key = key; parsec_hash_table_nolock_insert(&ht, &e->hi); did_insert = 1; }
    else { void *r2 = parsec_hash_table_nolock_remove(&ht, key); VASSERTM(r2 == res, "nolock_remove returns the item nolock_find just returned"); }
    parsec_hash_table_unlock_bucket(&ht, key);
#endif
    (void)i; (void)e; (void)key;
}

static int visits[4], nvisit, bad_visit;
static void visit(void *item, void *cb){ nvisit++;
    if(cb != (void*)&nvisit) bad_visit = 1;
    if(item == &E0) visits[0]++; else if(item == &E1) visits[1]++; else if(item == &E2) visits[2]++; else if(item == &E3) visits[3]++; else bad_visit = 1; }

int main(void)
{
#if OP == OP_INIT
    /* closure, base case: the state produced by the real init satisfies INV */
    HB[0][0] = 0; T = 0;
    for(int l = 0; l < 3; l++) {
        HB[0][l] = (int)REAL_REHASH((parsec_key_t)KEY0, l + 1); HB[1][l] = (int)REAL_REHASH((parsec_key_t)KEY1, l + 1);
        HB[2][l] = (int)REAL_REHASH((parsec_key_t)KEY2, l + 1); HB[3][l] = (int)REAL_REHASH((parsec_key_t)KEY3, l + 1); }
    ht.max_collisions_hint = IN_RANGE(0, 2); ht.max_table_nb_bits = MAXBITS;
    ht.rw_lock.rin = IN_INT(); ht.rw_lock.win = IN_INT(); VB0[1].lock = IN_INT(); VB0[0].cur_len = IN_INT(); VB0[1].first_item = &E0.hi;  /* garbage before init */
    parsec_hash_table_init(&ht, offsetof(elt_t, hi), 1, parsec_hash_table_generic_key_fn, NULL);
    scan(); assert_inv();
    VASSERTM(a_top == 0 && a_cnt[0] + a_cnt[1] + a_cnt[2] + a_cnt[3] == 0, "init yields an empty one-level table");
    VASSERTM(ht.elt_hashitem_offset == offsetof(elt_t, hi) && ht.key_functions.key_hash == parsec_hash_table_generic_64bits_key_hash && ht.warning_issued == 0, "init records offset and key functions");
    VASSERTM(parsec_hash_table_item_lookup(&ht, &E1.hi) == &E1, "item_lookup maps the embedded item to its element");
    /* the hash of the 4 keys is what spec.py assumed: collide at 1 bit, split at 2 / 3 bits */
    VASSERTM(HB[0][0] == HB[1][0] && HB[0][0] == HB[2][0] && HB[3][0] != HB[0][0] && HB[0][1] == HB[1][1] && HB[2][1] != HB[0][1] && HB[0][2] != HB[1][2], "key set collides / splits as chosen");
    VASSERTM(HB[0][0] < 2 && HB[3][0] < 2 && HB[0][1] < 4 && HB[2][1] < 4 && HB[3][1] < 4 && HB[0][2] < 8 && HB[1][2] < 8 && HB[2][2] < 8 && HB[3][2] < 8, "hash < number of buckets");
    VWITNESS("init");
    return 0;
#else
    build_pre();
#ifdef KI
    int i = KI;
#else
    int i = IN_RANGE(0, 3);
#endif
#ifdef SELFCHECK
    /* the constructed pre-state itself satisfies INV as scanned by the post-state checker */
    scan(); assert_inv();
    VASSERTM(a_top == T && a_lk[0] == lk[0] && a_lk[1] == lk[1], "pre-state tables as described");
    for(int k = 0; k < 4; k++) VASSERTM(a_cnt[k] == PRESENT(k) && (!PRESENT(k) || a_loc[k] == loc[k]), "pre-state items as described");
    if(T == 2 && lk[0] && lk[1] && loc[0] == 0 && loc[1] == 0 && ord[0] > ord[1]) VWITNESS("three linked levels, two items in one old bucket");
    if(T == 2 && lk[0] && !lk[1]) VWITNESS("middle level unlinked");
    if(T == 0 && PRESENT(0) && PRESENT(1) && PRESENT(2) && PRESENT(3)) VWITNESS("single level full");
    return 0;
#elif OP == OP_FORALL
    parsec_hash_table_for_all(&ht, visit, &nvisit);
    VASSERTM(!bad_visit && nvisit == PRESENT(0) + PRESENT(1) + PRESENT(2) + PRESENT(3), "for_all visits exactly the present items");
    VASSERTM(visits[0] == PRESENT(0) && visits[1] == PRESENT(1) && visits[2] == PRESENT(2) && visits[3] == PRESENT(3), "each present item visited once, absent ones never");
    scan(); assert_inv();
    for(int k = 0; k < 4; k++) VASSERTM(a_cnt[k] == PRESENT(k) && (!PRESENT(k) || a_loc[k] == loc[k]), "for_all does not modify the table");
    if(T == 2 && lk[0] && lk[1] && nvisit == 4) VWITNESS("visited 4 items over 3 levels");
    if(T == 2 && !lk[0] && !lk[1] && nvisit >= 2) VWITNESS("skipped unlinked levels");
    return 0;
#elif OP == OP_FINI
    VASSUME(!PRESENT(0) && !PRESENT(1) && !PRESENT(2) && !PRESENT(3));   /* contract: table emptied before fini */
    parsec_hash_table_fini(&ht);
    VASSERTM(ht.rw_hash == NULL, "fini releases the table");
    VASSERTM(!vp_freed_bad, "fini frees only table levels");
    VASSERTM(vp_freed_h[0] == 1 && vp_freed_b[0] == 1 && vp_freed_h[1] == (T >= 1) && vp_freed_b[1] == (T >= 1) && vp_freed_h[2] == (T >= 2) && vp_freed_b[2] == (T >= 2),
             "every allocated level (head and bucket array) freed exactly once, also the unlinked ones");
    if(T == 2) VWITNESS("three levels freed");
    if(T == 0) VWITNESS("one level freed");
    return 0;
#else
    int toplen_i;      /* filled below: length, after the operation, of key i's bucket in the PRE-state top table */
    if(i == 0) do_op(0, &E0, (parsec_key_t)KEY0); else if(i == 1) do_op(1, &E1, (parsec_key_t)KEY1);
    else if(i == 2) do_op(2, &E2, (parsec_key_t)KEY2); else do_op(3, &E3, (parsec_key_t)KEY3);
    elt_t *ei = (i == 0) ? &E0 : (i == 1) ? &E1 : (i == 2) ? &E2 : &E3;
    int was = PRESENT(i), now;
#if OP == OP_INSERT
    now = 1;
#elif OP == OP_FIND
    VASSERTM(res == (was ? (void*)ei : NULL), "find returns the item stored under this key, else NULL");
    now = was;
#elif OP == OP_REMOVE
    VASSERTM(res == (was ? (void*)ei : NULL), "remove returns the item stored under this key, else NULL");
    now = 0;
#elif OP == OP_FOI
    VASSERTM(res == (was ? (void*)ei : NULL), "nolock_find_handle returns the item stored under this key, else NULL");
    now = 1;
#elif OP == OP_NOLOCK
    VASSERTM(res == (was ? (void*)ei : NULL), "nolock_find returns the item stored under this key, else NULL");
    now = !was;
#endif
    scan(); assert_inv();
    /* contents = model */
    for(int k = 0; k < 4; k++) {
        if(k == i) VASSERTM(a_cnt[k] == now, "operated key: present afterwards iff the model says so");
        else VASSERTM(a_cnt[k] == PRESENT(k), "every other key is still stored exactly once (findable), absent ones stay absent");
    }
    /* the operated key, when (still) present, ends in the table that was on top during the operation */
    if(now && (OP != OP_REMOVE)) VASSERTM(a_loc[i] == T, "inserted / found item ends in the current top table (migration from old tables)");
    /* resize: only insert / unlock_bucket may resize, exactly when the documented trigger fires */
    toplen_i = (i == 0) ? a_len[T][HB[0][T]] : (i == 1) ? a_len[T][HB[1][T]] : (i == 2) ? a_len[T][HB[2][T]] : a_len[T][HB[3][T]];
    VASSERTM(a_top == T || a_top == T + 1, "at most one resize");
#if OP == OP_FIND || OP == OP_REMOVE
    VASSERTM(a_top == T, "find / remove never resize");
#else
    VASSERTM((a_top == T + 1) == (toplen_i > hint && (T + 1) + 1 < MAXBITS), "resize exactly when the bucket exceeds max_collisions_hint and max_table_nb_bits allows");
    if(a_top == T + 1) {
        VASSERTM(a_lk[T] == 1, "the resized-away table stays in the lookup chain");
        int n = 0; for(int k = 0; k < 4; k++) if(a_cnt[k] && a_loc[k] == a_top) n++;
        VASSERTM(n == 0, "a fresh top table is empty");
    }
#endif
    /* reachable, non-degenerate instances */
#if OP == OP_INSERT
    if(a_top == 2 && T == 1 && lk[0] && hint == 1 && loc[0] == 1 && loc[2] == 0) VWITNESS("insert of a colliding key triggered the second resize with items in both old levels");
    if(a_top == T && T == 2 && toplen_i == 1 && hint == 0) VWITNESS("no resize at the maximal level");
    if(a_top == T && T == 0 && hint == 2 && toplen_i == 2) VWITNESS("below the collision hint: no resize");
#elif OP == OP_FIND
    if(was && T == 2 && loc[i] == 0 && lk[1] && a_lk[0] == 0 && lk[0]) VWITNESS("found in the oldest table behind a linked middle one, migrated, oldest table emptied and unlinked");
    if(was && T == 2 && loc[i] == 1 && lk[0] && a_lk[1] == 0 && a_lk[0] == 1) VWITNESS("middle table emptied and unlinked, oldest stays");
    if(was && T == 1 && loc[i] == 0 && a_lk[0] == 1 && a_len[0][0] == 2) VWITNESS("migrated the middle item of a 3-chain");
    if(!was && T == 2 && lk[0] && lk[1]) VWITNESS("absent key searched through 3 levels");
#elif OP == OP_REMOVE
    if(was && T == 2 && loc[i] == 0 && lk[1] && a_lk[0] == 0) VWITNESS("removed the last item of the oldest table: unlinked");
    if(was && loc[i] == T && T == 1 && lk[0]) VWITNESS("removed from the top table");
    if(was && T == 1 && loc[i] == 0 && a_lk[0] == 1 && a_len[0][0] == 2) VWITNESS("removed one of three colliding items of the old table");
    if(!was && T == 2 && lk[0] && lk[1]) VWITNESS("absent key");
#elif OP == OP_FOI || OP == OP_NOLOCK
    if(did_insert && a_top == T + 1 && T == 1) VWITNESS("insert under the bucket lock, resize at unlock");
    if(!did_insert && was && loc[i] < T && a_top == T + 1) VWITNESS("found in an old table, migration made the top bucket exceed the hint: resize at unlock");
    if(!did_insert && a_top == T && T == 2 && loc[i] == 0) VWITNESS("found in the oldest table");
#endif
    return 0;
#endif
#endif
}
