/* C32 (sequential half, Engine A, inductive form): ONE operation of the real
 * parsec_hash_table.c (included; real parsec_rwlock.c linked) from a SYMBOLIC VALID PRE-STATE.
 *
 * Pre-state (described by small integers, constrained by the representation invariant, pointers
 * built with if-chains over static typed pools):
 *   T  in 0..2          level of the top table (level l has nb_bits = l+1, 1<<(l+1) buckets)
 *   lk[l], l < T        old table l still linked in the lookup chain (rw_hash->next...)
 *   loc[i] in -1..T     key i absent / stored at level loc[i], in the bucket its hash selects there
 *   ord[i]              a permutation: relative order of the items inside a bucket
 *   hint in 0..2        max_collisions_hint;  rwlock ticket counters symbolic (unlocked)
 * Invariant INV: every key at most once; item in bucket hash(key, nb_bits(level)) of a linked table
 * (or the top); cur_len = chain length; bucket locks free; table rwlock free; used_buckets of a linked old
 * table = number of its non-empty buckets (possibly 0); unlinked old tables are empty;
 * next_to_free chains all levels T..0; item->key / hash64 consistent.
 * Keys are 4 concrete values chosen by spec.py (collide at 1 bit, split at 2 and 3 bits) so the
 * 64-bit universal hash is constant-folded; WHICH key is operated on is symbolic (if-chain).
 * After the operation: result vs. model, contents = model, INV re-established (closure), resize
 * happened iff the documented trigger fired, an old table emptied by the operation is unlinked.
 * OP selects the operation kind; the table SHAPE (T, lk[]) is one of 7, fixed per query by spec.py (-DSHAPE=n) or chosen
 * by an if-chain in main, so that every table-level pointer is a constant on each path (a symbolic table pointer makes
 * CBMC rewrite every bucket array on each store); item pointers, contents, order, hint, key stay symbolic. */
#include "ht_common.h"

/* ---------- pre-state ---------- */
static int T, lk[3], loc[4], ord[4], hint;

static inline void push_front(parsec_hash_table_bucket_t *b, parsec_hash_table_item_t *it)
{ it->next_item = b->first_item; b->first_item = it; b->cur_len++; }
#define PLACE(i, EI, K) do { if(loc[i] >= 0 && ord[i] == p) { \
        EI.hi.key = (parsec_key_t)(K); EI.hi.hash64 = (uint64_t)(K); \
        if(loc[i] == 0) push_front(&VB0[HB[i][0]], &EI.hi); else if(loc[i] == 1) push_front(&VB1[HB[i][1]], &EI.hi); else push_front(&VB2[HB[i][2]], &EI.hi); } } while(0)

static int nonempty0(void){ return (VB0[0].first_item != NULL) + (VB0[1].first_item != NULL); }
static int nonempty1(void){ int n = 0; for(int b = 0; b < 4; b++) n += (VB1[b].first_item != NULL); return n; }
static int nonempty2(void){ int n = 0; for(int b = 0; b < 8; b++) n += (VB2[b].first_item != NULL); return n; }

/* T and lk[] are set (to constants, one shape per branch of main's if-chain) before the call */
static void build_pre(void)
{
    hint = IN_RANGE(0, 2);
    int used = 0;
    for(int i = 0; i < 4; i++) {
        loc[i] = IN_RANGE(-1, 2); ord[i] = IN_RANGE(0, 3);
        VASSUME(loc[i] <= T);
        VASSUME(loc[i] < 0 || loc[i] == T || lk[loc[i]]);          /* stored only in the top or in a linked old table */
        VASSUME(!(used & (1 << ord[i]))); used |= 1 << ord[i];      /* ord is a permutation */
    }
    /* (a linked old table may be empty: reachable concurrently, see hc.c scenario 4) */
    /* tables */
    VH0.nb_bits = 1; VH0.buckets = VB0; VH0.next = NULL; VH0.next_to_free = NULL;
    VH1.nb_bits = 2; VH1.buckets = VB1; VH1.next = lk[0] ? &VH0 : NULL; VH1.next_to_free = &VH0;
    VH2.nb_bits = 3; VH2.buckets = VB2; VH2.next = lk[1] ? &VH1 : (lk[0] ? &VH0 : NULL); VH2.next_to_free = &VH1;
    vp_nhead = vp_nbk = T + 1;
    /* items: push the last-ranked first so that ord gives the order inside each bucket */
    for(int p = 3; p >= 0; p--) { PLACE(0, E0, KEY0); PLACE(1, E1, KEY1); PLACE(2, E2, KEY2); PLACE(3, E3, KEY3); }
    VH0.used_buckets = nonempty0(); VH1.used_buckets = nonempty1(); VH2.used_buckets = nonempty2();
    { int u = IN_INT(); if(T == 0) VH0.used_buckets = u; else if(T == 1) VH1.used_buckets = u; else VH2.used_buckets = u; } /* top: unconstrained */
    ht.rw_hash = (T == 0) ? &VH0 : (T == 1) ? &VH1 : &VH2;
    ht.key_functions = parsec_hash_table_generic_key_fn; ht.hash_data = NULL;
    ht.elt_hashitem_offset = offsetof(elt_t, hi);
    ht.max_collisions_hint = hint; ht.max_table_nb_bits = MAXBITS; ht.warning_issued = IN_BOOL();
    { int nr = IN_RANGE(0, 3), nw = IN_RANGE(0, 3);               /* unlocked rwlock after nr readers / nw writers */
      ht.rw_lock.rin = nr << 8; ht.rw_lock.rout = nr << 8; ht.rw_lock.win = nw; ht.rw_lock.wout = nw; }
}

/* ---------- the operation ---------- */
static void *res; static int did_insert;
#define PRESENT(i) (loc[i] >= 0)
static inline void do_op(int i, elt_t *e, parsec_key_t key)
{
#if OP == OP_INSERT
    VASSUME(!PRESENT(i));                                   /* caller contract: the table does not check duplicates */
    e->hi.key = key;
    parsec_hash_table_insert(&ht, &e->hi); did_insert = 1;
#elif OP == OP_FIND
    res = parsec_hash_table_find(&ht, key);
#elif OP == OP_REMOVE
    res = parsec_hash_table_remove(&ht, key);
#elif OP == OP_FOI
    parsec_key_handle_t kh;
    parsec_hash_table_lock_bucket_handle(&ht, key, &kh);
    res = parsec_hash_table_nolock_find_handle(&ht, &kh);
    if(NULL == res) { e->hi.key = key; parsec_hash_table_nolock_insert_handle(&ht, &kh, &e->hi); did_insert = 1; }
    parsec_hash_table_unlock_bucket_handle(&ht, &kh);
#elif OP == OP_NOLOCK
    parsec_hash_table_lock_bucket(&ht, key);
    res = parsec_hash_table_nolock_find(&ht, key);
    if(NULL == res) { e->hi.key = key; parsec_hash_table_nolock_insert(&ht, &e->hi); did_insert = 1; }
    else { void *r2 = parsec_hash_table_nolock_remove(&ht, key); VASSERTM(r2 == res, "nolock_remove returns the item nolock_find just returned"); }
    parsec_hash_table_unlock_bucket(&ht, key);
#endif
    (void)i; (void)e; (void)key;
}

static int visits[4], nvisit, bad_visit;
static void visit(void *item, void *cb){ nvisit++;
    if(cb != (void*)&nvisit) bad_visit = 1;
    if(item == &E0) visits[0]++; else if(item == &E1) visits[1]++; else if(item == &E2) visits[2]++; else if(item == &E3) visits[3]++; else bad_visit = 1; }

#if OP != OP_INIT && OP != OP_HASH
static void body(void)
{
    build_pre();
#ifdef KI
    int i = KI;
#else
    int i = IN_RANGE(0, 3);
#endif
#ifdef SELFCHECK
    /* the constructed pre-state itself satisfies INV as scanned by the post-state checker */
    scan(); assert_inv();
    VASSERTM(a_top == T && a_lk[0] == lk[0] && a_lk[1] == lk[1], "pre-state tables as described");
    for(int k = 0; k < 4; k++) VASSERTM(a_cnt[k] == PRESENT(k) && (!PRESENT(k) || a_loc[k] == loc[k]), "pre-state items as described");
    if(PRESENT(0) && PRESENT(1) && PRESENT(2) && PRESENT(3) && ord[0] > ord[1]) VWITNESS("4 keys stored");
    if(!PRESENT(0) && !PRESENT(3)) VWITNESS("some keys absent");
    return;
#elif OP == OP_FORALL
    parsec_hash_table_for_all(&ht, visit, &nvisit);
    VASSERTM(!bad_visit && nvisit == PRESENT(0) + PRESENT(1) + PRESENT(2) + PRESENT(3), "for_all visits exactly the present items");
    VASSERTM(visits[0] == PRESENT(0) && visits[1] == PRESENT(1) && visits[2] == PRESENT(2) && visits[3] == PRESENT(3), "each present item visited once, absent ones never");
    scan(); assert_inv();
    for(int k = 0; k < 4; k++) VASSERTM(a_cnt[k] == PRESENT(k) && (!PRESENT(k) || a_loc[k] == loc[k]), "for_all does not modify the table");
    if(nvisit == 4) VWITNESS("visited 4 items over every linked level");
    if(nvisit == 1) VWITNESS("visited a single item");
    return;
#elif OP == OP_FINI
    VASSUME(!PRESENT(0) && !PRESENT(1) && !PRESENT(2) && !PRESENT(3));   /* contract: table emptied before fini */
    parsec_hash_table_fini(&ht);
    VASSERTM(ht.rw_hash == NULL, "fini releases the table");
    VASSERTM(!vp_freed_bad, "fini frees only table levels");
    VASSERTM(vp_freed_h[0] == 1 && vp_freed_b[0] == 1 && vp_freed_h[1] == (T >= 1) && vp_freed_b[1] == (T >= 1) && vp_freed_h[2] == (T >= 2) && vp_freed_b[2] == (T >= 2),
             "every allocated level (head and bucket array) freed exactly once, also the unlinked ones");
    VWITNESS("all levels freed");
    return;
#else
    int toplen_i;      /* filled below: length, after the operation, of key i's bucket in the PRE-state top table */
    if(i == 0) do_op(0, &E0, (parsec_key_t)KEY0); else if(i == 1) do_op(1, &E1, (parsec_key_t)KEY1);
    else if(i == 2) do_op(2, &E2, (parsec_key_t)KEY2); else do_op(3, &E3, (parsec_key_t)KEY3);
    elt_t *ei = (i == 0) ? &E0 : (i == 1) ? &E1 : (i == 2) ? &E2 : &E3;
    int was = PRESENT(i), now;
#if OP == OP_INSERT
    now = 1;
#elif OP == OP_FIND
    VASSERTM(res == (was ? (void*)ei : NULL), "find returns the item stored under this key, else NULL");
    now = was;
#elif OP == OP_REMOVE
    VASSERTM(res == (was ? (void*)ei : NULL), "remove returns the item stored under this key, else NULL");
    now = 0;
#elif OP == OP_FOI
    VASSERTM(res == (was ? (void*)ei : NULL), "nolock_find_handle returns the item stored under this key, else NULL");
    now = 1;
#elif OP == OP_NOLOCK
    VASSERTM(res == (was ? (void*)ei : NULL), "nolock_find returns the item stored under this key, else NULL");
    now = !was;
#endif
    scan(); assert_inv();
    /* contents = model */
    for(int k = 0; k < 4; k++) {
        if(k == i) VASSERTM(a_cnt[k] == now, "operated key: present afterwards iff the model says so");
        else VASSERTM(a_cnt[k] == PRESENT(k), "every other key is still stored exactly once (findable), absent ones stay absent");
    }
    /* an old table emptied by this operation is unlinked from the lookup chain */
    for(int l = 0; l < 2; l++) if(l < T && lk[l]) {
        int pre_ne = (loc[0] == l) || (loc[1] == l) || (loc[2] == l) || (loc[3] == l);
        VASSERTM(!(pre_ne && a_ne[l] == 0) || !a_lk[l], "an old table emptied by the operation is unlinked from the lookup chain");
        VASSERTM(a_lk[l] || a_ne[l] == 0, "only an empty old table is unlinked");
    }
    /* the operated key, when (still) present, ends in the table that was on top during the operation */
    if(now && (OP != OP_REMOVE)) VASSERTM(a_loc[i] == T, "inserted / found item ends in the current top table (migration from old tables)");
    /* resize: only insert / unlock_bucket may resize, exactly when the documented trigger fires */
    toplen_i = (i == 0) ? a_len[T][HB[0][T]] : (i == 1) ? a_len[T][HB[1][T]] : (i == 2) ? a_len[T][HB[2][T]] : a_len[T][HB[3][T]];
    VASSERTM(a_top == T || a_top == T + 1, "at most one resize");
#if OP == OP_FIND || OP == OP_REMOVE
    VASSERTM(a_top == T, "find / remove never resize");
#else
    VASSERTM((a_top == T + 1) == (toplen_i > hint && (T + 1) + 1 < MAXBITS), "resize exactly when the bucket exceeds max_collisions_hint and max_table_nb_bits allows");
    if(a_top == T + 1) {
        VASSERTM(a_lk[T] == 1, "the resized-away table stays in the lookup chain");
        int n = 0; for(int k = 0; k < 4; k++) if(a_cnt[k] && a_loc[k] == a_top) n++;
        VASSERTM(n == 0, "a fresh top table is empty");
    }
#endif
    /* reachable, non-degenerate instances (phrased so that each is reachable in every table shape) */
    int wl = lk[0] ? 0 : (lk[1] ? 1 : T);      /* lowest level that holds items */
    int all4 = a_cnt[0] + a_cnt[1] + a_cnt[2] + a_cnt[3] == 4;
#if OP == OP_INSERT
    if((T < 2) ? (a_top == T + 1 && toplen_i >= 1 + (hint > 0)) : (toplen_i > hint)) VWITNESS("insert made the bucket exceed the hint: resized (or, at the maximal level, not)");
    if(a_top == T && toplen_i <= hint) VWITNESS("below the collision hint: no resize");
    if(all4) VWITNESS("fourth key inserted");
#elif OP == OP_FIND
    if(was && loc[i] == wl && (wl == T || !a_lk[wl])) VWITNESS("found at the lowest linked level (if old: migrated, that table emptied and unlinked)");
    if(!was) VWITNESS("absent key searched through every linked level");
    if(was && all4) VWITNESS("found among 4 stored keys");
#elif OP == OP_REMOVE
    if(was && loc[i] == wl && (wl == T || !a_lk[wl])) VWITNESS("removed at the lowest linked level (if old: that table emptied and unlinked)");
    if(!was) VWITNESS("absent key");
    if(was && a_cnt[0] + a_cnt[1] + a_cnt[2] + a_cnt[3] == 3) VWITNESS("removed one of 4 stored keys");
#elif OP == OP_FOI || OP == OP_NOLOCK
    if(did_insert && ((T < 2) ? (a_top == T + 1) : (toplen_i > hint))) VWITNESS("insert under the bucket lock, resize at unlock (or, at the maximal level, not)");
    if(!did_insert && loc[i] == wl && (wl == T || !a_lk[wl])) VWITNESS("found at the lowest linked level under the bucket lock");
    if(!did_insert && a_top == T) VWITNESS("found, no resize");
#endif
    return;
#endif
}
#endif

int main(void)
{
#if OP == OP_HASH
    uint64_t key = IN_U64();
    for(int nb = 1; nb <= NBMAX; nb++) {
        uint64_t h = REAL_REHASH((parsec_key_t)key, nb);
        VASSERTM(h < (1ULL << nb), "universal hash of any 64-bit key selects an existing bucket (h < 1<<nb_bits)");
    }
    hash_tables();
    for(int nb = 1; nb <= 3; nb++) {
        VASSERTM(parsec_hash_table_universal_rehash((parsec_key_t)KEY0, nb) == REAL_REHASH((parsec_key_t)KEY0, nb) && parsec_hash_table_universal_rehash((parsec_key_t)KEY1, nb) == REAL_REHASH((parsec_key_t)KEY1, nb)
              && parsec_hash_table_universal_rehash((parsec_key_t)KEY2, nb) == REAL_REHASH((parsec_key_t)KEY2, nb) && parsec_hash_table_universal_rehash((parsec_key_t)KEY3, nb) == REAL_REHASH((parsec_key_t)KEY3, nb),
              "hash memo = real hash on the 4 keys x 3 levels");
    }
    VASSERTM(!vp_memo_miss, "memo covers the domain");
    if(REAL_REHASH((parsec_key_t)key, 3) == 5 && key > 1000) VWITNESS("some large key hashes to bucket 5 of 8");
    return 0;
#elif OP == OP_INIT
    /* closure, base case: the state produced by the real init satisfies INV */
    hash_tables(); T = 0;
    ht.max_collisions_hint = IN_RANGE(0, 2); ht.max_table_nb_bits = MAXBITS;
    ht.rw_lock.rin = IN_INT(); ht.rw_lock.win = IN_INT(); VB0[1].lock = IN_INT(); VB0[0].cur_len = IN_INT(); VB0[1].first_item = &E0.hi;  /* garbage before init */
    parsec_hash_table_init(&ht, offsetof(elt_t, hi), 1, parsec_hash_table_generic_key_fn, NULL);
    scan(); assert_inv();
    VASSERTM(a_top == 0 && a_cnt[0] + a_cnt[1] + a_cnt[2] + a_cnt[3] == 0, "init yields an empty one-level table");
    VASSERTM(ht.elt_hashitem_offset == offsetof(elt_t, hi) && ht.key_functions.key_hash == parsec_hash_table_generic_64bits_key_hash && ht.warning_issued == 0, "init records offset and key functions");
    VASSERTM(parsec_hash_table_item_lookup(&ht, &E1.hi) == &E1, "item_lookup maps the embedded item to its element");
    /* the hash of the 4 keys is what spec.py assumed: collide at 1 bit, split at 2 / 3 bits */
    VASSERTM(HB[0][0] == HB[1][0] && HB[0][0] == HB[2][0] && HB[3][0] != HB[0][0] && HB[0][1] == HB[1][1] && HB[2][1] != HB[0][1] && HB[0][2] != HB[1][2], "key set collides / splits as chosen");
    VASSERTM(HB[0][0] < 2 && HB[3][0] < 2 && HB[0][1] < 4 && HB[2][1] < 4 && HB[3][1] < 4 && HB[0][2] < 8 && HB[1][2] < 8 && HB[2][2] < 8 && HB[3][2] < 8, "hash < number of buckets");
    VWITNESS("init");
    return 0;
#else
    hash_tables();
    /* table shape: one branch per shape so that every table-level pointer is a constant inside the branch */
#ifdef SHAPE
    int shape = SHAPE;
#else
    int shape = IN_RANGE(0, 6);
#endif
    if(shape == 0) { T = 0; lk[0] = 0; lk[1] = 0; body(); }
    else if(shape == 1) { T = 1; lk[0] = 0; lk[1] = 0; body(); }
    else if(shape == 2) { T = 1; lk[0] = 1; lk[1] = 0; body(); }
    else if(shape == 3) { T = 2; lk[0] = 0; lk[1] = 0; body(); }
    else if(shape == 4) { T = 2; lk[0] = 1; lk[1] = 0; body(); }
    else if(shape == 5) { T = 2; lk[0] = 0; lk[1] = 1; body(); }
    else { T = 2; lk[0] = 1; lk[1] = 1; body(); }
    return 0;
#endif
}
