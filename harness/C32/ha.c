/* C32 (sequential half, Engine A): the real parsec_hash_table.c (included) +
 * real parsec_rwlock.c against an array model, across resizes.
 * Keys are 4 concrete values chosen by spec.py (so that they collide at 1 bit
 * and split at 2/3 bits: the 64-bit multiply of the universal hash is then
 * constant-folded); WHICH key and WHICH operation at each of the K steps is
 * symbolic.  nb_bits = 1, max_collisions_hint = HINT (0/1): resizes happen
 * after 1-2 colliding inserts, items migrate lazily from old tables on
 * find/remove. */
#include "vp_harness.h"
#include <stddef.h>
#include <stdlib.h>
/* Allocation = static typed pools (one object per table level), so that the solver sees typed
 * objects of concrete size instead of symbolic-size heap blocks.  Level l holds 1<<(l+1) buckets. */
static void *vp_malloc(size_t sz); static void vp_free(void *p);
#define malloc vp_malloc
#define free vp_free
#include "parsec/class/parsec_hash_table.c"
#undef malloc
#undef free
static parsec_hash_table_head_t VH0, VH1, VH2;
static parsec_hash_table_bucket_t VB0[2], VB1[4], VB2[8];
static int vp_nhead, vp_nbk, vp_freed, vp_alloc_overflow;
static void *vp_malloc(size_t sz)
{
    if(sz == sizeof(parsec_hash_table_head_t)) { int n = vp_nhead++; if(n == 0) return &VH0; if(n == 1) return &VH1; if(n == 2) return &VH2; }
    else { int n = vp_nbk++;
        if(n == 0 && sz == sizeof(VB0)) return VB0; if(n == 1 && sz == sizeof(VB1)) return VB1; if(n == 2 && sz == sizeof(VB2)) return VB2; }
    vp_alloc_overflow = 1; return NULL;
}
static void vp_free(void *p){ (void)p; vp_freed++; }

int parsec_debug_colorize, parsec_debug_rank;
void parsec_output_verbose(int level, int id, const char *fmt, ...) { (void)level; (void)id; (void)fmt; }
int parsec_mca_param_reg_int_name(const char *t, const char *n, const char *h, bool a, bool b, int d, int *s){ (void)t;(void)n;(void)h;(void)a;(void)b;(void)d;(void)s; return -1; }
int parsec_mca_param_lookup_int(int idx, int *v){ (void)idx;(void)v; return -1; }

#ifndef K
#define K 4
#endif
#ifndef MAXBITS
#define MAXBITS 4
#endif
#ifndef HINT
#define HINT 1
#endif
typedef struct { int id; parsec_hash_table_item_t hi; } elt_t;
static elt_t E[4];
static const uint64_t KEYS[4] = { KEY0, KEY1, KEY2, KEY3 };
static int present[4];
static parsec_hash_table_t ht;
static int visits[4], nvisit, bad_visit;
static int resized;

static void visit(void *item, void *cb){ (void)cb; nvisit++;
    if(item == &E[0]) visits[0]++; else if(item == &E[1]) visits[1]++; else if(item == &E[2]) visits[2]++; else if(item == &E[3]) visits[3]++; else bad_visit = 1; }

static inline void do_op(int op, int i, parsec_key_t key)
{
    void *r;
    parsec_hash_table_head_t *before = ht.rw_hash;
    if(op == 0) {            /* insert (caller contract: key not present) */
        VASSUME(!present[i]);
        E[i].hi.key = key;
        parsec_hash_table_insert(&ht, &E[i].hi);
        present[i] = 1;
    } else if(op == 1) {     /* find */
        r = parsec_hash_table_find(&ht, key);
        VASSERTM(r == (present[i] ? (void*)&E[i] : NULL), "find returns the item inserted under this key and not removed since, else NULL");
    } else if(op == 2) {     /* remove */
        r = parsec_hash_table_remove(&ht, key);
        VASSERTM(r == (present[i] ? (void*)&E[i] : NULL), "remove returns the item present under this key, else NULL");
        present[i] = 0;
    } else {                 /* find-or-insert under the bucket lock (handle API, as datarepo / find_deps use it) */
        parsec_key_handle_t kh;
        parsec_hash_table_lock_bucket_handle(&ht, key, &kh);
        r = parsec_hash_table_nolock_find_handle(&ht, &kh);
        VASSERTM(r == (present[i] ? (void*)&E[i] : NULL), "nolock_find_handle agrees with the model");
        if(NULL == r) { E[i].hi.key = key; parsec_hash_table_nolock_insert_handle(&ht, &kh, &E[i].hi); present[i] = 1; }
        parsec_hash_table_unlock_bucket_handle(&ht, &kh);
    }
    if(ht.rw_hash != before) resized++;
}

int main(void)
{
    ht.max_collisions_hint = HINT; ht.max_table_nb_bits = MAXBITS;
    parsec_hash_table_init(&ht, offsetof(elt_t, hi), 1, parsec_hash_table_generic_key_fn, NULL);
    for(int s = 0; s < K; s++) {
        int op = IN_RANGE(0, 3), i = IN_RANGE(0, 3);
        if(i == 0) do_op(op, 0, (parsec_key_t)KEY0); else if(i == 1) do_op(op, 1, (parsec_key_t)KEY1);
        else if(i == 2) do_op(op, 2, (parsec_key_t)KEY2); else do_op(op, 3, (parsec_key_t)KEY3);
    }
    /* quiescent iteration visits each present item exactly once */
    parsec_hash_table_for_all(&ht, visit, NULL);
    VASSERTM(!bad_visit && nvisit == present[0] + present[1] + present[2] + present[3], "for_all visits exactly the present items");
    VASSERTM(visits[0] == present[0] && visits[1] == present[1] && visits[2] == present[2] && visits[3] == present[3], "each present item visited once, absent ones never");
    /* the table lock is free and every old (smaller) table still linked holds at least one item */
    VASSERTM(ht.rw_lock.rin >> 8 == ht.rw_lock.rout >> 8 && ht.rw_lock.win == ht.rw_lock.wout && (ht.rw_lock.rin & 0xff) == 0, "table rwlock released");
    {
        int nheads = 0; parsec_hash_table_head_t *h;
        for(h = ht.rw_hash->next; h != NULL && nheads < 6; h = h->next, nheads++) {
            int items = 0;
            for(size_t b = 0; b < (1ULL << h->nb_bits); b++) {
                VASSERTM(h->buckets[b].lock == 0, "bucket locks of old tables released");
                if(h->buckets[b].first_item != NULL) items++;
            }
            VASSERTM(items > 0, "an emptied old table is unlinked from the lookup chain");
            VASSERTM(items == h->used_buckets, "used_buckets of an old table counts its non-empty buckets");
        }
        VASSERTM(nheads < 6, "old-table chain is finite");
    }
    if(resized >= 1 && present[0] && present[1]) VWITNESS("resized with colliding keys present");
    if(resized >= 2) VWITNESS("two resizes");
    /* drain and destroy: everything removable, fini frees every level */
    for(int i = 0; i < 4; i++) if(present[i]) {
        void *r = (i == 0) ? parsec_hash_table_remove(&ht, (parsec_key_t)KEY0) : (i == 1) ? parsec_hash_table_remove(&ht, (parsec_key_t)KEY1)
                : (i == 2) ? parsec_hash_table_remove(&ht, (parsec_key_t)KEY2) : parsec_hash_table_remove(&ht, (parsec_key_t)KEY3);
        VASSERTM(r == &E[i], "final remove returns the item");
    }
    parsec_hash_table_fini(&ht);
    VASSERTM(ht.rw_hash == NULL, "fini releases the table");
    VASSERTM(!vp_alloc_overflow && vp_freed == vp_nhead + vp_nbk, "every table level allocated is freed exactly once by fini");
    VWITNESS("end");
    return 0;
}
