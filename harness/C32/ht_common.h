/* C32: shared by hi.c (Engine A, inductive) and hc.c (Engine S, concurrent): the real parsec_hash_table.c included with
 * malloc/free served from static typed pools (one head + one bucket array per table level), stubs, the 4 elements, the hash
 * memo, and the abstraction/invariant scan of a table state. */
#ifndef C32_HT_COMMON_H
#define C32_HT_COMMON_H
#include "vp_harness.h"
#include <stddef.h>
#include <stdlib.h>
static void *vp_malloc(size_t sz); static void vp_free(void *p);
#define malloc vp_malloc
#define free vp_free
#include <stdio.h>
static int vp_snprintf(char *b, size_t n, const char *fmt, ...) { (void)b; (void)n; (void)fmt; return 0; }   /* key_print only */
#define snprintf vp_snprintf
#ifdef VP_MEMO_HASH
/* spec.py renames the definition of the real universal hash to vp_real_universal_rehash (patches=); every call in the file
 * reaches this memo of the REAL function on the harness' domain (4 concrete keys x nb_bits 1..3), filled by calling the
 * real function on concrete arguments.  Reason: nolock_insert() re-hashes item->key read through a symbolic item pointer,
 * which would put a 64-bit multiplier + divider per chain position into the formula. */
#include "parsec/class/parsec_hash_table.h"
static uint64_t parsec_hash_table_universal_rehash(parsec_key_t key, int nb_bits);
#endif
#ifdef VP_ATOMIC_RESIZE
/* Engine S, resize scenarios: spec.py renames the definition of parsec_hash_table_resize to vp_real_resize; the calls reach
 * it through a function pointer, i.e. the body of resize (which runs under the table WRITE lock) executes atomically:
 * interleavings inside resize are not explored there, everything around it (the decision, wrlock, the re-check) is. */
#include "parsec/class/parsec_hash_table.h"
static void parsec_hash_table_resize(parsec_hash_table_t *ht);
#endif
#include "parsec/class/parsec_hash_table.c"
#ifdef VP_ATOMIC_RESIZE
static void (*volatile vp_fp_resize)(parsec_hash_table_t*) = vp_real_resize;
static void parsec_hash_table_resize(parsec_hash_table_t *ht) { vp_fp_resize(ht); }
#endif
#undef malloc
#undef free
#undef snprintf
#ifdef VP_MEMO_HASH
static int HB[4][3]; static int vp_memo_miss;
static uint64_t parsec_hash_table_universal_rehash(parsec_key_t key, int nb_bits)
{
    if(nb_bits < 1 || nb_bits > 3) { vp_memo_miss = 1; return 0; }
    if(key == (parsec_key_t)KEY0) return (uint64_t)HB[0][nb_bits - 1];
    if(key == (parsec_key_t)KEY1) return (uint64_t)HB[1][nb_bits - 1];
    if(key == (parsec_key_t)KEY2) return (uint64_t)HB[2][nb_bits - 1];
    if(key == (parsec_key_t)KEY3) return (uint64_t)HB[3][nb_bits - 1];
    vp_memo_miss = 1; return 0;
}
#define REAL_REHASH vp_real_universal_rehash
#else
static int HB[4][3]; static int vp_memo_miss;
#define REAL_REHASH parsec_hash_table_universal_rehash
#endif

#define OP_INSERT 0
#define OP_FIND 1
#define OP_REMOVE 2
#define OP_FOI 3      /* lock_bucket_handle; nolock_find_handle; if absent nolock_insert_handle; unlock_bucket_handle */
#define OP_FORALL 4
#define OP_FINI 5
#define OP_INIT 6
#define OP_HASH 8     /* the real universal hash: range, and the memo used by the other queries equals it */
#define OP_NOLOCK 7   /* lock_bucket; nolock_find; nolock_remove | nolock_insert; unlock_bucket (key API) */
#ifndef OP
#define OP OP_FIND
#endif
#ifndef MAXBITS
#define MAXBITS 4
#endif
#ifndef NBMAX
#define NBMAX 16
#endif

static parsec_hash_table_head_t VH0, VH1, VH2;
static parsec_hash_table_bucket_t VB0[2], VB1[4], VB2[8];
static int vp_nhead, vp_nbk, vp_alloc_overflow;
static int vp_freed_h[3], vp_freed_b[3], vp_freed_bad;
static void *vp_malloc(size_t sz)
{
    /* init and resize allocate a head, then its bucket array (sizeof(head) == sizeof(VB0), so the kind is told by call parity) */
    if(vp_nhead == vp_nbk) { int n = vp_nhead++; if(sz == sizeof(parsec_hash_table_head_t)) { if(n == 0) return &VH0; if(n == 1) return &VH1; if(n == 2) return &VH2; } }
    else { int n = vp_nbk++;
        if(n == 0 && sz == sizeof(VB0)) return VB0; if(n == 1 && sz == sizeof(VB1)) return VB1; if(n == 2 && sz == sizeof(VB2)) return VB2; }
    vp_alloc_overflow = 1; return NULL;
}
static void vp_free(void *p)
{
    if(p == &VH0) vp_freed_h[0]++; else if(p == &VH1) vp_freed_h[1]++; else if(p == &VH2) vp_freed_h[2]++;
    else if(p == VB0) vp_freed_b[0]++; else if(p == VB1) vp_freed_b[1]++; else if(p == VB2) vp_freed_b[2]++;
    else vp_freed_bad = 1;
}

int parsec_debug_colorize, parsec_debug_rank;
void parsec_output_verbose(int level, int id, const char *fmt, ...) { (void)level; (void)id; (void)fmt; }
int parsec_mca_param_reg_int_name(const char *t, const char *n, const char *h, bool a, bool b, int d, int *s){ (void)t;(void)n;(void)h;(void)a;(void)b;(void)d;(void)s; return -1; }
int parsec_mca_param_lookup_int(int idx, int *v){ (void)idx;(void)v; return -1; }

typedef struct { int id; parsec_hash_table_item_t hi; } elt_t;
static elt_t E0, E1, E2, E3;
static const uint64_t KEYS[4] = { KEY0, KEY1, KEY2, KEY3 };
static parsec_hash_table_t ht;
/* HB[i][l]: bucket of key i at level l: the REAL hash on concrete arguments (constant-folded) */

static unsigned char NC[3][8];    /* number of the 4 keys whose hash selects bucket b at level l (concrete) */
static void hash_tables(void)
{
    for(int l = 0; l < 3; l++) {
        HB[0][l] = (int)REAL_REHASH((parsec_key_t)KEY0, l + 1);
        HB[1][l] = (int)REAL_REHASH((parsec_key_t)KEY1, l + 1);
        HB[2][l] = (int)REAL_REHASH((parsec_key_t)KEY2, l + 1);
        HB[3][l] = (int)REAL_REHASH((parsec_key_t)KEY3, l + 1);
        for(int k = 0; k < 4; k++) if(HB[k][l] >= 0 && HB[k][l] < (2 << l)) NC[l][HB[k][l]]++;
    }
}
/* ---------- post-state: abstraction + invariant ---------- */
static int a_top, a_lk[3], a_ne[3]; static unsigned char a_cnt[4], a_len[3][8]; static signed char a_loc[4];
static int bad_item, bad_bucket, bad_key, bad_len, bad_lock, bad_cycle, bad_chain, bad_used, bad_unlinked_nonempty, bad_ntf, bad_head;

/* pointers are first translated to small integers (0 = NULL, 1..4 = item of key 0..3, 5 = anything else), so that the
 * chain walks below run over small integer arrays instead of dereferencing symbolic pointers */
static unsigned char nxt[6];
static inline unsigned char idof(parsec_hash_table_item_t *p)
{ return (p == NULL) ? 0 : (p == &E0.hi) ? 1 : (p == &E1.hi) ? 2 : (p == &E2.hi) ? 3 : (p == &E3.hi) ? 4 : 5; }
static int scan_bucket(int l, parsec_hash_table_bucket_t *b, int bi)
{
    /* only NC[l][bi] (a constant) of the keys may legally sit in this bucket: the walk is bounded by that; a longer chain,
     * a foreign item or a key whose hash selects another bucket is an error */
    int n = 0; unsigned char cur = idof(b->first_item);
    for(; cur != 0 && n < NC[l][bi]; n++) {
        if(cur == 5) { bad_item = 1; break; }
        if(HB[cur - 1][l] != bi) { bad_bucket = 1; break; }
        a_cnt[cur - 1]++; a_loc[cur - 1] = (signed char)l;
        cur = nxt[cur];
    }
    if(cur != 0) bad_cycle = 1;          /* more items than candidate keys (duplicate / cycle), or stopped on an error */
    if(b->cur_len != n) bad_len = 1;
    if(b->lock != 0) bad_lock = 1;
    a_len[l][bi] = (unsigned char)n;
    return n > 0;
}
static void scan_items(void)
{
    nxt[0] = 0; nxt[5] = 5;
    nxt[1] = idof(E0.hi.next_item); nxt[2] = idof(E1.hi.next_item); nxt[3] = idof(E2.hi.next_item); nxt[4] = idof(E3.hi.next_item);
}
static void check_keys(void)
{
    if(a_cnt[0] && (E0.hi.key != (parsec_key_t)KEY0 || E0.hi.hash64 != (uint64_t)KEY0)) bad_key = 1;
    if(a_cnt[1] && (E1.hi.key != (parsec_key_t)KEY1 || E1.hi.hash64 != (uint64_t)KEY1)) bad_key = 1;
    if(a_cnt[2] && (E2.hi.key != (parsec_key_t)KEY2 || E2.hi.hash64 != (uint64_t)KEY2)) bad_key = 1;
    if(a_cnt[3] && (E3.hi.key != (parsec_key_t)KEY3 || E3.hi.hash64 != (uint64_t)KEY3)) bad_key = 1;
}
static void scan(void)
{
    parsec_hash_table_head_t *top = ht.rw_hash, *p;
    a_top = (top == &VH0) ? 0 : (top == &VH1) ? 1 : (top == &VH2) ? 2 : -1;
    if(a_top < 0) { bad_head = 1; return; }
    scan_items();
    /* lookup chain: strictly decreasing levels below the top, NULL-terminated */
    p = top->next;
    if(a_top > 1) { if(p == &VH1) { a_lk[1] = 1; p = VH1.next; } }
    if(a_top > 0) { if(p == &VH0) { a_lk[0] = 1; p = VH0.next; } }
    if(p != NULL) bad_chain = 1;
    /* allocation chain: all levels a_top..0 */
    if(a_top == 2 && (VH2.next_to_free != &VH1 || VH1.next_to_free != &VH0 || VH0.next_to_free != NULL)) bad_ntf = 1;
    if(a_top == 1 && (VH1.next_to_free != &VH0 || VH0.next_to_free != NULL)) bad_ntf = 1;
    if(a_top == 0 && VH0.next_to_free != NULL) bad_ntf = 1;
    if(VH0.nb_bits != 1 || VH0.buckets != VB0 || (a_top >= 1 && (VH1.nb_bits != 2 || VH1.buckets != VB1)) || (a_top >= 2 && (VH2.nb_bits != 3 || VH2.buckets != VB2))) bad_head = 1;
    /* a linked old table: used_buckets = number of its non-empty buckets (it may be empty: two concurrent migrations can
     * leave an emptied table linked, see hc.c); an unlinked one must be empty (else its items became unreachable) */
    int ne;
    ne = 0; for(int b = 0; b < 2; b++) ne += scan_bucket(0, &VB0[b], b);
    a_ne[0] = ne;
    if(a_top > 0) { if(a_lk[0]) { if(VH0.used_buckets != ne) bad_used = 1; } else if(ne != 0) bad_unlinked_nonempty = 1; }
    if(a_top >= 1) {
        ne = 0; for(int b = 0; b < 4; b++) ne += scan_bucket(1, &VB1[b], b);
        a_ne[1] = ne;
        if(a_top > 1) { if(a_lk[1]) { if(VH1.used_buckets != ne) bad_used = 1; } else if(ne != 0) bad_unlinked_nonempty = 1; }
    }
    if(a_top >= 2) { ne = 0; for(int b = 0; b < 8; b++) ne += scan_bucket(2, &VB2[b], b); a_ne[2] = ne; }
    check_keys();
}
static void assert_inv(void)
{
    VASSERTM(!vp_memo_miss, "hash memo covers every (key, nb_bits) the code asked for");
    VASSERTM(!bad_head, "INV: rw_hash is a table level with its own nb_bits and bucket array");
    VASSERTM(!bad_chain, "INV: lookup chain = linked older levels in decreasing order, NULL-terminated");
    VASSERTM(!bad_ntf, "INV: next_to_free chains every allocated level");
    VASSERTM(!bad_item && !bad_cycle, "INV: bucket chains are NULL-terminated lists of known items, no longer than the keys hashing there");
    VASSERTM(!bad_bucket, "INV: every item sits in the bucket its hash selects at that level");
    VASSERTM(!bad_key, "INV: item key / hash64 intact");
    VASSERTM(!bad_len, "INV: cur_len equals the chain length in every bucket of every level");
    VASSERTM(!bad_lock, "bucket locks released (all levels)");
    VASSERTM(!bad_used, "INV: used_buckets of a linked old table counts its non-empty buckets");
    VASSERTM(!bad_unlinked_nonempty, "INV: an unlinked old table holds no item (nothing becomes unreachable)");
    VASSERTM(a_cnt[0] <= 1 && a_cnt[1] <= 1 && a_cnt[2] <= 1 && a_cnt[3] <= 1, "INV: unique keys");
    VASSERTM(ht.rw_lock.rin >> 8 == ht.rw_lock.rout >> 8 && ht.rw_lock.win == ht.rw_lock.wout && (ht.rw_lock.rin & 0xff) == 0, "table rwlock released");
    VASSERTM(!vp_alloc_overflow && vp_nhead == a_top + 1 && vp_nbk == a_top + 1, "one head + one bucket array allocated per level");
}

#endif
