from vp.api import Q, Mutant
from vp.seqir import seqir
TITLE = "The concurrent hash table is a linearizable map across resizes"
U = "parsec/class/parsec_hash_table.c"
RW = "parsec/class/parsec_rwlock.c"
OUTSIDE = ["more than 4 distinct keys / more than 3 table levels (2, 4, 8 buckets)", "user key functions other than the generic 64-bit one",
           "weak-memory reorderings (SC only)", "HELPFIRST variant (not compiled in)", "allocation failure",
           "concurrent half: schedules in which a thread gets more than R scheduling slots before the drain phase; more than 2 threads",
           "concurrent half, scenarios with a resizing thread: interleavings INSIDE the body of parsec_hash_table_resize (it runs under the table write lock; the decision, the lock acquisition and the re-check around it are interleaved)"]
ASSUMPTIONS = ["caller contract: a key is inserted only if absent (the table does not check duplicates)",
               "Engine S yield elision: no yield before loads of struct fields that no thread stores to in the scenario (declared per query in seqir.ro_fields; a thread store to such a field is an INTERNAL assertion failure of the same query)",
               "mca parameters not registered (index = PARSEC_ERROR): max_collisions_hint / max_table_nb_bits set directly by the harness",
               "inductive argument: INV holds after init (query init), every operation from every INV state re-establishes INV and changes the contents as the map model says (one query per operation kind) => histories of any length over <=4 keys / <=3 levels"]
BOUNDS = {"quick": {"keys": 4, "levels": "1..3", "hint": "0..2 (symbolic)", "operations": "1 from every valid state"},
          "thorough": {"keys": 4, "levels": "1..3", "concurrent": "2 threads x 1 operation each (5 scenarios): R=2 scheduling slots per thread + drain; R=1 + drain for the two scenarios with a resizing thread"}}

def rehash(k, nb):
    a = 0xaa88564915a; b = 0x165e44f1fc94; M = (1 << 64) - 1
    k32 = ((k >> 32) ^ k) & M
    return ((((a * k32) & M) + b) & M) % (1 << (32 + nb)) // (1 << 32)
def pick_keys():
    # k0,k1,k2 collide at 1 bit, k3 goes elsewhere; k0,k1 still collide at 2 bits, k2 splits; k0,k1 split at 3 bits
    ks = list(range(1, 400))
    for k0 in ks:
        for k1 in ks:
            if k1 <= k0 or rehash(k1, 1) != rehash(k0, 1) or rehash(k1, 2) != rehash(k0, 2) or rehash(k1, 3) == rehash(k0, 3): continue
            for k2 in ks:
                if k2 in (k0, k1) or rehash(k2, 1) != rehash(k0, 1) or rehash(k2, 2) == rehash(k0, 2): continue
                for k3 in ks:
                    if k3 in (k0, k1, k2) or rehash(k3, 1) == rehash(k0, 1): continue
                    return [k0, k1, k2, k3]
KEYS = pick_keys()
KD = ["KEY%d=%dULL" % (i, k) for i, k in enumerate(KEYS)]
OPS = {"insert": 0, "find": 1, "remove": 2, "find_or_insert_handle": 3, "for_all": 4, "fini": 5, "init": 6, "lock_nolock_ops_unlock": 7, "hash": 8}
SHAPES = ["T0", "T1_old0unlinked", "T1_old0", "T2_unlinked", "T2_old0", "T2_old1", "T2_old0_old1"]
UF = {"parsec_atomic_lock": 2, "parsec_atomic_rwlock_rdlock": 2, "parsec_atomic_rwlock_wrlock": 2,
      "parsec_hash_table_nolock_find_handle": 5, "parsec_hash_table_nolock_remove_handle": 5,
      "parsec_hash_table_nolock_find_in_old_tables": 5, "parsec_hash_table_nolock_remove_from_old_tables": 5,
      "scan_bucket": 5}
# the definition of the real hash is renamed; hi.c routes the calls through a memo of it (see hi.c)
MEMO = [(U, r"^static uint64_t parsec_hash_table_universal_rehash\(", "static uint64_t vp_real_universal_rehash(")]
FUNCS = ["parsec_hash_table_init", "insert_impl", "find", "remove", "lock_bucket(_handle)", "nolock_find(_handle)", "nolock_insert(_handle)", "nolock_remove(_handle)",
         "unlock_bucket(_handle)_impl", "resize", "nolock_find_in_old_tables", "nolock_remove_from_old_tables", "for_all", "fini", "universal_rehash",
         "parsec_atomic_rwlock_* (real, linked)"]
STUBS = ["parsec_output_verbose (empty)", "mca param registration (returns PARSEC_ERROR)", "malloc/free = static typed pools, one head + one bucket array per level",
         "calls of parsec_hash_table_universal_rehash go through a memo of the REAL function on the domain 4 keys x nb_bits 1..3 (filled by running the real function; query ind_hash checks memo = real and the range of the real function for every 64-bit key)"]

SCEN = {1: ("insert_resize_vs_find_remove", "L0={k0}, hint 1; T0 insert(k1) -> resize || T1 find(k0); remove(k0)"),
        2: ("migrate_vs_remove_same_old_bucket", "old L0={k0,k2}, top L1 empty; T0 find(k0) (migrates) || T1 remove(k2)"),
        3: ("insert_vs_insert_resize", "empty, hint 0; T0 insert(k0) || T1 insert(k1): racing resizes"),
        4: ("find_oldest_vs_remove_middle", "L0={k0}, L1={k1}, top L2; T0 find(k0) || T1 remove(k1) (unlinks L1 under the finder)"),
        5: ("find_or_insert_same_key", "empty, hint 0; both threads lock_bucket_handle/find/insert-if-absent/unlock on ONE key with their own element"),
        6: ("remove_vs_remove_same_key", "old L0={k0,k2}, top L1 empty; T0 remove(k0) || T1 remove(k0)"),
        8: ("unlock_resize_vs_find", "L0={k0}, hint 1, T0 already inside a colliding insert (handle API, done by setup); T0 unlock_bucket_handle -> resize || T1 find(k0)"),
        9: ("unlock_resize_vs_remove", "same; T1 remove(k0)"),
        7: ("colliding_inserts_resize", "L0={k0}, hint 1; T0 insert(k1) || T1 insert(k2); find(k0)")}
def thread_loop_bounds(inner, threads, spin, other, big):
    """Engine S: --unwind N would apply to every (nested) loop of the big inlined thread functions.  After the generator
    ran, give each loop of a thread function its own bound: stutter-pruned spin loops (lock acquisition) `spin`, all other
    loops (bucket chains, old-table chain) `other`, except {("threadN", k): bound} in `big` (resize loops over buckets).
    Loops are numbered by goto-cc in the order of their backward gotos.  Unwinding assertions stay on: a bound that is too
    small is reported as an internal error, never as a pass."""
    import re
    def gen(ctx, q, qdir, overlays):
        inner(ctx, q, qdir, overlays)
        txt = open(q.srcs[-1]).read().split("\n")
        for t in threads:
            q.unwind_fn.pop(t, None)
            start = next(i for i, l in enumerate(txt) if l.startswith("static void %s(void) {" % t))
            labels, k = {}, 0
            for i in range(start, len(txt)):
                l = txt[i]
                if l.startswith("}"): break
                m = re.match(r"\s*(B_\w+): ;", l)
                if m: labels[m.group(1)] = i
                for g in re.finditer(r"goto (B_\w+);", l):
                    if g.group(1) in labels:          # backward goto = one loop
                        b = big.get((t, k), spin if "VASSUME(0)" in l else other)
                        q.unwindset.append("%s.%d:%d" % (t, k, b)); k += 1
            q.info.setdefault("seqir", {})["thread_loops_" + t] = k
    return gen
def queries(ctx):
    qs = []
    def ind(name, shape=None, extra=(), tiers=("quick", "thorough"), checks=(), timeout=1500, unwindset=()):
        qn = "ind_" + name + ("_" + SHAPES[shape] if shape is not None else "")
        qs.append(Q(qn, ["hi.c", "repo:" + RW], defs=KD + ["VP_MEMO_HASH=1", "OP=%d" % OPS.get(name, 1)] + (["SHAPE=%d" % shape] if shape is not None else []) + list(extra),
                    unwind=9, unwind_fn=UF, unwindset=list(unwindset), patches=MEMO, extra_cbmc=["--slice-formula"],
                    units=[U, "parsec/class/parsec_hash_table.h"], checks=list(checks), object_bits=12, timeout=timeout, tiers=tiers,
                    info={"symbolic": ["pre-state: per key absent / level where stored, order inside buckets, max_collisions_hint 0..2, rwlock ticket counters, warning flag"
                                       + ("" if shape is not None else ", table shape (top level 0..2, which old levels are linked)"),
                                       "which of the 4 keys is operated on"],
                          "enumerated": ["operation kind = %s" % name, "4 concrete keys %s (collide at 1 bit, split at 2 and 3 bits)" % KEYS]
                                        + (["table shape = %s (one query per shape: 7 shapes)" % SHAPES[shape]] if shape is not None else []),
                          "bounds": {"levels": 3, "keys": 4, "max_table_nb_bits": 4},
                          "functions": FUNCS, "stubs": STUBS}))
    ind("selfcheck", extra=["SELFCHECK=1"])
    ind("hash", extra=["NBMAX=24"], unwindset=["main.0:25"])
    for name in ("init", "for_all", "fini"):
        ind(name)
    for name in ("insert", "find", "remove", "find_or_insert_handle", "lock_nolock_ops_unlock"):
        for sh in range(7):
            heavy = (name == "lock_nolock_ops_unlock" and sh in (4, 5, 6))     # 40-100 s each: thorough tier
            ind(name, sh, tiers=("thorough",) if heavy else ("quick", "thorough"))
    # ---- concurrent half (Engine S)
    RO_BASE = ["parsec_hash_table_s.2", "parsec_hash_table_s.3", "parsec_hash_table_s.4", "parsec_hash_table_s.5", "parsec_hash_table_s.6",
               "parsec_key_fn_s.0", "parsec_key_fn_s.1", "parsec_key_fn_s.2", "parsec_hash_table_item_s.2"]
    RO_NORESIZE = RO_BASE + ["parsec_hash_table_s.8", "parsec_hash_table_head_s.1", "parsec_hash_table_head_s.2", "parsec_hash_table_head_s.4"]
    ATOMIC_RESIZE = [(U, r"^static void parsec_hash_table_resize\(", "static void vp_real_resize(")]
    def conc(sc, R, tiers, keys=None, extra=(), timeout=3000, other=4, big=None, ro=RO_BASE, atomic_resize=False, mem_gb=None):
        name, what = SCEN[sc]
        kd = ["KEY%d=%dULL" % (i, k) for i, k in enumerate(keys or KEYS)]
        if atomic_resize: extra = list(extra) + ["VP_ATOMIC_RESIZE=1"]
        qs.append(Q("conc_%s_r%d" % (name, R), [], defs=kd + ["SCEN=%d" % sc] + list(extra), engine="S", patches=ATOMIC_RESIZE if atomic_resize else [],
                    units=[U, "parsec/class/parsec_hash_table.h", RW],
                    gen=thread_loop_bounds(seqir(["hc.c", "repo:" + RW], threads=["thread0", "thread1"], rounds=R, drain=True, benign=["nanosleep"], ro_fields=ro),
                                           ["thread0", "thread1"], spin=3, other=other, big=big or {}),
                    unwind=9, object_bits=12, timeout=timeout, tiers=tiers, slow=True, mem_gb=mem_gb, extra_cbmc=["--slice-formula"],
                    info={"symbolic": ["schedule: every SC interleaving with <= %d scheduling slots per thread, then deterministic drain (both threads must complete)" % R],
                          "enumerated": ["scenario: " + what, "keys %s" % (keys or KEYS)],
                          "bounds": {"threads": 2, "rounds": R, "levels": 3},
                          "functions": FUNCS + ["key_functions.* are indirect calls: atomic"] + (["parsec_hash_table_resize body: atomic (runs under the write lock)"] if atomic_resize else []),
                          "stubs": [x for x in STUBS if "memo" not in x] + ["nanosleep (benign, elided)"]}))
    # cost: ~40 yield points per operation after --ro-fields; 2 threads x 1-2 operations at R=2 = 5-8 M variables: thorough tier only
    for sc in (2, 4, 6):
        conc(sc, 2, ("thorough",), ro=RO_NORESIZE, timeout=5400)
    # with resize atomic, nb_bits / buckets / next_to_free of a table are written only on the NEW table inside the atomic step that
    # publishes it (immutable afterwards): loads of them commute with every other step
    RO_ATOMIC_RESIZE = RO_BASE + ["parsec_hash_table_head_s.1", "parsec_hash_table_head_s.2", "parsec_hash_table_head_s.4"]
    for sc in (8, 9):
        conc(sc, 1, ("thorough",), timeout=5400, atomic_resize=True, ro=RO_ATOMIC_RESIZE, other=3)
    # Scenarios 1, 3, 5, 7 of hc.c (whole inserts racing with each other / with find+remove: 110-190 yield points) are beyond reach
    # (no verdict in 75 min, see the report); the resize race is covered by 8 and 9 (second half of the insert).
    return qs
def mutants(ctx):
    return [
      Mutant("migration_forgets_cur_len", U, "                current_item->next_item = NULL;\n                res = --(head->buckets[hash].cur_len);", "                current_item->next_item = NULL;\n                res = (head->buckets[hash].cur_len);",
             queries=["ind_find_T1_old0"]),
      Mutant("find_old_prev_head_not_advanced", U, "        parsec_atomic_unlock( &head->buckets[hash].lock );\n        prev_head = head;\n    }\n    return NULL;\n}\n#endif", "        parsec_atomic_unlock( &head->buckets[hash].lock );\n    }\n    return NULL;\n}\n#endif",
             queries=["ind_find_T2_old0_old1"]),
      Mutant("old_table_unlink_skips", U, "                if( 0 == res ) {\n                    res = parsec_atomic_fetch_dec_int32(&head->used_buckets);\n                    if( 1 == res ) {\n                        parsec_atomic_cas_ptr(&prev_head->next, head, head->next);\n                    }\n                }\n                parsec_hash_table_nolock_insert(ht, current_item);", "                if( 0 == res ) {\n                    res = parsec_atomic_fetch_dec_int32(&head->used_buckets);\n                }\n                parsec_hash_table_nolock_insert(ht, current_item);",
             queries=["ind_find_T1_old0"]),
      Mutant("find_old_tables_stops_at_first", U, "        parsec_atomic_unlock( &head->buckets[hash].lock );\n        prev_head = head;\n    }\n    return NULL;\n}\n#endif", "        parsec_atomic_unlock( &head->buckets[hash].lock );\n        prev_head = head; break;\n    }\n    return NULL;\n}\n#endif",
             queries=["ind_find_T2_old0_old1"]),
      Mutant("remove_old_unlinks_one_early", U, "                    res = parsec_atomic_fetch_dec_int32(&head->used_buckets);\n                    if( 1 == res ) {\n                        parsec_atomic_cas_ptr(&prev_head->next, head, head->next);\n                    }\n                }\n                parsec_atomic_unlock(&head->buckets[hash].lock );\n                return BASEADDROF(current_item, ht);",
             "                    res = parsec_atomic_fetch_dec_int32(&head->used_buckets);\n                    if( 2 >= res ) {\n                        parsec_atomic_cas_ptr(&prev_head->next, head, head->next);\n                    }\n                }\n                parsec_atomic_unlock(&head->buckets[hash].lock );\n                return BASEADDROF(current_item, ht);",
             queries=["ind_remove_T1_old0"]),
      Mutant("remove_top_forgets_cur_len", U, "            --(ht->rw_hash->buckets[hash].cur_len);\n", "            ;\n", queries=["ind_remove_T0"]),
      Mutant("remove_middle_unlinks_wrong", U, "            } else {\n                prev_item->next_item = current_item->next_item;\n            }\n            --(ht->rw_hash->buckets[hash].cur_len);", "            } else {\n                prev_item->next_item = NULL;\n            }\n            --(ht->rw_hash->buckets[hash].cur_len);", queries=["ind_remove_T0"]),
      Mutant("resize_forgets_used_buckets", U, "    old_head->used_buckets = used_buckets;\n", "    (void)used_buckets;\n", queries=["ind_insert_T0"]),
      Mutant("insert_resize_off_by_one", U, "    parsec_hash_table_nolock_insert(ht, item);\n    if( ht->rw_hash->buckets[hash].cur_len > ht->max_collisions_hint ) {", "    parsec_hash_table_nolock_insert(ht, item);\n    if( ht->rw_hash->buckets[hash].cur_len >= ht->max_collisions_hint ) {", queries=["ind_insert_T0"]),
      Mutant("for_all_skips_old_tables", U, "    for( head = ht->rw_hash; NULL != head; head = head->next ) {\n        for( size_t i = 0; i < (1ULL<<head->nb_bits); i++ ) {\n            current_item = head->buckets[i].first_item;", "    for( head = ht->rw_hash; NULL != head; head = NULL ) {\n        for( size_t i = 0; i < (1ULL<<head->nb_bits); i++ ) {\n            current_item = head->buckets[i].first_item;", queries=["ind_for_all"]),
      Mutant("fini_follows_lookup_chain", U, "        next = head->next_to_free;\n        head->next_to_free = NULL;", "        next = head->next;\n        head->next_to_free = NULL;", queries=["ind_fini"]),
      Mutant("unlock_handle_resize_off_by_one", U, "    assert( hash < (1ULL<<ht->rw_hash->nb_bits) );\n    if( ht->rw_hash->buckets[hash].cur_len > ht->max_collisions_hint ) {\n        if( (int)ht->rw_hash->nb_bits + 1 < ht->max_table_nb_bits )\n            resize = 1;\n        else {\n            if( !ht->warning_issued ) {\n                parsec_warning(\"%s:%d -- Hash table has %d collisions in bucket %lu, but it already spans over %lu buckets. Performance might get very bad if more elements continue to stack in this bucket. Consider allowing larger resize with the MCA parameter parsec_hash_table_max_table_nb_bits\",\n                               file, line, ht->rw_hash->buckets[hash].cur_len, hash, (1UL<<ht->rw_hash->nb_bits));\n                ht->warning_issued = 1;\n            }\n        }\n    }\n    cur_head = ht->rw_hash;",
             "    if( ht->rw_hash->buckets[hash].cur_len >= ht->max_collisions_hint ) {\n        if( (int)ht->rw_hash->nb_bits + 1 < ht->max_table_nb_bits )\n            resize = 1;\n    }\n    cur_head = ht->rw_hash;", queries=["ind_find_or_insert_handle_T0"]),
    ] + ([
      # concurrency mutants: only the (thorough-tier) Engine S queries can see them
      Mutant("find_old_table_without_bucket_lock", U, "        parsec_atomic_lock( &head->buckets[hash].lock );\n        for(current_item = head->buckets[hash].first_item;", "        for(current_item = head->buckets[hash].first_item;", queries=["conc_migrate_vs_remove_same_old_bucket_r2"]),
    ] if ctx.thorough else [])
CLAIMED = True
MANIFEST = {
 "engine": "cbmc-src",
 "text": "Bounded model checking of the real parsec_hash_table.c (with the real parsec_rwlock.c). Sequential half, inductive: from EVERY valid table state over 4 colliding/splitting keys and 1..3 table levels (symbolic: which keys are stored, at which level, in which order inside a bucket, which old levels are still linked, max_collisions_hint, lock counters; one query per operation kind and table shape) ONE operation - insert, find, remove, find-or-insert through lock_bucket_handle/nolock_find_handle/nolock_insert_handle/unlock_bucket_handle, the lock_bucket/nolock_*/unlock_bucket key API, for_all, fini - is executed symbolically and the solver shows: the result equals the map model, every other key stays stored exactly once in the bucket its hash selects, the representation invariant is re-established (so histories of any length are covered; init establishes it), resize happens exactly when the documented trigger fires, an old table emptied by the operation is unlinked, all locks are released, for_all visits each stored item once, fini frees every level once. Concurrent half (thorough tier): the same code under symbolic schedules (IR-level sequentialization), 2 threads x 1 operation around a pending resize / a migration out of an old table / the unlinking of an emptied table, results and final contents compared with the sequential orders, bounded progress (no deadlock) asserted.",
 "note": "4 concrete keys, <=3 levels (2/4/8 buckets), generic 64-bit key functions; the universal hash is routed through a memo of the real function on that domain (checked equal; range of the real function checked for every 64-bit key); malloc served from static pools; SC memory model; concurrent scenarios bounded by R=2 (R=1 where a thread resizes) scheduling slots per thread + drain, the body of resize atomic there, yields elided only before loads of fields no thread writes (asserted).",
 "technique": "CBMC bounded model checking + SAT on the real translation unit (one operation from a symbolic valid pre-state); IR-level sequentialization (clang LLVM IR -> ll2c.py) + CBMC for the concurrent scenarios",
}
