from vp.api import Q, Mutant
from vp.seqir import seqir
TITLE = "The concurrent hash table is a linearizable map across resizes"
U = "parsec/class/parsec_hash_table.c"
RW = "parsec/class/parsec_rwlock.c"
OUTSIDE = ["more than 4 distinct keys / more than 3 table levels (2, 4, 8 buckets)", "user key functions other than the generic 64-bit one",
           "weak-memory reorderings (SC only)", "HELPFIRST variant (not compiled in)", "allocation failure",
           "concurrent half: schedules in which a thread gets more than R scheduling slots before the drain phase; more than 2 threads"]
ASSUMPTIONS = ["caller contract: a key is inserted only if absent (the table does not check duplicates)",
               "mca parameters not registered (index = PARSEC_ERROR): max_collisions_hint / max_table_nb_bits set directly by the harness",
               "inductive argument: INV holds after init (query init), every operation from every INV state re-establishes INV and changes the contents as the map model says (one query per operation kind) => histories of any length over <=4 keys / <=3 levels"]
BOUNDS = {"quick": {"keys": 4, "levels": "1..3", "hint": "0..2 (symbolic)", "operations": "1 from every valid state"}, "thorough": {}}

def rehash(k, nb):
    a = 0xaa88564915a; b = 0x165e44f1fc94; M = (1 << 64) - 1
    k32 = ((k >> 32) ^ k) & M
    return ((((a * k32) & M) + b) & M) % (1 << (32 + nb)) // (1 << 32)
def pick_keys():
    # k0,k1,k2 collide at 1 bit, k3 goes elsewhere; k0,k1 still collide at 2 bits, k2 splits; k0,k1 split at 3 bits
    ks = list(range(1, 400))
    for k0 in ks:
        for k1 in ks:
            if k1 <= k0 or rehash(k1, 1) != rehash(k0, 1) or rehash(k1, 2) != rehash(k0, 2) or rehash(k1, 3) == rehash(k0, 3): continue
            for k2 in ks:
                if k2 in (k0, k1) or rehash(k2, 1) != rehash(k0, 1) or rehash(k2, 2) == rehash(k0, 2): continue
                for k3 in ks:
                    if k3 in (k0, k1, k2) or rehash(k3, 1) == rehash(k0, 1): continue
                    return [k0, k1, k2, k3]
KEYS = pick_keys()
KD = ["KEY%d=%dULL" % (i, k) for i, k in enumerate(KEYS)]
OPS = {"insert": 0, "find": 1, "remove": 2, "find_or_insert_handle": 3, "for_all": 4, "fini": 5, "init": 6, "lock_nolock_ops_unlock": 7}
UF = {"parsec_atomic_lock": 2, "parsec_atomic_rwlock_rdlock": 2, "parsec_atomic_rwlock_wrlock": 2,
      "parsec_hash_table_nolock_find_handle": 5, "parsec_hash_table_nolock_remove_handle": 5,
      "parsec_hash_table_nolock_find_in_old_tables": 5, "parsec_hash_table_nolock_remove_from_old_tables": 5,
      "scan_bucket": 6}

def queries(ctx):
    qs = []
    def ind(name, extra=(), tiers=("quick", "thorough"), checks=()):
        qs.append(Q("ind_" + name + ("_mem" if checks else ""), ["hi.c", "repo:" + RW], defs=KD + ["OP=%d" % OPS.get(name, 1)] + list(extra), unwind=9, unwind_fn=UF,
                    units=[U, "parsec/class/parsec_hash_table.h"], checks=list(checks), object_bits=12, timeout=1500, tiers=tiers,
                    info={"symbolic": ["pre-state: top level T in 0..2, which old levels are linked, per key absent / level where stored, order inside buckets, max_collisions_hint 0..2, rwlock ticket counters",
                                       "which of the 4 keys is operated on"],
                          "enumerated": ["operation kind = %s" % name, "4 concrete keys %s (collide at 1 bit, split at 2 and 3 bits)" % KEYS],
                          "bounds": {"levels": 3, "keys": 4, "max_table_nb_bits": 4},
                          "functions": ["parsec_hash_table_init", "insert_impl", "find", "remove", "lock_bucket(_handle)", "nolock_find(_handle)", "nolock_insert(_handle)", "nolock_remove(_handle)",
                                        "unlock_bucket(_handle)_impl", "resize", "nolock_find_in_old_tables", "nolock_remove_from_old_tables", "for_all", "fini", "universal_rehash",
                                        "parsec_atomic_rwlock_* (real, linked)"],
                          "stubs": ["parsec_output_verbose (empty)", "mca param registration (returns PARSEC_ERROR)", "malloc/free = static typed pools, one head + one bucket array per level"]}))
    ind("selfcheck", ["SELFCHECK=1"])
    for name in ("init", "insert", "find", "remove", "find_or_insert_handle", "lock_nolock_ops_unlock", "for_all", "fini"):
        ind(name)
    return qs
def mutants(ctx):
    return [
      Mutant("migration_forgets_cur_len", U, "                current_item->next_item = NULL;\n                res = --(head->buckets[hash].cur_len);", "                current_item->next_item = NULL;\n                res = (head->buckets[hash].cur_len);"),
      Mutant("remove_prev_not_advanced", U, "            return BASEADDROF(current_item, ht);\n        }\n        prev_item = current_item;\n    }\n    return parsec_hash_table_nolock_remove_from_old_tables(ht, handle->key);", "            return BASEADDROF(current_item, ht);\n        }\n        if(NULL == prev_item) prev_item = current_item;\n    }\n    return parsec_hash_table_nolock_remove_from_old_tables(ht, handle->key);"),
      Mutant("old_table_unlink_skips", U, "                if( 0 == res ) {\n                    res = parsec_atomic_fetch_dec_int32(&head->used_buckets);\n                    if( 1 == res ) {\n                        parsec_atomic_cas_ptr(&prev_head->next, head, head->next);\n                    }\n                }\n                parsec_hash_table_nolock_insert(ht, current_item);", "                if( 0 == res ) {\n                    res = parsec_atomic_fetch_dec_int32(&head->used_buckets);\n                }\n                parsec_hash_table_nolock_insert(ht, current_item);"),
      Mutant("find_old_tables_stops_at_first", U, "        parsec_atomic_unlock( &head->buckets[hash].lock );\n        prev_head = head;\n    }\n    return NULL;\n}\n#endif", "        parsec_atomic_unlock( &head->buckets[hash].lock );\n        prev_head = head; break;\n    }\n    return NULL;\n}\n#endif"),
    ]
CLAIMED = False
