from vp.api import Q, Mutant
from vp.seqir import seqir
TITLE = "The concurrent hash table is a linearizable map across resizes"
U = "parsec/class/parsec_hash_table.c"
RW = "parsec/class/parsec_rwlock.c"
OUTSIDE = ["more than 4 distinct keys / histories longer than K", "user key functions other than the generic 64-bit one",
           "weak-memory reorderings (SC only)", "HELPFIRST variant (not compiled in)", "allocation failure"]
ASSUMPTIONS = ["caller contract: a key is inserted only if absent (the table does not check duplicates)",
               "mca parameters not registered (index = PARSEC_ERROR): max_collisions_hint / max_table_nb_bits set directly by the harness"]
BOUNDS = {"quick": {"K": 4, "keys": 4, "hint": [0, 1]}, "thorough": {"K": "4..6"}}

def rehash(k, nb):
    a = 0xaa88564915a; b = 0x165e44f1fc94; M = (1 << 64) - 1
    k32 = ((k >> 32) ^ k) & M
    return ((((a * k32) & M) + b) & M) % (1 << (32 + nb)) // (1 << 32)
def pick_keys():
    # k0,k1,k2 collide at 1 bit, k3 goes elsewhere; k0,k1 still collide at 2 bits, k2 splits; k0,k1 split at 3 bits
    ks = list(range(1, 400))
    for k0 in ks:
        for k1 in ks:
            if k1 <= k0 or rehash(k1, 1) != rehash(k0, 1) or rehash(k1, 2) != rehash(k0, 2) or rehash(k1, 3) == rehash(k0, 3): continue
            for k2 in ks:
                if k2 in (k0, k1) or rehash(k2, 1) != rehash(k0, 1) or rehash(k2, 2) == rehash(k0, 2): continue
                for k3 in ks:
                    if k3 in (k0, k1, k2) or rehash(k3, 1) == rehash(k0, 1): continue
                    return [k0, k1, k2, k3]
KEYS = pick_keys()

def queries(ctx):
    qs = []
    kd = ["KEY%d=%dULL" % (i, k) for i, k in enumerate(KEYS)]
    def seq(K, hint, tiers):
        qs.append(Q("seq_k%d_hint%d" % (K, hint), ["ha.c", "repo:" + RW], defs=kd + ["K=%d" % K, "HINT=%d" % hint], unwind=9, units=[U, "parsec/class/parsec_hash_table.h"],
                    unwind_fn={"parsec_atomic_lock": 2, "parsec_atomic_rwlock_rdlock": 2, "parsec_atomic_rwlock_wrlock": 2, "parsec_hash_table_init": 3,
                               "parsec_hash_table_nolock_find_handle": 5, "parsec_hash_table_nolock_remove_handle": 5,
                               "parsec_hash_table_nolock_find_in_old_tables": 5, "parsec_hash_table_nolock_remove_from_old_tables": 5},
                    checks=["bounds", "pointer"], object_bits=12, timeout=3000, tiers=tiers, slow=True,
                    info={"symbolic": ["operation kind (insert/find/remove/find-or-insert with handle) and key index at each of K steps"],
                          "enumerated": ["max_collisions_hint", "4 concrete keys %s (collide at 1 bit, split at 2 and 3 bits)" % KEYS],
                          "bounds": {"K": K, "nb_bits_initial": 1, "max_table_nb_bits": 5},
                          "functions": ["parsec_hash_table_init", "insert_impl", "find", "remove", "lock_bucket_handle", "nolock_find_handle", "nolock_insert_handle",
                                        "unlock_bucket_handle_impl", "resize", "nolock_find_in_old_tables", "nolock_remove_from_old_tables", "for_all", "fini"],
                          "stubs": ["parsec_output_verbose (empty)", "mca param registration (returns PARSEC_ERROR)"]}))
    seq(2, 0, ("quick", "thorough"))
    seq(3, 0, ("quick", "thorough"))
    if ctx.thorough:
        seq(5, 1, ("thorough",)); seq(5, 0, ("thorough",)); seq(6, 1, ("thorough",))
    return qs
def mutants(ctx):
    return [
      Mutant("migration_forgets_cur_len", U, "                current_item->next_item = NULL;\n                res = --(head->buckets[hash].cur_len);", "                current_item->next_item = NULL;\n                res = (head->buckets[hash].cur_len);"),
      Mutant("remove_prev_not_advanced", U, "            return BASEADDROF(current_item, ht);\n        }\n        prev_item = current_item;\n    }\n    return parsec_hash_table_nolock_remove_from_old_tables(ht, handle->key);", "            return BASEADDROF(current_item, ht);\n        }\n        if(NULL == prev_item) prev_item = current_item;\n    }\n    return parsec_hash_table_nolock_remove_from_old_tables(ht, handle->key);"),
      Mutant("old_table_unlink_skips", U, "                if( 0 == res ) {\n                    res = parsec_atomic_fetch_dec_int32(&head->used_buckets);\n                    if( 1 == res ) {\n                        parsec_atomic_cas_ptr(&prev_head->next, head, head->next);\n                    }\n                }\n                parsec_hash_table_nolock_insert(ht, current_item);", "                if( 0 == res ) {\n                    res = parsec_atomic_fetch_dec_int32(&head->used_buckets);\n                }\n                parsec_hash_table_nolock_insert(ht, current_item);"),
      Mutant("find_old_tables_stops_at_first", U, "        parsec_atomic_unlock( &head->buckets[hash].lock );\n        prev_head = head;\n    }\n    return NULL;\n}\n#endif", "        parsec_atomic_unlock( &head->buckets[hash].lock );\n        prev_head = head; break;\n    }\n    return NULL;\n}\n#endif"),
    ]
CLAIMED = False
