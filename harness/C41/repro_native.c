/* Standalone reproducer for the two info.c defects (no harness, no sanitizer). */
#include "parsec/parsec_config.h"
#include "parsec/class/info.h"
#include <stdio.h>
int main(void)
{
    static parsec_info_t nfo; static parsec_info_object_array_t oa; static long v[4];
    PARSEC_OBJ_CONSTRUCT(&nfo, parsec_info_t);
    /* (1) resize memset */
    int a = parsec_info_register(&nfo, "a", NULL, NULL, NULL, NULL, NULL);
    PARSEC_OBJ_CONSTRUCT(&oa, parsec_info_object_array_t);
    parsec_info_object_array_init(&oa, &nfo, NULL);
    void *p = (char *)&v[1] + 1;                     /* any pointer whose low byte is not 0 */
    parsec_info_set(&oa, a, p);
    int b = parsec_info_register(&nfo, "b", NULL, NULL, NULL, NULL, NULL);
    void *gb = parsec_info_get(&oa, b);              /* grows the array 1 -> 2 */
    void *ga = parsec_info_get(&oa, a);
    printf("set(a)=%p  after growth get(a)=%p %s ; fresh slot get(b)=%p\n", p, ga, ga == p ? "ok" : "CORRUPTED", gb);
    /* (2) id handed out twice */
    parsec_info_unregister(&nfo, a, NULL);           /* live: b=1 */
    int c = parsec_info_register(&nfo, "c", NULL, NULL, NULL, NULL, NULL);
    int d = parsec_info_register(&nfo, "d", NULL, NULL, NULL, NULL, NULL);
    printf("b=%d c=%d d=%d %s\n", b, c, d, (c == d || c == b || d == b) ? "DUPLICATE LIVE ID" : "ok");
    return 0;
}
