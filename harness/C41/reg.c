/* C41 (registration histories): the real parsec_info_register / _unregister /
 * _lookup of parsec/class/info.c (linked, with the real object system, list and
 * lock code) driven from the constructed-empty registry through a history
 *
 *   register N0 names ; unregister a symbolic subset ; register up to N1 more
 *   names (each optionally a name that is still live => must be refused) ;
 *   unregister one more symbolic entry ; register one last name
 *
 * against a ghost model (live[], id[]).  Obligations after every step:
 *   - a successful registration returns an id held by no live info (distinct ids),
 *   - it is the smallest free id ("index space as dense as possible", info.c),
 *   - registering a live name returns PARSEC_INFO_ID_UNDEFINED and changes nothing,
 *   - lookup(name) = id while registered, UNDEFINED otherwise; cb_data returned,
 *   - unregister(id) returns id for a live id (UNDEFINED otherwise) and hands back cb_data,
 *   - nfo.max_id = largest live id (what object arrays are sized from).
 *
 * Known finding C41-register-hole (see FINDING.md): a registration performed
 * after an earlier registration has filled a hole (an id below max_id that had
 * been unregistered).  KF_EXCLUDE: histories without such a registration;
 * KF_ONLY: histories with one.
 */
#include "vp_harness.h"
#include "parsec/parsec_config.h"
#include "parsec/class/info.h"
#include <string.h>

#ifndef N0
#define N0 3
#endif
#ifndef N1
#define N1 2
#endif
#define NN (N0 + N1 + 1)

static parsec_info_t nfo;
static const char *names[8] = { "a", "b", "ab", "ba", "c", "ac", "bc", "cc" };
static int cbv[10];
static int live[NN], id[NN];
static int holefill;   /* ghost: a registration already happened while an id below max was free */
static int kf_hit;     /* ghost: a registration happened after a hole-filling registration */

/* In KF_ONLY mode only obligations inside the recorded failing class are kept. */
#if defined(KF_ONLY_C41_REGISTER_HOLE)
#define PASSERT(c, m) do { if (kf_hit) VASSERTM(c, m); } while (0)
#else
#define PASSERT(c, m) VASSERTM(c, m)
#endif

static int n_live(void) { int n = 0; for (int i = 0; i < NN; i++) n += live[i]; return n; }
static int id_is_live(int v) { for (int i = 0; i < NN; i++) if (live[i] && id[i] == v) return 1; return 0; }
static int smallest_free(void) { int v = 0; for (int k = 0; k < NN; k++) if (id_is_live(v)) v++; return v; }
static int max_live(void) { int m = -1; for (int i = 0; i < NN; i++) if (live[i] && id[i] > m) m = id[i]; return m; }

static void check_all(void)
{
    for (int i = 0; i < NN; i++) {
        void *cb = &cbv[9];
        int r = parsec_info_lookup(&nfo, names[i], &cb);
        if (live[i]) {
            PASSERT(r == id[i], "lookup by name returns the id given at registration");
            PASSERT(cb == &cbv[i + 1], "lookup hands back the cb_data given at registration");
        } else {
            PASSERT(r == PARSEC_INFO_ID_UNDEFINED, "lookup of a name that is not registered is UNDEFINED");
        }
    }
    PASSERT(nfo.max_id == max_live(), "max_id is the largest live id");
}

static void do_register(int i)
{
    int hole = smallest_free() < max_live();
#if defined(KF_EXCLUDE_C41_REGISTER_HOLE)
    VASSUME(!holefill);
#endif
    if (holefill) kf_hit = 1;
    int expect = smallest_free();
    int r = parsec_info_register(&nfo, names[i], NULL, NULL, NULL, NULL, &cbv[i + 1]);
    PASSERT(r != PARSEC_INFO_ID_UNDEFINED && r >= 0, "a fresh name is accepted");
    PASSERT(!id_is_live(r), "the new id is held by no other live info (ids distinct)");
    PASSERT(r == expect, "the new id is the smallest free id");
    live[i] = 1; id[i] = r;
    if (hole) holefill = 1;
}

static void do_register_dup(int i)   /* names[i] is live */
{
    int r = parsec_info_register(&nfo, names[i], NULL, NULL, NULL, NULL, &cbv[0]);
    PASSERT(r == PARSEC_INFO_ID_UNDEFINED, "registering a live name is refused");
}

static void do_unregister(int i)     /* names[i] is live */
{
    void *cb = &cbv[9];
    int r = parsec_info_unregister(&nfo, id[i], &cb);
    PASSERT(r == id[i], "unregister of a live id returns it");
    PASSERT(cb == &cbv[i + 1], "unregister hands back cb_data");
    live[i] = 0;
    void *cb2 = &cbv[9];
    r = parsec_info_unregister(&nfo, id[i], &cb2);
    PASSERT(r == PARSEC_INFO_ID_UNDEFINED && cb2 == &cbv[9], "unregister of an id that is not live is UNDEFINED");
}

int main(void)
{
    PARSEC_OBJ_CONSTRUCT(&nfo, parsec_info_t);
    PASSERT(nfo.max_id == -1, "constructed registry is empty");
    check_all();
    int next = 0;
    for (int i = 0; i < N0; i++) do_register(next++);
    check_all();
    int nun = 0;
    for (int i = 0; i < N0; i++) if (IN_BOOL()) { do_unregister(i); nun++; }
    check_all();
    int ndup = 0;
    for (int k = 0; k < N1; k++) {
        if (IN_BOOL()) {
            int d = IN_RANGE(0, NN - 1);
            VASSUME(live[d]);
            do_register_dup(d); ndup++;
        }
        do_register(next++);
        check_all();
    }
    int u = IN_RANGE(0, NN - 1);
    int did_u = 0;
    if (live[u]) { do_unregister(u); did_u = 1; }
    do_register(next++);
    check_all();
    if (nun >= 1 && n_live() >= 2 && did_u) VWITNESS("history with unregistrations and re-registrations");
    if (ndup >= 1 && nun >= 1) VWITNESS("duplicate name refused in a history with holes");
    return 0;
}
