/* C41 (object arrays): the real parsec_info_object_array_init / parsec_info_set /
 * _get / _test_and_set and parsec_ioa_resize_and_rdlock of parsec/class/info.c
 * (linked, real object system / list / rwlock code), single thread.
 *
 *   register NB0 infos (each with or without a constructor: symbolic);
 *   construct + init the object array; set a symbolic subset of the slots;
 *   register NB1 >= 1 more infos  -> ids >= known_infos;
 *   access a symbolic new id t with get (forces the growth);
 *   then test_and_set / set / get on symbolic ids; if MORE, one more
 *   registration and a second growth (through test_and_set).
 * NB0, NB1, MORE are enumerated by spec.py (array sizes stay concrete for the
 * solver); ids, values, constructor presence and set/old choices are symbolic.
 *
 * Ghost model val[id] (last value set, NULL initially).  Obligations:
 *   - get of a never-set slot returns NULL (no constructor) or the constructed
 *     default (constructor called exactly once with (cons_obj, cons_data), the
 *     default is then stored: a second get returns it without a new call),
 *   - every slot keeps the last value set across growth of the array,
 *   - set returns the previous value, test_and_set replaces iff the slot holds
 *     `old' and returns the value after the operation,
 *   - known_infos covers every id accessed; all accesses in bounds (memory checks).
 * Values are pointers with non-zero offsets (&vals[k], k>0) so that byte-level
 * corruption of a stored pointer is visible to CBMC's (object, offset) model.
 *
 * Known finding C41-resize-memset: any growth of an array that already has
 * slots (known_infos > 0 at the time of the resize).  KF_EXCLUDE: the array is
 * grown only from empty; KF_ONLY: obligations checked only after such a growth.
 */
#include "vp_harness.h"
#include "parsec/parsec_config.h"
#include "parsec/class/info.h"
#include <string.h>

#ifndef VP_NATIVE
/* CBMC's built-in memset model (array_set/array_replace on a variable-length
 * array) loses the written bytes when the length is not a compile-time
 * constant for the solver (seen as a spurious non-NULL fresh slot on the
 * repaired code); a plain byte loop is used instead (listed under stubs). */
void *memset(void *s, int c, size_t n)
{
    unsigned char *p = (unsigned char *)s;
    for (size_t i = 0; i < n; i++) p[i] = (unsigned char)c;
    return s;
}
#endif

#ifndef NB0
#define NB0 1
#endif
#ifndef NB1
#define NB1 1
#endif
#ifndef MORE
#define MORE 0
#endif
#define NI (NB0 + NB1 + MORE)
static parsec_info_t nfo;
static parsec_info_object_array_t oa;
static const char *names[6] = { "a", "b", "ab", "ba", "c", "bb" };
static int vals[16];          /* values handed to set: &vals[1..] */
static int defaults[NI + 1];  /* constructed defaults: &defaults[id+1] */
static int owner;             /* cons_obj */
static int consdata[NI + 1];
static void *val[NI];         /* ghost: expected slot content */
static int has_cons[NI];
static int cons_calls[NI];
static int cons_bad;
static int nreg;
static int kf_hit;
static int tas_match, tas_mismatch;

#if defined(KF_ONLY_C41_RESIZE_MEMSET)
#define PASSERT(c, m) do { if (kf_hit) VASSERTM(c, m); } while (0)
#else
#define PASSERT(c, m) VASSERTM(c, m)
#endif

static void *cons(void *obj, void *cb_data)
{
    int k = (int)((int *)cb_data - consdata);      /* = id + 1 */
    if (obj != &owner || k < 1 || k > NI) { cons_bad = 1; return NULL; }
    cons_calls[k - 1]++;
    return &defaults[k];
}

static void reg_one(void)
{
    int c = IN_BOOL();
    int r = parsec_info_register(&nfo, names[nreg], NULL, NULL, c ? cons : NULL, &consdata[nreg + 1], NULL);
    PASSERT(r == nreg, "ids are handed out densely from 0");
    has_cons[nreg] = c;
    nreg++;
}

/* called before every access to id t: classify the growth this access will cause */
static void before_access(int t)
{
    if (t >= oa.known_infos && oa.known_infos > 0) {
#if defined(KF_EXCLUDE_C41_RESIZE_MEMSET)
        VASSUME(0);
#endif
        kf_hit = 1;
    }
}

static void do_get(int t)
{
    before_access(t);
    int calls = cons_calls[t];
    void *g = parsec_info_get(&oa, t);
    PASSERT(oa.known_infos > t, "array covers the id after an access");
    if (val[t] != NULL) {
        PASSERT(g == val[t], "get returns the last value set");
        PASSERT(cons_calls[t] == calls, "constructor not called for a slot that holds a value");
    } else if (has_cons[t]) {
        PASSERT(g == &defaults[t + 1], "get of an empty slot returns the constructed default");
        PASSERT(cons_calls[t] == calls + 1, "constructor called exactly once for an empty slot");
        val[t] = g;
    } else {
        PASSERT(g == NULL, "get of a never-set slot without constructor is NULL");
    }
    PASSERT(!cons_bad, "constructor received (cons_obj, cons_data)");
}

static void do_set(int t, void *v)
{
    before_access(t);
    void *o = parsec_info_set(&oa, t, v);
    PASSERT(o == val[t], "set returns the previous value");
    val[t] = v;
}

static void do_tas(int t, void *v, void *old)
{
    before_access(t);
    void *r = parsec_info_test_and_set(&oa, t, v, old);
    if (val[t] == old) {
        PASSERT(r == v, "test_and_set on a match returns the new value");
        val[t] = v; tas_match++;
    } else {
        tas_mismatch++;
        PASSERT(r == val[t], "test_and_set on a mismatch returns the value left in place");
    }
}

static void check_slots(void)
{
    for (int i = 0; i < NI; i++)
        if (i < nreg && i < oa.known_infos)
            PASSERT(oa.info_objects[i] == val[i], "every slot holds the last value set (NULL if never set)");
}

/* a value pointer chosen by the solver: NULL or &vals[k] */
static void *pick(int lo, int hi) { int k = IN_RANGE(lo - 1, hi); return k < lo ? NULL : (void *)&vals[k]; }

int main(void)
{
    PARSEC_OBJ_CONSTRUCT(&nfo, parsec_info_t);
    for (int i = 0; i < NB0; i++) reg_one();
    PARSEC_OBJ_CONSTRUCT(&oa, parsec_info_object_array_t);
    parsec_info_object_array_init(&oa, &nfo, &owner);
    PASSERT(oa.known_infos == NB0, "a fresh array covers the infos known at init");
    int nset = 0;
    for (int i = 0; i < NB0; i++) if (IN_BOOL()) { do_set(i, &vals[1 + i]); nset++; }
    for (int i = 0; i < NB1; i++) reg_one();
#if defined(KF_EXCLUDE_C41_RESIZE_MEMSET) && NB0 > 0
    /* everything below is inside the recorded failing class: the part above is what remains */
    if (nset == NB0) VWITNESS("array initialised over NB0 infos and set, before any growth");
#endif
    /* first access to a new id: growth */
    int t = IN_RANGE(NB0, NB0 + NB1 - 1);
    do_get(t);
    check_slots();
    for (int i = 0; i < NB0; i++) do_get(i);
    /* test_and_set / set on symbolic ids */
    int t2 = IN_RANGE(0, NB0 + NB1 - 1);
    void *old = pick(1, 4);
    do_tas(t2, &vals[5], old);
    int t3 = IN_RANGE(0, NB0 + NB1 - 1);
    do_set(t3, pick(6, 7));
    check_slots();
#if MORE
#if defined(KF_EXCLUDE_C41_RESIZE_MEMSET) && NB0 == 0
    if (tas_match) VWITNESS("growth from empty and accesses, before the second growth (which is inside the recorded class)");
#endif
    /* one more registration and a second growth */
    reg_one();
    do_tas(nreg - 1, &vals[8], pick(9, 9));
    check_slots();
    do_get(nreg - 1);
#endif
    do_get(t2);
#if !defined(KF_EXCLUDE_C41_RESIZE_MEMSET) || (NB0 == 0 && !MORE)
    if (nset == NB0 && tas_match) VWITNESS("growth, values kept, test_and_set matched");
    if (has_cons[t] && t2 == t && tas_mismatch) VWITNESS("constructed default, test_and_set mismatched");
#endif
    return 0;
}
