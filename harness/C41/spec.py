import os
from vp.api import Q, Mutant
from vp.seqir import seqir
TITLE = "Info registries return what was set"
U = "parsec/class/info.c"
LINK = ["repo:" + U, "repo:parsec/class/parsec_object.c", "repo:parsec/class/parsec_list.c", "repo:parsec/class/parsec_rwlock.c"]
UNITS = ["parsec/class/info.h", "parsec/class/list.h", "parsec/class/parsec_object.h"]
OUTSIDE = ["concurrent use beyond the Engine S scenarios of hs.c: 2 threads, one operation each on one object array (get||get, get||set, get||test_and_set on one slot; set||test_and_set with a resize), "
           "schedules with <= 1 (thorough 2) scheduling slots per thread before the deterministic drain; concurrent register/unregister; a get racing with a resize (no verdict in 25 min); weak memory (SC only)",
           "more than 5 infos / 2 growths of one object array; more than 4 (thorough 6) registrations per history",
           "info names longer than 2 characters",
           "destructor callbacks at unregister / registry destruction (parsec_info_destructor)",
           "ids that are not live (documented caller contract of set/get/test_and_set)",
           "stale slot content when an id is reused after unregistering an info that had no destructor"]
ASSUMPTIONS = ["Engine S scenarios without a resize run the reader-side rwlock operations as atomic steps (real functions through function pointers): no writer exists there, reader fetch-adds commute; "
               "with them interleaved one parsec_info_get gives no verdict in 25 min. The resize scenario uses the real interleaved lock",
               "Engine S setup() links the registry entries with the real list code but does not call parsec_info_register (that call alone stalls CBMC > 100 s on the generated C); scenarios without resize use a "
               "static typed slot array in place of the calloc'ed one; info constructor/destructor are counting harness callbacks (indirect = atomic)",
               "ids passed to set/get/test_and_set are live ids returned by parsec_info_register (info.h @remark)",
               "memset is a byte loop written in the harness (CBMC's built-in model loses writes of non-constant length)",
               "the info constructor callback is a harness function returning a distinct non-NULL default per id",
               "findings C41-register-hole and C41-resize-memset (FINDING.md) were repaired in /repo (fix: commits 72497da, 1f4f101; known_findings.json status fixed): the queries run unrestricted; if the status is set back to known the KF_EXCLUDE/KF_ONLY plumbing of reg.c / ioa.c is used again"]
BOUNDS = {"quick": {"registration history": "2 + 1 + 1 registrations, symbolic unregistrations/duplicates", "object array": "(NB0,NB1,MORE) in {(0,1,0),(0,2,0),(1,1,0),(2,2,1)}"},
          "thorough": {"registration history": "also 3 + 2 + 1 registrations", "object array": "8 size configurations up to 6 infos"}}
# VP_NOKF=1: run the unrestricted queries (used to validate fix.patch on a scratch worktree)
NOKF = bool(os.environ.get("VP_NOKF"))
KF_REG = None if NOKF else "C41-register-hole"
KF_MEM = None if NOKF else "C41-resize-memset"
KF_SET = None if NOKF else "C41-set-lost-update"

def kf_aware(inner, kfid):
    """The driver passes KF_EXCLUDE_/KF_ONLY_ only to goto-cc; Engine S harness code is compiled by clang inside the
    generator, so the macro is added to the query's defs here (variant recognised by the scratch directory suffix)."""
    macro = "".join(c if c.isalnum() else "_" for c in kfid).upper()
    def gen(ctx, q, qdir, overlays):
        base = os.path.basename(qdir)
        if base.endswith(".excl") or ".mut." in base:
            q.defs.append("KF_EXCLUDE_" + macro)
        elif base.endswith(".only"):
            q.defs.append("KF_ONLY_" + macro)
        return inner(ctx, q, qdir, overlays)
    return gen

def queries(ctx):
    qs = []
    qs.append(Q("reg_history_2_1", ["reg.c"] + LINK, defs=["N0=2", "N1=1"], unwind=9, unwindset=["expand_array.0:11"], checks=["bounds", "pointer"],
                object_bits=10, kf=KF_REG, units=UNITS, timeout=900,
                info={"symbolic": ["which of the first 3 infos are unregistered", "duplicate-name attempts", "which info is unregistered before the last registration"],
                      "functions": ["parsec_info_register", "parsec_info_unregister", "parsec_info_lookup"],
                      "stubs": ["none (object system, list, locks are the real code)"],
                      "bounds": {"registrations": 4, "names": "8 fixed distinct strings of <=2 chars"}}))
    ioa_info = {"symbolic": ["which infos have a constructor", "which slots are set before growth", "accessed ids",
                             "test_and_set old value (match / mismatch / NULL)", "values"],
                "enumerated": ["NB0 infos before / NB1 after the array is initialised, MORE = a second growth"],
                "functions": ["parsec_info_object_array_init", "parsec_ioa_resize_and_rdlock", "parsec_info_set", "parsec_info_get",
                              "parsec_info_test_and_set", "parsec_info_lookup_by_iid", "parsec_info_register"],
                "stubs": ["info constructor callback (harness: returns &defaults[id+1], counts calls)",
                          "memset = byte loop in the harness (CBMC's built-in model loses writes of non-constant length)"]}
    cfgs = [(0, 1, 0), (0, 2, 0), (1, 1, 0), (2, 2, 1)]
    if ctx.thorough:
        cfgs += [(1, 2, 1), (2, 1, 0), (0, 2, 1), (3, 2, 1)]
    for (nb0, nb1, more) in cfgs:
        in_class = nb0 > 0 or more
        tiers = ("quick", "thorough") if (nb0, nb1, more) in cfgs[:4] else ("thorough",)
        qs.append(Q("ioa_%d_%d_%d" % (nb0, nb1, more), ["ioa.c"] + LINK, defs=["NB0=%d" % nb0, "NB1=%d" % nb1, "MORE=%d" % more],
                    unwind=8, unwindset=["expand_array.0:11", "memset.0:%d" % max(41, 8 * (nb0 + nb1 + more) + 1)], checks=["bounds", "pointer"],
                    object_bits=10, kf=(KF_MEM if in_class else None), units=UNITS, timeout=900, tiers=tiers,
                    info=dict(ioa_info, bounds={"infos": nb0 + nb1 + more, "growths": 1 + more})))
    SN = {1: "get_get", 2: "get_set", 3: "get_tas", 4: "get_resize", 5: "set_tas_resize"}
    # scenario 4 of hs.c (parsec_info_get on a set slot racing with a resize triggered by a set on a higher id, real interleaved
    # rwlock: 97-130 yield points) gave no verdict in 20-25 min even with one scheduling slot per thread; it is not registered.
    # The resize race is covered by scenario 5 (set on slot 0 || test_and_set on the new id => wrlock + realloc).
    for sc in (1, 2, 3, 5):
        for R in (1, 2):
            tiers = ("quick", "thorough") if R == 1 else ("thorough",)
            if ctx.tier not in tiers:
                continue
            # fields no thread writes in the scenario (a store would be reported as INTERNAL failure): entry descriptors, list links, registry max_id,
            # array back pointers; the array pointer / size only where no resize happens
            ro = ["parsec_info_entry_s.%d" % k for k in range(1, 9)] + ["parsec_list_item_s.1", "parsec_list_item_s.2", "parsec_info_s.2",
                  "parsec_info_object_array_s.3", "parsec_info_object_array_s.5"] + (["parsec_info_object_array_s.2", "parsec_info_object_array_s.4"] if sc not in (4, 5) else [])
            qs.append(Q("s_%s_r%d" % (SN[sc], R), [], defs=["SCEN=%d" % sc], engine="S", units=[U, "parsec/class/info.h", "parsec/class/parsec_rwlock.c", "parsec/class/list.h"],
                        gen=(lambda g: kf_aware(g, KF_SET) if (sc == 2 and KF_SET) else g)(seqir(["hs.c", "repo:parsec/class/parsec_rwlock.c", "repo:parsec/class/parsec_list.c"], threads=["thread0", "thread1"], rounds=R, drain=True, benign=["nanosleep"], ro_fields=ro)),
                        unwind=8, timeout=2400, slow=True, tiers=tiers, kf=(KF_SET if sc == 2 else None),
                        info={"symbolic": ["schedule: every SC interleaving with <= %d scheduling slots per thread, then deterministic drain" % R],
                              "functions": ["parsec_info_get", "parsec_info_set", "parsec_info_test_and_set", "parsec_ioa_resize_and_rdlock", "parsec_info_lookup_by_iid",
                                            "parsec_atomic_rwlock_rdlock/rdunlock/wrlock/wrunlock"],
                              "stubs": ["info constructor/destructor callbacks (harness, counting; indirect calls = atomic)", "object-system class tables = vp_objstub.h (static arrays)", "nanosleep (benign)"],
                              "bounds": {"threads": 2, "rounds": R, "operations": "1 per thread"}}))
    if ctx.thorough:
        qs.append(Q("reg_history_3_2", ["reg.c"] + LINK, defs=["N0=3", "N1=2"], unwind=9, unwindset=["expand_array.0:11"], checks=["bounds", "pointer"],
                    object_bits=10, kf=KF_REG, units=UNITS, timeout=2400, tiers=("thorough",), slow=True,
                    info=dict(qs[0].info, bounds={"registrations": 6, "names": "8 fixed distinct strings of <=2 chars"})))
    return qs

def mutants(ctx):
    return [
        Mutant("register_max_id_not_raised", U, "if(ret > nfo->max_id)\n        nfo->max_id = ret;", "if(ret > nfo->max_id + 1)\n        nfo->max_id = ret;", queries=["reg_history_2_1"]),
        Mutant("unregister_next_max_wrong", U, "if(ie->iid > max_id)\n                max_id = ie->iid;", "if(ie->iid < max_id)\n                max_id = ie->iid;", queries=["reg_history_2_1"]),
        Mutant("lookup_prefix_compare", U, "if( !strcmp(ie->name, name) ) {", "if( !strncmp(ie->name, name, 1) ) {", queries=["reg_history_2_1"]),
        Mutant("register_dup_check_prefix_only", U, "if( 0 == strcmp(ie->name, name) ) {", "if( 0 == strcmp(ie->name, name) && ie->iid == ret ) {", queries=["reg_history_2_1"]),
        Mutant("tas_cas_args_swapped", U, "parsec_atomic_cas_ptr(&oa->info_objects[iid], old, info)", "parsec_atomic_cas_ptr(&oa->info_objects[iid], info, old)", queries=["ioa_0_1_0"]),
        Mutant("get_default_not_stored_atomically", U, "ret = parsec_info_test_and_set(oa, iid, nio, NULL);", "ret = parsec_info_set(oa, iid, nio);", queries=["ioa_0_1_0"]),
        Mutant("array_init_one_slot_short", U, "oa->known_infos = nfo->max_id+1;", "oa->known_infos = nfo->max_id;", queries=["ioa_1_1_0"]),
        # the two repaired defects (fix: commits 72497da, 1f4f101) re-introduced: the check must report them again
        Mutant("regression_register_hole", U, "                next_item = item;", "                next_item = PARSEC_LIST_ITERATOR_NEXT(item);", queries=["reg_history_2_1"]),
        Mutant("regression_resize_memset", U, "memset(&oa->info_objects[oa->known_infos], 0, sizeof(void *) * (ns - oa->known_infos));", "memset(&oa->info_objects[oa->known_infos - 1], 0, ns - oa->known_infos);", queries=["ioa_1_1_0"]),
        # concurrent half (Engine S): the loser of a construction race must return the object left in the slot, not its own (destroyed) one
        Mutant("get_loser_returns_own_object", U, "        ie->destructor(nio, ie->des_data);\n    }\n    return ret;", "        ie->destructor(nio, ie->des_data);\n    }\n    return nio;", queries=["s_get_get_r1"]),
        Mutant("get_default_installed_without_cas", U, "    ret = parsec_info_test_and_set(oa, iid, nio, NULL);\n    if(ret != nio", "    ret = parsec_info_set(oa, iid, nio); ret = nio;\n    if(ret != nio", queries=["s_get_get_r1", "s_get_tas_r1"]),
        Mutant("set_returns_new_value", U, "    ret = oa->info_objects[iid];\n    oa->info_objects[iid] = info;", "    oa->info_objects[iid] = info;\n    ret = oa->info_objects[iid];", queries=["ioa_0_2_0"]),
    ]

CLAIMED = True
MANIFEST = {
 "engine": "cbmc-src+seqir",
 "text": "Bounded model checking of the real parsec/class/info.c linked with the real object system, list and rwlock code (single thread): "
         "(a) registration histories from the empty registry (register / unregister a symbolic subset / duplicate-name attempts / re-register) against a ghost model: "
         "ids of live infos distinct and smallest-free, lookup by name, cb_data, max_id; (b) object arrays: init, set, get (constructed default, constructor called once), "
         "test_and_set (replace iff match) and growth of the array, every slot compared with a ghost model, memory-safety checks on. "
         "Two genuine defects were found by these queries (duplicate id after a hole was refilled; resize clears the wrong bytes), repaired by fix: commits in /repo; "
         "two of the seeded mutants re-introduce them and are reported again. (c) Engine S (symbolic schedules, 2 threads): two first gets of one slot return the same, stored object, every other "
         "constructed object is destroyed exactly once; get || set and get || test_and_set agree with the slot; set || test_and_set across a resize keep both values. A third defect was found there "
         "(parsec_info_set is not atomic: a concurrently constructed default can be overwritten and leaked) and is recorded as known finding C41-set-lost-update with a fix patch.",
 "note": "concurrent half limited to 2 threads x 1 operation with <= 1-2 scheduling slots per thread + drain, reader-side lock steps atomic where no writer exists; sizes enumerated (<=6 infos, <=2 growths), choices symbolic; memset modelled by a byte loop; "
         "constructor callback is a harness stub.",
 "technique": "CBMC bounded symbolic execution of the real C unit + SAT (cadical), native ASan replay of counterexamples",
}
