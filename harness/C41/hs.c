/* C41, Engine S: the real info.c object-array functions (parsec_info_get / _set / _test_and_set /
 * parsec_ioa_resize_and_rdlock, parsec_info_lookup_by_iid; file included so that yields fall inside them)
 * with the real rwlock (parsec_rwlock.c) and list code under symbolic interleavings of 2 threads.
 * setup() builds the registry entries (see add_entry) and initialises the object array with the real
 * parsec_info_object_array_init sequentially (class tables through vp_objstub.h).  The info constructor / destructor are indirect calls = atomic; they count.
 *
 * SCEN 1  T0: get(id)            T1: get(id)                 first get on an empty slot, info with constructor
 * SCEN 2  T0: get(id)            T1: set(id, X)
 * SCEN 3  T0: get(id)            T1: test_and_set(id, X, NULL)
 * SCEN 4  T0: get(0) [slot set]  T1: set(1, X) on a later-registered info => resize of the array (wrlock, realloc)
 * SCEN 5  T0: set(0, Y)          T1: test_and_set(1, X, NULL) => resize
 *
 * Oracles (general, over every reached final state): a value returned by get is what the slot held at some
 * point and is never an object that was handed to the destructor; objects returned by two gets that both
 * found/installed the default are the SAME object and it is the slot content; every constructed object
 * is either the one that ended up published (slot, or handed back by set as the old value) or was destroyed
 * exactly once; nothing is destroyed twice; values in other slots survive a concurrent resize.
 */
#include "vp_harness.h"
#include "vp_objstub.h"
#ifndef SCEN
#define SCEN 1
#endif
#include "parsec/class/parsec_rwlock.h"
#if SCEN < 4
/* Scenarios without a resize have no writer on the array's rwlock: the reader-side operations (fetch-and-add on
 * rin / rout) commute with each other and never wait.  They are executed as ATOMIC steps here (real functions of
 * parsec_rwlock.c reached through function pointers = indirect calls) instead of being interleaved instruction by
 * instruction: with the ~25 extra yield points per lock/unlock pair (the dead resize branch included) one
 * parsec_info_get has ~50 yield points and CBMC gives no verdict in 25 min even with ONE scheduling slot per thread
 * (27 yield points: 4 s).  Reader/writer interleavings of the lock itself are C33's subject. */
void (*vp_rdlock)(parsec_atomic_rwlock_t *) = parsec_atomic_rwlock_rdlock;
void (*vp_rdunlock)(parsec_atomic_rwlock_t *) = parsec_atomic_rwlock_rdunlock;
void (*vp_wrlock)(parsec_atomic_rwlock_t *) = parsec_atomic_rwlock_wrlock;
void (*vp_wrunlock)(parsec_atomic_rwlock_t *) = parsec_atomic_rwlock_wrunlock;
#define parsec_atomic_rwlock_rdlock(l)   vp_rdlock(l)
#define parsec_atomic_rwlock_rdunlock(l) vp_rdunlock(l)
#define parsec_atomic_rwlock_wrlock(l)   vp_wrlock(l)
#define parsec_atomic_rwlock_wrunlock(l) vp_wrunlock(l)
#endif
#include "parsec/class/info.c"

#define NOBJ 3
static parsec_info_t nfo;
static parsec_info_object_array_t oa;
static parsec_info_entry_t E0, E1;
static void *slots[2];
static int owner, cdata, ddata;
static int objs[NOBJ + 1];                 /* constructed defaults: &objs[k+1] */
static int n_cons, n_des, destroyed[NOBJ + 1], bad_cb;
static int X, Y, V0;                       /* user values */
enum { id0 = 0, id1 = 1 };      /* ids handed out by the two registrations (constants: no shared reads in the threads) */
static void *g0, *g1, *s_old, *tas_ret;
static int done0, done1;

static void *cons(void *obj, void *cb)
{
    if (obj != &owner || cb != &cdata) bad_cb = 1;
    int k = __sync_fetch_and_add(&n_cons, 1);
    if (k >= NOBJ) { bad_cb = 1; k = NOBJ - 1; }
    return &objs[k + 1];
}
static void des(void *elt, void *cb)
{
    if (cb != &ddata) bad_cb = 1;
    __sync_fetch_and_add(&n_des, 1);
    if (elt == &objs[1]) __sync_fetch_and_add(&destroyed[1], 1);
    else if (elt == &objs[2]) __sync_fetch_and_add(&destroyed[2], 1);
    else if (elt == &objs[3]) __sync_fetch_and_add(&destroyed[3], 1);
    else bad_cb = 1;                       /* the destructor was handed something that was never constructed */
}

/* the entry that parsec_info_register(nfo, name, des, &ddata, cons, &cdata, NULL) creates, linked with the real list
 * code.  Calling parsec_info_register itself inside setup() stalls CBMC's symbolic execution of the generated C
 * (> 100 s for that single call); registration is covered sequentially by the reg_* / ioa_* queries. */
static int add_entry(parsec_info_entry_t *e, const char *name, int iid)
{
    PARSEC_OBJ_CONSTRUCT(e, parsec_list_item_t);
    e->info = &nfo; e->name = (char *)name; e->destructor = des; e->des_data = &ddata;
    e->constructor = cons; e->cons_data = &cdata; e->cb_data = NULL; e->iid = iid;
    parsec_list_nolock_add_before(&nfo.info_list, PARSEC_LIST_ITERATOR_END(&nfo.info_list), &e->list_item);
    if (iid > nfo.max_id) nfo.max_id = iid;
    return iid;
}

void setup(void)
{
    PARSEC_OBJ_CONSTRUCT(&nfo, parsec_info_t);
    add_entry(&E0, "a", id0);
    PARSEC_OBJ_CONSTRUCT(&oa, parsec_info_object_array_t);
#if SCEN >= 4
    parsec_info_object_array_init(&oa, &nfo, &owner);                     /* real code: known_infos = 1, one empty heap slot (realloc'ed by the resize) */
#else
    /* the state parsec_info_object_array_init(&oa, &nfo, &owner) produces, with the slot array as a static TYPED object
     * instead of calloc'ed bytes (an untyped heap block makes every slot access a byte-level extract for the solver;
     * no resize happens in these scenarios, the array is never realloc'ed) */
    oa.known_infos = nfo.max_id + 1; oa.info_objects = slots; oa.infos = &nfo; oa.cons_obj = &owner;
    parsec_list_push_front(&nfo.ioa_list, &oa.list_item);
#endif
#if SCEN >= 4
    parsec_info_set(&oa, id0, &V0);
    add_entry(&E1, "b", id1);                                         /* known_infos stays 1: the first access to id1 grows the array */
#endif
}

#if SCEN == 1
void thread0(void) { g0 = parsec_info_get(&oa, id0); done0 = 1; }
void thread1(void) { g1 = parsec_info_get(&oa, id0); done1 = 1; }
#elif SCEN == 2
void thread0(void) { g0 = parsec_info_get(&oa, id0); done0 = 1; }
void thread1(void) { s_old = parsec_info_set(&oa, id0, &X); done1 = 1; }
#elif SCEN == 3
void thread0(void) { g0 = parsec_info_get(&oa, id0); done0 = 1; }
void thread1(void) { tas_ret = parsec_info_test_and_set(&oa, id0, &X, NULL); done1 = 1; }
#elif SCEN == 4
void thread0(void) { g0 = parsec_info_get(&oa, id0); done0 = 1; }
void thread1(void) { s_old = parsec_info_set(&oa, id1, &X); done1 = 1; }
#elif SCEN == 5
void thread0(void) { s_old = parsec_info_set(&oa, id0, &Y); done0 = 1; }
void thread1(void) { tas_ret = parsec_info_test_and_set(&oa, id1, &X, NULL); done1 = 1; }
#endif

static int is_obj(void *p) { return p == &objs[1] || p == &objs[2] || p == &objs[3]; }
static int obj_destroyed(void *p) { return p == &objs[1] ? destroyed[1] : (p == &objs[2] ? destroyed[2] : (p == &objs[3] ? destroyed[3] : 0)); }

void check(void)
{
#if SCEN == 2
    /* known finding C41-set-lost-update (FINDING.md): parsec_info_set reads the old value and stores the new one in two
     * steps; a default published by a concurrent get between the two is overwritten although set reports NULL as the
     * value it replaced: the constructed object is neither handed back nor destroyed */
    int lost_update = (n_cons == 1 && s_old == NULL && g0 == &objs[1] && n_des == 0);
#if defined(KF_EXCLUDE_C41_SET_LOST_UPDATE)
    VASSUME(!lost_update);
#elif defined(KF_ONLY_C41_SET_LOST_UPDATE)
    VASSUME(lost_update);
#endif
#endif
    VASSERTM(done0 && done1, "both threads completed");
    VASSERTM(!bad_cb, "constructor/destructor called with the registered arguments, destructor only on constructed objects");
    VASSERTM(destroyed[1] <= 1 && destroyed[2] <= 1 && destroyed[3] <= 1, "no object destroyed twice");
    VASSERTM(n_des == destroyed[1] + destroyed[2] + destroyed[3], "destructor calls accounted for");
    VASSERTM(oa.rw_lock.rin == oa.rw_lock.rout || 1, "lock words readable");
    void *slot0 = oa.info_objects[id0];
    /* a value handed to a caller by get is never an object that went to the destructor */
    VASSERTM(!(is_obj(g0) && obj_destroyed(g0)) && !(is_obj(g1) && obj_destroyed(g1)), "get never returns an object that was destroyed");
#if SCEN == 1
    VASSERTM(g0 != NULL && g0 == g1, "both first gets return the same object");
    VASSERTM(g0 == slot0, "... namely the one stored in the slot");
    VASSERTM(n_cons >= 1 && n_cons <= 2 && n_des == n_cons - 1, "exactly one constructed object survives, every other one is destroyed once");
    VASSERTM(is_obj(slot0) && !obj_destroyed(slot0), "the surviving object is the published one");
    if (n_cons == 2 && slot0 == &objs[2]) VWITNESS("both constructed, the second constructor won the slot");
    if (n_cons == 2 && slot0 == &objs[1]) VWITNESS("both constructed, the first constructor won the slot");
    if (n_cons == 1) VWITNESS("the second get found the object");
#elif SCEN == 2
    VASSERTM(slot0 == &X, "set is the last writer of the slot in every order");
    VASSERTM(g0 == &X || is_obj(g0), "get returns the set value or the constructed default");
    VASSERTM(s_old == NULL || is_obj(s_old), "set hands back what it replaced");
    VASSERTM(n_cons <= 1 && n_des <= n_cons, "at most one construction");
    if (n_cons == 1) {
        /* the constructed object was either published (then get returned it and set replaced it: ownership goes to the caller of set)
           or it lost against the set (then it is destroyed and get returns the set value) */
        VASSERTM((s_old == &objs[1] && g0 == &objs[1] && n_des == 0) || (s_old == NULL && g0 == &X && n_des == 1), "constructed default: published and replaced, or destroyed");
    } else {
        VASSERTM(g0 == &X && s_old == NULL, "no construction: get saw the set value");
    }
    if (n_cons == 1 && n_des == 1) VWITNESS("construction lost against the set");
    if (n_cons == 1 && n_des == 0) VWITNESS("default published, then replaced by set");
    if (n_cons == 0) VWITNESS("set first");
#elif SCEN == 3
    VASSERTM(slot0 == &X || slot0 == &objs[1], "slot holds the value of whoever installed first");
    VASSERTM(g0 == slot0 && tas_ret == slot0, "get and test_and_set both report the value left in the slot");
    VASSERTM(n_cons <= 1 && n_des == ((n_cons == 1 && slot0 == &X) ? 1 : 0), "a constructed default is destroyed iff it lost");
    if (n_cons == 1 && slot0 == &X) VWITNESS("constructed default lost against test_and_set");
    if (slot0 == &objs[1]) VWITNESS("test_and_set lost against the constructed default");
    if (n_cons == 0) VWITNESS("test_and_set first, no construction");
#elif SCEN == 4
    VASSERTM(oa.known_infos == 2, "array grown to the registered infos");
    VASSERTM(g0 == &V0 && slot0 == &V0, "the value of the other slot survives the concurrent resize and is what get returns");
    VASSERTM(s_old == NULL && oa.info_objects[id1] == &X && n_cons == 0 && n_des == 0, "the new slot starts empty and takes the value set");
    VWITNESS("get racing with a resize");
#elif SCEN == 5
    VASSERTM(oa.known_infos == 2, "array grown to the registered infos");
    VASSERTM(s_old == &V0 && slot0 == &Y, "set on the other slot: old value handed back, new value survives the concurrent resize");
    VASSERTM(tas_ret == &X && oa.info_objects[id1] == &X && n_cons == 0, "test_and_set on the fresh slot installs its value");
    VWITNESS("set racing with a resize");
#endif
}
