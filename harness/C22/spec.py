from vp.api import Q, Mutant
TITLE = "Matrix operators visit each tile once and reduce correctly"
MO = "parsec/data_dist/matrix/map_operator.c"
ESH = "parsec/include/parsec/execution_stream.h"
DIH = "parsec/data_internal.h"
OUTSIDE = ["C22 apply (apply.jdf / apply_wrapper.c) and reduce (reduce*.jdf / reduce_wrapper.c) obligations: NOT covered by the mapop_* queries of this file "
           "(JDF-based queries belong to another part)",
           "map operator with more than one virtual process: known finding C22-mapop-multi-vp (counting obligations excluded there)",
           "memory-access-level interleavings inside a task (one task = data_lookup + body + complete_hook is atomic here; next_n is only touched by an atomic fetch-and-increment)",
           "parsec_map_operator_New (object-system allocation), the real scheduler, mempool and termination accounting (nb_tasks), operator arithmetic, distributed runs"]
ASSUMPTIONS = ["collection contract: rank_of/vpid_of/data_of are total on the mt x nt grid; vpid_of and data_of are only asked about local tiles",
               "every task handed to __parsec_schedule/__parsec_schedule_vp eventually runs, in any order (symbolic choice); during the startup function at most "
               "INTERLEAVE (1, thorough also 2) pending tasks complete between two tasks it schedules",
               "parsec_context_t / parsec_vp_t struct-hack arrays and data_internal.h device_copies[] given declared bounds through overlays"]
BOUNDS = {"quick": {"mt x nt": "2x2, 2x3", "nb_vp x cores": "1x2, 1x1 (2x1: known finding)", "ownership / vp tables": "symbolic", "schedule": "symbolic"},
          "thorough": {"mt x nt": "2x2, 2x3, 3x2, 3x3", "nb_vp x cores": "1x1, 1x2, 1x3", "ownership / vp tables": "symbolic", "schedule": "symbolic"}}
PATCH = [(ESH, r"virtual_processes\[1\];", "virtual_processes[NVP];"), (ESH, r"execution_streams\[1\];", "execution_streams[NCORES];"),
         (DIH, r"device_copies\[\];", "device_copies[1];")]

def queries(ctx):
    info = {"symbolic": ["ownership predicate own[m][n]", "virtual process of every tile", "order in which pending tasks run", "progress of workers during startup"],
            "stubs": ["collection rank_of/vpid_of/data_of (symbolic tables)", "__parsec_schedule/__parsec_schedule_vp (pending set)", "parsec_thread_mempool_allocate (static tasks)",
                      "parsec_data_get_copy", "PINS off", "parsec_task_t class without constructors", "operator = visit counter"],
            "functions": ["parsec_map_operator_startup_fn", "add_task_to_list", "iterate_successors", "release_deps", "complete_hook", "data_lookup", "hook_of"]}
    qs = []
    def mo(name, mt, nt, nvp, nc, **kw):
        d = ["MT=%d" % mt, "NT=%d" % nt, "NVP=%d" % nvp, "NCORES=%d" % nc]
        us = ["parsec_map_operator_startup_fn.4:%d" % (nvp + 1), "parsec_map_operator_startup_fn.3:%d" % (nt + 2), "parsec_map_operator_startup_fn.2:%d" % (mt + 1),
              "iterate_successors.1:%d" % (nt + 2), "iterate_successors.0:%d" % (mt + 1)]
        qs.append(Q("mapop_" + name, ["mapop.c"], defs=d, unwind=mt * nt + 4, unwindset=us, units=[MO], patches=PATCH, object_bits=13, timeout=(3000 if ctx.thorough else 900),
                    kf=("C22-mapop-multi-vp" if nvp > 1 else None), slow=True, info=dict(info, enumerated=d), **kw))
    mo("2x2_1vp_2c", 2, 2, 1, 2)
    mo("2x3_1vp_1c", 2, 3, 1, 1)
    mo("2x2_2vp_1c", 2, 2, 2, 1)
    if ctx.thorough:
        mo("3x2_1vp_2c", 3, 2, 1, 2, tiers=("thorough",))
        mo("2x3_1vp_3c", 2, 3, 1, 3, tiers=("thorough",))
        mo("3x3_1vp_2c", 3, 3, 1, 2, tiers=("thorough",))
        mo("2x2_1vp_2c_i2", 2, 2, 1, 2, tiers=("thorough",)); qs[-1].defs.append("INTERLEAVE=2")
    return qs

def mutants(ctx):
    A = ["mapop_2x2_1vp_2c", "mapop_2x3_1vp_1c"]
    return [
        Mutant("successor_restarts_at_same_row", MO, "    int m = this_task->locals[0].value+1;\n    int n = this_task->locals[1].value;\n    parsec_task_t nt;", "    int m = this_task->locals[0].value;\n    int n = this_task->locals[1].value;\n    parsec_task_t nt;", queries=A),
        Mutant("chain_next_column_not_shared", MO, "        /* Go to the next column ... atomically */\n        n = parsec_atomic_fetch_inc_int32( &__tp->next_n ) + 1;", "        /* Go to the next column ... atomically */\n        n = n + 1;", queries=A),
        Mutant("next_column_skips_row0", MO, "    for( ; n < (int)__tp->src->nt; m = 0) {", "    for( ; n < (int)__tp->src->nt; m = 1) {", queries=A),
        Mutant("startup_column_counter_off_by_one", MO, "            /* Go to the next row ... atomically */\n            n = parsec_atomic_fetch_inc_int32( &__tp->next_n ) + 1;", "            /* Go to the next row ... atomically */\n            n = parsec_atomic_fetch_inc_int32( &__tp->next_n );", queries=A),
        Mutant("successor_rank_filter_inverted", MO, "            if( __tp->src->super.myrank !=\n                ((parsec_data_collection_t*)__tp->src)->rank_of((parsec_data_collection_t*)__tp->src,\n                                                                m, n) )\n                continue;\n            int vpid",
               "            if( __tp->src->super.myrank ==\n                ((parsec_data_collection_t*)__tp->src)->rank_of((parsec_data_collection_t*)__tp->src,\n                                                                m, n) )\n                continue;\n            int vpid", queries=A),
        Mutant("operator_coordinates_swapped", MO, "    rc = __tp->op( es, src_data, dest_data, __tp->op_data, m, n );", "    rc = __tp->op( es, src_data, dest_data, __tp->op_data, n, m );", queries=["mapop_2x3_1vp_1c"]),
    ]
CLAIMED = True
MANIFEST = {
 "engine": "cbmc-src",
 "text": "PARTIAL (map_operator.c part only). Bounded model checking of the real hand-written task class: the real startup function, add_task_to_list, "
         "iterate_successors (column chains + atomic next_n counter), release_deps, complete_hook, data_lookup and the body run against a symbolic ownership "
         "predicate and symbolic VP table on 2x2 / 2x3 (thorough 3x2, 3x3) tile grids; the solver chooses which pending task runs next and how far the workers "
         "progress while the startup function is still generating.  With one virtual process every local tile is visited exactly once, no remote tile is, the "
         "operator gets the pointers and coordinates of its own tile, each ready ring holds one task and data-copy references are balanced.  With two virtual "
         "processes tiles are visited twice or never: KNOWN-FINDING C22-mapop-multi-vp with a tested fix.",
 "note": "apply / reduce JDF obligations are not covered by these queries; operation-level interleaving (a task is atomic); scheduler, mempool and collection are stubs.",
 "technique": "CBMC bounded symbolic execution of the real C unit + SAT (cadical); symbolic ownership, VP table and schedule",
}
