/* C22 / map_operator part: the hand-written task class of parsec/data_dist/matrix/map_operator.c visits
 * every local tile exactly once.
 *
 * Unit (real, #included): map_operator.c - parsec_map_operator_startup_fn, add_task_to_list,
 * iterate_successors (column chains + the atomic next_n column counter), release_deps, complete_hook,
 * data_lookup, hook_of.
 *
 * Enumerated (spec.py): MT, NT (tile grid of the source), NVP (virtual processes), NCORES (cores per VP).
 * Symbolic: the ownership predicate own[m][n] (is tile (m,n) local?), the virtual process of every tile,
 * the schedule: which pending task runs next, and how many pending tasks run to completion between two
 * tasks scheduled by the startup function (the startup loop runs concurrently with the workers).
 * Granularity: one task = data_lookup + body + complete_hook runs atomically ("operation level"); the only
 * shared variable of the chains, next_n, is advanced by one atomic fetch-and-increment.
 *
 * Stubs: the collection (rank_of / vpid_of / data_of from the symbolic tables), __parsec_schedule and
 * __parsec_schedule_vp (move the ring of new tasks to the harness' pending set), the task allocator
 * (parsec_thread_mempool_allocate -> static task objects), parsec_data_get_copy (one static copy per
 * collection), PINS (off), parsec_task_t class (no constructors, as in parsec.c), the operator (counts
 * the visits of every tile).  The taskpool object is built by the harness with the same assignments as
 * parsec_map_operator_New (which mallocs through the object system and is outside this query).
 */
#include "vp_harness.h"
#ifndef MT
#define MT 3
#define NT 3
#endif
#ifndef NVP
#define NVP 1
#endif
#ifndef NCORES
#define NCORES 2
#endif
#define MAXT (MT * NT + 2)
/* known finding C22-mapop-multi-vp: with more than one virtual process the startup function hands a column to
 * two chains / drops columns.  In the KF_EXCLUDE run of a multi-VP query the counting obligations are not
 * asserted (everything else is); the KF_ONLY run asserts everything. */
#if defined(KF_EXCLUDE_C22_MAPOP_MULTI_VP) && NVP > 1
#define VCOUNT(c, msg) do { if (!(c)) { VASSUME(0); } } while (0)
#else
#define VCOUNT(c, msg) VASSERTM(c, msg)
#endif
#ifndef INTERLEAVE
#define INTERLEAVE 1
#endif

#include "parsec/runtime.h"
#include "parsec/parsec_internal.h"
#include "parsec/mempool.h"
#include "parsec/scheduling.h"
#include "parsec/data_internal.h"
#include "parsec/execution_stream.h"

/* task allocation: ONE static task object instead of the lock-free mempool (C27/C30).  Every task built by
 * add_task_to_list is handed to __parsec_schedule / __parsec_schedule_vp before the next one is allocated, and
 * those stubs copy its coordinates into the harness' pending set at once, so the object can be reused (a
 * symbolically indexed pool of parsec_task_t makes the memcpy of PARSEC_COPY_EXECUTION_CONTEXT intractable). */
static parsec_task_t vp_new_task; static int vp_npool, vp_task_in_flight;
static void *vp_task_alloc(parsec_thread_mempool_t *mp)
{
    (void)mp;
    VCOUNT(vp_npool < MAXT, "no more tasks are created than there are tiles (+2)");
    if (vp_npool >= MAXT) { VASSUME(0); }
    VASSERTM(!vp_task_in_flight, "harness: the previous new task was handed to the scheduler before the next allocation");
    vp_task_in_flight = 1; vp_npool++;
    return &vp_new_task;
}
#define parsec_thread_mempool_allocate(mp) vp_task_alloc(mp)

#include "parsec/data_dist/matrix/map_operator.c"

/* ---- runtime stubs ---- */
int parsec_debug_output, parsec_debug_colorize, parsec_debug_rank;
void parsec_output_verbose(int level, int id, const char *fmt, ...) { (void)level; (void)id; (void)fmt; }
uint64_t parsec_pins_enable_mask = 0;
void parsec_pins_instrument(struct parsec_execution_stream_s *es, PARSEC_PINS_FLAG f, parsec_task_t *t) { (void)es; (void)f; (void)t; }
static parsec_construct_t vp_no_ctor[1] = { NULL };
static parsec_destruct_t vp_no_dtor[1] = { NULL };
parsec_class_t parsec_task_t_class = { "parsec_task_t", NULL, NULL, NULL, 1, 1, vp_no_ctor, vp_no_dtor, sizeof(parsec_task_t) };
parsec_class_t parsec_taskpool_t_class;
/* symbols whose address is stored in static tables of the unit; never called on the paths under test */
void parsec_class_initialize(parsec_class_t *c) { (void)c; VASSERTM(0, "harness: parsec_class_initialize not reachable (classes are pre-initialised)"); }
void parsec_obj_destruct(parsec_object_t *o) { (void)o; VASSERTM(0, "harness: no object reaches reference count 0"); }
uint64_t parsec_hash_table_generic_64bits_key_hash(parsec_key_t key, void *d) { (void)d; return (uint64_t)key; }
parsec_hook_return_t parsec_release_task_to_mempool_update_nbtasks(parsec_execution_stream_t *es, parsec_task_t *t) { (void)es; (void)t; return PARSEC_HOOK_RETURN_DONE; }
int parsec_add_fetch_runtime_task(parsec_taskpool_t *tp, int n) { (void)tp; return n; }
int parsec_taskpool_reserve_id(parsec_taskpool_t *tp) { (void)tp; return 0; }
int parsec_data_release_self_contained_data(parsec_data_t *d) { (void)d; return 0; }
struct ompi_predefined_datatype_t { char opaque[64]; };
struct ompi_predefined_datatype_t ompi_mpi_datatype_null;

/* ---- the collection: symbolic ownership and VP tables ---- */
#define MYRANK 1
static int own[MT][NT], vpt[MT][NT];
static parsec_tiled_matrix_t SRC, DST;
static parsec_data_t DS, DD; static parsec_data_copy_t CS, CD;
static uint32_t st_rank_of(parsec_data_collection_t *dc, ...)
{
    va_list ap; va_start(ap, dc); int m = va_arg(ap, int), n = va_arg(ap, int); va_end(ap);
    VASSERTM(m >= 0 && m < MT && n >= 0 && n < NT, "rank_of is asked about tiles of the matrix only");
    if (!(m >= 0 && m < MT && n >= 0 && n < NT)) { VASSUME(0); }
    return own[m][n] ? MYRANK : 0;
}
static int32_t st_vpid_of(parsec_data_collection_t *dc, ...)
{
    va_list ap; va_start(ap, dc); int m = va_arg(ap, int), n = va_arg(ap, int); va_end(ap);
    VASSERTM(m >= 0 && m < MT && n >= 0 && n < NT && own[m][n], "vpid_of is asked about local tiles only (contract of the collections)");
    if (!(m >= 0 && m < MT && n >= 0 && n < NT)) { VASSUME(0); }
    return vpt[m][n];
}
static int looked_up_m, looked_up_n;
static parsec_data_t *st_data_of(parsec_data_collection_t *dc, ...)
{
    va_list ap; va_start(ap, dc); int m = va_arg(ap, int), n = va_arg(ap, int); va_end(ap);
    VASSERTM(m >= 0 && m < MT && n >= 0 && n < NT && own[m][n], "data_of is asked about local tiles only");
    looked_up_m = m; looked_up_n = n;
    return (dc == &SRC.super) ? &DS : &DD;
}
parsec_data_copy_t *parsec_data_get_copy(parsec_data_t *d, uint32_t dev) { (void)dev; return (d == &DS) ? &CS : &CD; }

/* ---- the operator: the observation point of the property ---- */
static int visits[MT][NT], nvisits;
static int op_record(struct parsec_execution_stream_s *es, const void *src, void *dst, void *op_data, ...)
{
    va_list ap; va_start(ap, op_data); int m = va_arg(ap, int), n = va_arg(ap, int); va_end(ap);
    (void)es;
    VASSERTM(m >= 0 && m < MT && n >= 0 && n < NT, "the operator is called with coordinates of the matrix");
    if (!(m >= 0 && m < MT && n >= 0 && n < NT)) { VASSUME(0); }
    VASSERTM(own[m][n], "the operator is only called on local tiles");
    VASSERTM(src == (const void *)&visits && dst == (void *)&nvisits && op_data == (void *)&own, "the operator gets the source and destination tile pointers and the user data");
    VASSERTM(looked_up_m == m && looked_up_n == n, "the operator gets the data of its own tile (m,n)");
    visits[m][n]++; nvisits++;
    return 0;
}

/* ---- pending set + scheduler stubs ---- */
static int pend_m[MAXT], pend_n[MAXT], pend_alive[MAXT], npend, nalive, in_startup;
static parsec_map_operator_taskpool_t TP;
static parsec_context_t CTX; static parsec_vp_t VP[NVP]; static parsec_execution_stream_t ES[NVP][NCORES];

static void enqueue_ring(parsec_task_t *ring)
{
    if (ring == NULL) return;
    /* add_task_to_list is called once per ready list in this unit: the ring is one task */
    VASSERTM((parsec_task_t *)ring->super.list_next == ring, "each ready ring handed to the scheduler holds exactly one task");
    VCOUNT(npend < MAXT, "no more tasks are scheduled than there are tiles (+2)");
    if (npend >= MAXT) { VASSUME(0); }
    VASSERTM(ring->taskpool == &TP.super && ring->task_class == &parsec_map_operator, "scheduled tasks belong to the map operator");
    VASSERTM(ring == &vp_new_task && vp_task_in_flight, "harness: the scheduled task is the one just allocated");
#ifdef VP_NATIVE
    printf("  schedule task (%d,%d)%s\n", ring->locals[0].value, ring->locals[1].value, in_startup ? " [startup]" : "");
#endif
    pend_m[npend] = ring->locals[0].value; pend_n[npend] = ring->locals[1].value; pend_alive[npend] = 1; npend++; nalive++;
    vp_task_in_flight = 0;
}
static void run_one(void);
int __parsec_schedule(parsec_execution_stream_t *es, parsec_task_t *tasks_ring, int32_t distance)
{
    (void)es; (void)distance;
    enqueue_ring(tasks_ring);
    /* the startup function runs concurrently with the workers: up to INTERLEAVE pending tasks complete here */
    if (in_startup) { for (int k = 0; k < INTERLEAVE; k++) if (nalive > 0 && IN_BOOL()) run_one(); }
    return 0;
}
int __parsec_schedule_vp(parsec_execution_stream_t *es, parsec_task_t **task_rings, int32_t distance)
{
    (void)es; (void)distance;
    for (int v = 0; v < NVP; v++) enqueue_ring(task_rings[v]);
    return 0;
}

static parsec_task_t RT;
static void run_one(void)
{
    int k = IN_RANGE(0, MAXT - 1);
    VASSUME(k < npend && pend_alive[k]);
    pend_alive[k] = 0; nalive--;
#ifdef VP_NATIVE
    printf("  run task (%d,%d)%s  next_n=%d\n", pend_m[k], pend_n[k], in_startup ? " [during startup]" : "", (int)TP.next_n);
#endif
    memset(&RT, 0, sizeof(RT));
    RT.taskpool = &TP.super; RT.task_class = &parsec_map_operator;
    RT.locals[0].value = pend_m[k]; RT.locals[1].value = pend_n[k];
    parsec_execution_stream_t *es = &ES[0][0];
    data_lookup(es, &RT);            /* prepare_input */
    hook_of(es, &RT);                /* the body: calls the operator */
    complete_hook(es, &RT);          /* complete_execution: release_deps -> iterate_successors */
}

int main(void)
{
    int nlocal = 0;
    for (int m = 0; m < MT; m++) for (int n = 0; n < NT; n++) {
        own[m][n] = IN_BOOL(); vpt[m][n] = IN_RANGE(0, NVP - 1); nlocal += own[m][n];
    }
#ifdef VP_NATIVE
    for (int m = 0; m < MT; m++) { printf("  row %d:", m); for (int n = 0; n < NT; n++) printf("  %s/vp%d", own[m][n] ? "local" : "remote", vpt[m][n]); printf("\n"); }
#endif
    SRC.mt = MT; SRC.nt = NT; SRC.i = 0; SRC.j = 0; SRC.nb_local_tiles = nlocal; SRC.super.myrank = MYRANK;
    SRC.super.rank_of = st_rank_of; SRC.super.vpid_of = st_vpid_of; SRC.super.data_of = st_data_of;
    DST = SRC;
    CS.device_private = (void *)&visits; CD.device_private = (void *)&nvisits;
    CS.super.super.obj_reference_count = 100; CD.super.super.obj_reference_count = 100;
    CTX.nb_vp = NVP;
    for (int v = 0; v < NVP; v++) {
        CTX.virtual_processes[v] = &VP[v]; VP[v].parsec_context = &CTX; VP[v].vp_id = v; VP[v].nb_cores = NCORES;
        for (int c = 0; c < NCORES; c++) { VP[v].execution_streams[c] = &ES[v][c]; ES[v][c].virtual_process = &VP[v]; ES[v][c].th_id = c; }
    }
    /* as parsec_map_operator_New */
    TP.src = &SRC; TP.dest = &DST; TP.op = op_record; TP.op_data = (void *)&own; TP.next_n = 0;
    TP.super.taskpool_id = 1111; TP.super.nb_tasks = SRC.nb_local_tiles;

    parsec_task_t *startup_list = NULL;
    in_startup = 1;
    parsec_map_operator_startup_fn(&CTX, &TP.super, &startup_list);
    in_startup = 0;
    enqueue_ring(startup_list);
    for (int s = 0; s < MT * NT; s++) if (nalive > 0) run_one();
    VCOUNT(nalive == 0, "all scheduled tasks have run within MT*NT steps");

    for (int m = 0; m < MT; m++) for (int n = 0; n < NT; n++) {
#if !(defined(KF_EXCLUDE_C22_MAPOP_MULTI_VP) && NVP > 1)
        VASSERTM(visits[m][n] <= 1, "no tile is visited twice");
        VASSERTM(visits[m][n] == own[m][n], "every local tile is visited (exactly once), no other tile is");
#endif
    }
#if !(defined(KF_EXCLUDE_C22_MAPOP_MULTI_VP) && NVP > 1)
    VASSERTM(nvisits == nlocal, "number of operator calls = nb_local_tiles (the taskpool's nb_tasks)");
#endif
    VASSERTM(CS.super.super.obj_reference_count == 100 && CD.super.super.obj_reference_count == 100, "data copy references taken by data_lookup are all released");
#if defined(KF_EXCLUDE_C22_MAPOP_MULTI_VP) && NVP > 1
    if (nvisits >= 2) VWITNESS("multi-VP run, counting obligations excluded (known finding)");
#else
    if (nlocal >= 3 && nlocal < MT * NT && vp_npool >= 3) VWITNESS("several tasks, some remote tiles");
    if (nlocal == MT * NT) VWITNESS("all tiles local");
#endif
    return 0;
}
