/* C43 / O2: source and version choice of parsec_device_data_stage_in (device_gpu.c).
 *
 * Unit: the real parsec/mca/device/device_gpu.c (#included; the static inline
 * parsec_device_data_stage_in, parsec_gpu_data_copy_acquire_reader / release_reader are executed),
 * the real parsec/data.c (parsec_data_start/end_transfer_ownership_to_copy), list.h.
 * data_internal.h comes from an overlay with device_copies[VP_NDEV] (struct hack).
 *
 * ONE call of stage_in(G, flow, task_data, gpu_task, stream) from a symbolic data state:
 *   one data D with a CPU copy C0 (device 0), the destination copy E on G (device 1, = data_out)
 *   and an optional copy X on another accelerator (device 2).  Symbolic per copy: coherency,
 *   version 0..VMAX, readers (X may carry the "being repurposed" sentinel), transfer status;
 *   symbolic owner_device, data_in in {C0, X, E}, access mode R / W / RW, kernel or prefetch task,
 *   peer access G -> device 2, dc / source_repo_entry present or not, E / X in their LRU or not,
 *   result of the DSL's stage_in callback.
 *   Pre-state = representation invariant of one parsec_data_t (C26's INV, extended to copies that
 *   are being filled: UNDER_TRANSFER => INVALID, carrying the version they will hold) + the caller
 *   contract "data_in holds (or is being filled with) the newest valid version".
 *
 * Oracle: S* when a transfer is issued (source valid, complete, newest, pinned by a reader),
 * N* when none is issued (the device copy already holds the newest version), R* on retry
 * (nothing changed), V* version/readers bookkeeping.
 */
#include "vp_harness.h"
#include <stdlib.h>
#include <string.h>
#include <limits.h>
#ifndef VP_NDEV
#define VP_NDEV 3
#endif
#ifndef VMAX
#define VMAX 3
#endif
#include "parsec/data.c"
#include "parsec/mca/device/device_gpu.c"
#include "parsec/class/parsec_list.c"
#include "vp_objstub.h"

#define DEV 1
#define SENT PARSEC_DEVICE_DATA_COPY_ATOMIC_SENTINEL
#define RD PARSEC_FLOW_ACCESS_READ
#define WR PARSEC_FLOW_ACCESS_WRITE
#define INVALID   PARSEC_DATA_COHERENCY_INVALID
#define OWNED     PARSEC_DATA_COHERENCY_OWNED
#define EXCLUSIVE PARSEC_DATA_COHERENCY_EXCLUSIVE
#define SHARED    PARSEC_DATA_COHERENCY_SHARED
#define UNDER     PARSEC_DATA_STATUS_UNDER_TRANSFER

uint32_t parsec_nb_devices = VP_NDEV;
int parsec_debug_output, parsec_debug_colorize, parsec_debug_rank, parsec_debug_verbose;
const char *parsec_hostname = "h";
static int n_warnings;
void parsec_output_verbose(int level, int id, const char *fmt, ...) { (void)level; (void)id; (void)fmt; n_warnings++; }
void parsec_output(int id, const char *fmt, ...) { (void)id; (void)fmt; }
struct ompi_predefined_datatype_t { char opaque[64]; };
struct ompi_predefined_datatype_t ompi_mpi_datatype_null;
void parsec_arena_release(parsec_data_copy_t *c) { (void)c; VASSERTM(0, "harness: parsec_arena_release is not reachable"); }
void *zone_malloc(zone_malloc_t *g, size_t s) { (void)g; (void)s; VASSERTM(0, "harness: zone_malloc is not reachable from stage_in"); return NULL; }
void zone_free(zone_malloc_t *g, void *p) { (void)g; (void)p; VASSERTM(0, "harness: zone_free is not reachable from stage_in"); }

static parsec_device_gpu_module_t G, G2;
static parsec_device_module_t CPU;
static uint64_t DIN_G[VP_NDEV];
static parsec_data_collection_t DC;
static parsec_data_t D;
static parsec_data_copy_t C0, E, X;
static parsec_task_t T;
static parsec_task_class_t TC;
static parsec_gpu_task_t GT;
static parsec_gpu_flow_info_t FI[1];
static parsec_flow_t FL[1];
static parsec_gpu_exec_stream_t ST;
static char MEM[3][8], REPO[8];

parsec_device_module_t *parsec_mca_device_get(uint32_t i)
{
    if (i == 0) return &CPU;
    if (i == 1) return &G.super;
    if (i == 2) return &G2.super;
    return NULL;
}
int parsec_mca_device_is_gpu(uint32_t i) { return i == 1 || i == 2; }

/* the DSL's stage_in callback: records the request */
static int si_calls, si_rc;
static parsec_data_copy_t *si_src, *si_dst;
static uint32_t si_mask;
static int vp_stage_in(parsec_gpu_task_t *gt, uint32_t mask, parsec_gpu_exec_stream_t *s)
{
    (void)s;
    si_calls++; si_mask = mask;
    si_src = gt->flow_info[0].source;
    si_dst = gt->ec->data[0].data_out;
    return si_rc;
}

static void mk_obj(void *o, parsec_class_t *cls)
{
    parsec_object_t *obj = (parsec_object_t *)o;
    if (0 == cls->cls_initialized) parsec_class_initialize(cls);
    obj->obj_class = cls; obj->obj_reference_count = 1; obj->obj_release = &parsec_obj_destruct_and_free;
    parsec_obj_run_constructors(obj);
}
static parsec_data_copy_t *cp(int d) { return d == 0 ? D.device_copies[0] : d == 1 ? D.device_copies[1] : D.device_copies[2]; }
static int valid(int d) { parsec_data_copy_t *c = cp(d); return c != NULL && c->coherency_state != INVALID; }
static uint32_t newest(void) { uint32_t v = 0; for (int d = 0; d < VP_NDEV; d++) if (valid(d) && cp(d)->version > v) v = cp(d)->version; return v; }
static int n_owned(void) { int n = 0; for (int d = 0; d < VP_NDEV; d++) if (valid(d) && cp(d)->coherency_state == OWNED) n++; return n; }
static int n_valid(void) { int n = 0; for (int d = 0; d < VP_NDEV; d++) if (valid(d)) n++; return n; }
static int inv(void)
{
    uint32_t nw = newest();
    int o = D.owner_device;
    if (n_owned() > 1 || n_valid() < 1) return 0;
    if (o != -1) { if (o < 0 || o >= VP_NDEV || !valid(o) || cp(o)->version != nw) return 0; }
    for (int d = 0; d < VP_NDEV; d++) {
        parsec_data_copy_t *c = cp(d);
        if (c == NULL) continue;
        if (c->data_transfer_status == UNDER && c->coherency_state != INVALID) return 0;   /* a copy being filled is INVALID */
        if (!valid(d)) continue;
        if (c->coherency_state == OWNED && (o != d || c->version != nw)) return 0;
        if (c->version < nw && (c->coherency_state != SHARED || n_owned() == 0)) return 0;
        if (c->coherency_state == EXCLUSIVE && n_valid() != 1) return 0;
    }
    return 1;
}
static int in_list(parsec_list_t *l, void *c)
{
    parsec_list_item_t *g = &l->ghost_element, *it = (parsec_list_item_t *)g->list_next;
    for (int s = 0; s < 3; s++) { if (it == g) return 0; if (it == (parsec_list_item_t *)c) return 1; it = (parsec_list_item_t *)it->list_next; }
    return 0;
}

int main(void)
{
    CPU.device_index = 0; CPU.type = PARSEC_DEV_CPU; CPU.name = "cpu";
    G.super.device_index = DEV; G.super.type = PARSEC_DEV_CUDA; G.super.name = "g1";
    G.super.data_in_from_device = DIN_G; G.super.data_in_array_size = VP_NDEV;
    G2.super.device_index = 2; G2.super.type = PARSEC_DEV_CUDA; G2.super.name = "g2";
    int peer = IN_BOOL();
    G.peer_access_mask = (int16_t)(peer ? (1 << 2) : 0);
    mk_obj(&G.gpu_mem_lru, &parsec_list_t_class);  mk_obj(&G.gpu_mem_owned_lru, &parsec_list_t_class);
    mk_obj(&G2.gpu_mem_lru, &parsec_list_t_class); mk_obj(&G2.gpu_mem_owned_lru, &parsec_list_t_class);

    /* ---- the data ---- */
    mk_obj(&D, &parsec_data_t_class);
    int has_dc = IN_BOOL(), has_repo = IN_BOOL(), has_x = IN_BOOL();
    D.dc = has_dc ? &DC : NULL; D.span = 8; D.key = 7;
    int coh[3], ver[3], rdr[3], sts[3];
    for (int d = 0; d < 3; d++) {
        coh[d] = IN_RANGE(0, 3); if (coh[d] == 3) coh[d] = (int)SHARED;   /* INVALID, OWNED, EXCLUSIVE, SHARED */
        ver[d] = IN_RANGE(0, VMAX); sts[d] = IN_RANGE(0, 2);
        rdr[d] = IN_RANGE(-1, 1);
        if (rdr[d] == -1) { VASSUME(d == 2); rdr[d] = -SENT; }    /* only a copy owned by another device can be under repurposing */
        if (d == 2 && !has_x) continue;
        parsec_data_copy_t *c = d == 0 ? &C0 : d == 1 ? &E : &X;
        mk_obj(c, &parsec_data_copy_t_class);
        c->device_private = MEM[d];
        if (d != 0) c->flags = PARSEC_DATA_FLAG_PARSEC_OWNED | PARSEC_DATA_FLAG_PARSEC_MANAGED;
        parsec_data_copy_attach(&D, c, (uint8_t)d);
        c->coherency_state = (parsec_data_coherency_t)coh[d]; c->version = (uint32_t)ver[d];
        c->readers = rdr[d]; c->data_transfer_status = (parsec_data_status_t)sts[d];
    }
    D.owner_device = (int8_t)IN_RANGE(-1, 2);
    VASSUME(inv());
    int e_inlru = IN_BOOL(), x_inlru = IN_BOOL();
    if (e_inlru) parsec_list_nolock_push_back(&G.gpu_mem_lru, &E.super);
    if (has_x && x_inlru) parsec_list_nolock_push_back(&G2.gpu_mem_lru, &X.super);

    /* ---- the request ---- */
    int a = IN_RANGE(1, 3);
    int type = (a & 1 ? RD : 0) | (a & 2 ? WR : 0);
#ifdef ACC_RO
    VASSUME(type == RD);
#endif
#ifdef ACC_W
    VASSUME(type & WR);
#endif
    int prefetch = IN_BOOL();
    int din = IN_RANGE(0, 2);                         /* data_in: 0 CPU copy, 1 copy on device 2, 2 the destination copy itself */
    VASSUME(din != 1 || has_x);
    parsec_data_copy_t *in = din == 0 ? &C0 : din == 1 ? &X : &E;
    uint32_t nw = newest(), vin = in->version;
    /* caller contract: the task's input holds the newest valid version; an input on an accelerator may
     * still be in flight where stage_in handles it explicitly (the destination itself, or a read-only flow's input on another accelerator); a host input and a writer's input are complete (the task
     * became ready only after its producer's write-back completed) */
    VASSUME(vin == nw && (in->coherency_state != INVALID || (in->data_transfer_status == UNDER && (din == 2 || (din == 1 && type == RD)))));
    /* A1: an input that lives on another accelerator is only handed to a task of this device when this
     *     device can read it directly (otherwise the runtime pushes it out to the host first) */
#ifndef NO_A1
    VASSUME(din != 1 || peer);
#endif
    /* A2: a copy that its owner device is repurposing (readers < 0) was taken from that device's CLEAN
     *     LRU, so it is never the only valid holder of the newest version */
#ifndef NO_A2
    if (has_x && X.readers < 0 && X.coherency_state != INVALID && X.version == nw)
        VASSUME((C0.coherency_state != INVALID && C0.version == nw) || (E.coherency_state != INVALID && E.version == nw));
#endif
    FL[0].name = "f"; FL[0].flow_index = 0; FL[0].flow_flags = (uint8_t)type;
    FI[0].flow = &FL[0]; FI[0].flow_span = 8;
    TC.name = "tc"; TC.nb_flows = 1; T.task_class = &TC;
    T.data[0].data_in = in; T.data[0].data_out = &E;
    T.data[0].source_repo_entry = has_repo ? (struct data_repo_entry_s *)REPO : NULL;
    GT.task_type = prefetch ? PARSEC_GPU_TASK_TYPE_PREFETCH : PARSEC_GPU_TASK_TYPE_KERNEL;
    GT.ec = &T; GT.nb_flows = 1; GT.flow_info = FI; GT.stage_in = vp_stage_in;
    si_rc = IN_BOOL() ? PARSEC_SUCCESS : PARSEC_ERROR;

    /* snapshot */
    int p_coh[3], p_rd[3], p_st[3]; uint32_t p_ver[3]; int p_owner = D.owner_device;
    for (int d = 0; d < 3; d++) { parsec_data_copy_t *c = cp(d); p_coh[d] = c ? (int)c->coherency_state : -1; p_rd[d] = c ? c->readers : 0; p_st[d] = c ? (int)c->data_transfer_status : 0; p_ver[d] = c ? c->version : 0; }
    int e_valid_newest = (p_coh[1] != INVALID) && p_ver[1] == nw;
    int new_data = !has_repo && !has_dc && vin == 0;
    int bump = (type & WR) && !prefetch;

    /* ================= the operation ================= */
    int rc = parsec_device_data_stage_in(&G, &FL[0], &T.data[0], &GT, &ST);
    /* ================================================== */

    VASSERTM(rc == 1 || rc == PARSEC_HOOK_RETURN_DONE || rc == PARSEC_HOOK_RETURN_AGAIN || rc == PARSEC_HOOK_RETURN_NEXT || rc == PARSEC_HOOK_RETURN_ERROR, "stage_in returns 1, DONE, AGAIN, NEXT or ERROR");
    VASSERTM(si_calls <= 1, "at most one transfer is issued per call");
    VASSERTM(D.lock == PARSEC_ATOMIC_UNLOCKED, "the data lock is released");
    VASSERTM(T.data[0].data_in == in && T.data[0].data_out == &E, "the task's bindings are not changed");

    if (si_calls == 1 && si_rc == PARSEC_SUCCESS) {
        parsec_data_copy_t *s = si_src;
        int sd = s == &C0 ? 0 : s == &X ? 2 : s == &E ? 1 : -1;
        VASSERTM(rc == 1, "S0: a successful transfer request is reported as 1");
        VASSERTM(si_mask == 1u && si_dst == &E, "S1: the transfer targets this flow's device copy");
        VASSERTM(sd == 0 || sd == 2, "S2: the source is another copy of the same data");
        if (sd >= 0) {
            VASSERTM(p_coh[sd] != INVALID, "S3: the source copy is valid");
            VASSERTM(p_st[sd] != UNDER, "S4: the source copy is not itself being filled");
            VASSERTM(p_ver[sd] == nw, "S5: the source copy holds the newest version");
            VASSERTM(s->device_private != NULL, "S6: the source copy has memory");
            if (sd == 2 && (type & RD)) VASSERTM(p_rd[2] >= 0 && s->readers == p_rd[2] + 1, "S7: an accelerator source is pinned by a reader until the transfer completes");
            if (sd == 0) VASSERTM(s->readers == p_rd[0], "S8: a host source's readers are untouched");
        }
        VASSERTM(type & RD, "S9: only flows that read are transferred");
        VASSERTM(!e_valid_newest, "S10: no transfer when the device copy already holds the newest version");
        VASSERTM(E.version == nw + (bump ? 1u : 0u), "S11: the device copy is stamped with the newest version (+1 for a writer)");
        VASSERTM(E.data_transfer_status == UNDER && E.coherency_state == INVALID, "S12: the destination is INVALID / UNDER_TRANSFER until completion");
        VASSERTM(E.readers == p_rd[1] + 1, "S13: the destination gains the task's reader");
    } else if (rc == PARSEC_HOOK_RETURN_DONE) {
        VASSERTM(si_calls == 0, "N0: DONE means no transfer was issued");
        if ((type & RD) && !new_data) VASSERTM(e_valid_newest, "N1: a reading flow gets DONE without transfer only if the device copy already holds the newest version");
        if (din != 2) {
            VASSERTM(E.version == (bump ? nw + 1u : ((type & RD) && !new_data ? nw : E.version)), "N2: version after a no-transfer stage-in");
            VASSERTM(E.coherency_state != INVALID, "N3: the device copy is valid after DONE");
        } else {
            VASSERTM(E.version == p_ver[1] + (bump ? 1u : 0u), "N4: in-place input: a writer bumps the version");
        }
        VASSERTM(E.readers == p_rd[1] + ((type & RD) ? 1 : 0), "N5: the destination gains exactly the task's reader");
        if (has_x) VASSERTM(X.readers == p_rd[2], "N6: no reader is left on the other accelerator's copy");
        VASSERTM(C0.readers == p_rd[0], "N7: host copy readers untouched");
    } else if (rc == PARSEC_HOOK_RETURN_AGAIN || rc == PARSEC_HOOK_RETURN_NEXT) {
        VASSERTM(si_calls == 0, "R0: a retry issues no transfer");
        for (int d = 0; d < 3; d++) if (cp(d) != NULL) {
            parsec_data_copy_t *c = cp(d);
            VASSERTM(c->readers == p_rd[d] && (int)c->coherency_state == p_coh[d] && c->version == p_ver[d] && (int)c->data_transfer_status == p_st[d], "R1: a retry leaves readers, coherency, versions and transfer status unchanged");
        }
        VASSERTM(D.owner_device == p_owner, "R2: a retry leaves the owner unchanged");
        if (!(type & WR)) VASSERTM(in_list(&G.gpu_mem_lru, &E) == e_inlru, "R3: a read-only retry leaves the destination in its list");
    } else if (rc == 1) {
        /* no new transfer: the destination is already being filled (double request or in-place input under transfer) */
        VASSERTM(si_calls == 0 && p_st[1] == UNDER, "W0: 1 without a new transfer only while the destination is being filled");
        if (type & RD) VASSERTM(E.readers == p_rd[1] + 1, "W1: the destination gains the task's reader");
    } else {
        VASSERTM(si_calls == 1 && si_rc != PARSEC_SUCCESS, "E0: ERROR only when the DSL's stage_in callback failed");
        if (has_x) VASSERTM(X.readers == p_rd[2], "E1: the source reader is released on failure");
    }
    if ((type & WR) && (rc == 1 || rc == PARSEC_HOOK_RETURN_DONE) && !(din == 2 && prefetch))
        VASSERTM(!in_list(&G.gpu_mem_lru, &E), "V1: a copy handed to a writer is removed from the clean LRU");

#ifdef WITNESS
    if (si_calls == 1 && si_src == &X && rc == 1) VWITNESS("d2d_transfer");
    if (si_calls == 1 && si_src == &C0 && rc == 1 && has_x) VWITNESS("h2d_transfer_with_other_gpu_copy");
    if (rc == PARSEC_HOOK_RETURN_DONE && (type & RD) && din != 2 && !new_data) VWITNESS("no_transfer_needed");
#ifndef ACC_W
    if (rc == PARSEC_HOOK_RETURN_AGAIN) VWITNESS("retry_again");
#endif
#ifndef ACC_RO
    if (rc == PARSEC_HOOK_RETURN_DONE && type == WR && p_coh[1] == INVALID && !prefetch) VWITNESS("write_only_flow_needs_no_transfer");
    if (si_calls == 1 && rc == 1 && type == (RD | WR) && !prefetch && e_inlru) VWITNESS("rw_transfer_bumps_version");
#endif
#ifndef ACC_RO
    if (rc == PARSEC_HOOK_RETURN_NEXT) VWITNESS("retry_next");
#endif
    if (rc == 1 && si_calls == 0) VWITNESS("double_request");
#endif
    return 0;
}
