from vp.api import Q, Mutant
TITLE = "Accelerator tasks see the newest data (reduced: eviction safety + stage-in source choice)"
U = "parsec/mca/device/device_gpu.c"
D = "parsec/data.c"
H = "parsec/data_internal.h"
OUTSIDE = []
ASSUMPTIONS = []
BOUNDS = {"quick": {}, "thorough": {}}
PATCH = [(H, r"device_copies\[\];", "device_copies[VP_NDEV];")]
UNITS = [U, D, H, "parsec/class/list.h", "parsec/class/list_item.h", "parsec/class/parsec_list.c", "parsec/class/parsec_object.h"]


def queries(ctx):
    qs = []
    info = {}
    qs.append(Q("evict", ["evict.c"], defs=["VP_NDEV=3"], unwind=4,
                unwind_fn={"parsec_device_data_reserve_space": 7, "parsec_atomic_lock": 2, "walk_lru": 9, "in_lru": 9, "main": 9,
                           "zone_malloc": 7},
                units=UNITS, patches=PATCH, object_bits=12, timeout=900, info=info))
    return qs


def mutants(ctx):
    return []


CLAIMED = False
