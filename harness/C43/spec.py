from vp.api import Q, Mutant
TITLE = "Accelerator tasks see the newest data (reduced: stage-in source/version choice of parsec_device_data_stage_in)"
U = "parsec/mca/device/device_gpu.c"
D = "parsec/data.c"
H = "parsec/data_internal.h"
OUTSIDE = [
    "O1 eviction safety of parsec_device_data_reserve_space: NOT encoded (harness/C43/NOT_APPLICABLE.md: no verdict in 5-15 min even for one LRU member / one flow; work-in-progress harness evict.c is kept but not part of any query)",
    "everything behind the vendor runtime: streams, events, real transfers, completion callbacks (parsec_device_callback_complete_push), kernel_pop write-back, W2R tasks",
    "histories: each query is ONE call of one function from a symbolic state; that the assumed state invariants are preserved by the rest of the device layer "
    "(kernel_push/pop/epilog, the LRU discipline 'dirty copies live in gpu_mem_owned_lru') is NOT shown",
    "concurrency between the device manager thread and other threads (readers CAS, data locks): sequential execution only",
    "more than one data per stage-in call, more than 3 devices",
    "transfer_gpu.c (the D2H W2R task class) is not encoded",
    "inputs on another accelerator WITHOUT peer access (assumption A1): in that case stage_in falls back to the host copy without checking its "
    "validity/version (solver counterexample with -DNO_A1; whether the runtime can produce that call is not established)",
]
ASSUMPTIONS = [
    "stage_in pre-state: representation invariant of one parsec_data_t (C26's INV: one OWNED copy = owner_device holding the newest version, stale copies SHARED and "
    "only next to an OWNED copy, EXCLUSIVE is the only valid copy, at least one valid copy) extended with 'UNDER_TRANSFER => INVALID'",
    "stage_in caller contract: data_in holds the newest valid version; it may still be in flight only where the code handles it (the destination itself, or a "
    "read-only flow's input on another accelerator); data_out is the attached copy on this device",
    "A1: an input residing on another accelerator implies peer access from this device to it",
    "A2: a copy under repurposing by its owner device (readers < 0) is never the only valid holder of the newest version (it came from the clean LRU)",
    "device function pointers / DSL stage_in callback: recording stub with nondeterministic result; zone allocator: nondeterministic stub",
    "object system: harness copy of parsec_class_initialize over static tables (vp_objstub.h); data_internal.h overlay device_copies[VP_NDEV]",
]
BOUNDS = {"quick": {"devices": 3, "versions": "0..3", "calls": 1},
          "thorough": {"devices": 3, "versions": "0..6", "calls": 1}}
PATCH = [(H, r"device_copies\[\];", "device_copies[VP_NDEV];")]
UNITS = [U, D, H, "parsec/class/list.h", "parsec/class/list_item.h", "parsec/class/parsec_list.c", "parsec/class/parsec_object.h"]
SI_INFO = {
    "symbolic": ["per copy (host, destination, other accelerator): coherency, version, readers (incl. repurposing sentinel), transfer status",
                 "owner_device", "data_in in {host copy, other accelerator's copy, destination}", "access mode", "kernel/prefetch", "peer access",
                 "dc / source_repo_entry presence", "LRU membership of destination and other copy", "result of the DSL stage_in callback"],
    "stubs": ["parsec_mca_device_get (3 static modules)", "gpu_task->stage_in (recording, nondeterministic rc)", "logging (counting)",
              "zone_malloc/zone_free/parsec_arena_release: unreachable, assert if reached", "parsec_class_initialize (static tables)"],
    "assumptions": ["INV on the pre-state", "caller contract for data_in", "A1 peer access", "A2 repurposed copy is not the sole newest"],
    "functions": ["parsec_device_data_stage_in", "parsec_gpu_data_copy_acquire_reader", "parsec_gpu_data_copy_release_reader",
                  "parsec_data_start_transfer_ownership_to_copy", "parsec_data_end_transfer_ownership_to_copy"],
}
UW = {"parsec_atomic_lock": 2}


def queries(ctx):
    qs = []
    for name, acc in (("stagein_read", "ACC_RO"), ("stagein_write", "ACC_W")):
        qs.append(Q(name, ["stagein.c"], defs=["VP_NDEV=3", "VMAX=3", acc], unwind=5, unwind_fn=UW,
                    units=UNITS, patches=PATCH, object_bits=12, timeout=900,
                    info=dict(SI_INFO, bounds={"devices": 3, "version": "0..3", "access": "READ" if acc == "ACC_RO" else "WRITE, RW"})))
    if ctx.thorough:
        qs.append(Q("stagein_all_v6", ["stagein.c"], defs=["VP_NDEV=3", "VMAX=6"], unwind=5, unwind_fn=UW, tiers=("thorough",),
                    units=UNITS, patches=PATCH, object_bits=12, timeout=1800,
                    info=dict(SI_INFO, bounds={"devices": 3, "version": "0..6", "access": "READ, WRITE, RW"})))
    return qs


def mutants(ctx):
    R, W, B = ["stagein_read"], ["stagein_write"], ["stagein_read", "stagein_write"]
    return [
        Mutant("fastpath_ignores_invalid_source", U,
               "                if( (PARSEC_DATA_COHERENCY_INVALID != candidate->coherency_state) &&\n                    (PARSEC_DATA_STATUS_UNDER_TRANSFER != candidate->data_transfer_status) ) {",
               "                if( 1 ) {", queries=R),
        Mutant("scan_accepts_invalid_candidate", U, "            if(PARSEC_DATA_COHERENCY_INVALID == candidate->coherency_state) {", "            if( 0 ) {", queries=R),
        Mutant("reader_version_off_by_one", U, "    else\n        gpu_elem->version = candidate->version;", "    else\n        gpu_elem->version = candidate->version + 1;", queries=R),
        Mutant("source_reader_leak_when_no_transfer", U,
               "        if( source_acquired ) {\n            int readers = parsec_gpu_data_copy_release_reader(candidate_dev, candidate, 1);\n            assert(readers >= 0);\n        }\n        gpu_elem->data_transfer_status = PARSEC_DATA_STATUS_COMPLETE_TRANSFER;",
               "        gpu_elem->data_transfer_status = PARSEC_DATA_STATUS_COMPLETE_TRANSFER;", queries=B),
        Mutant("acquire_ignores_repurposing_sentinel", U, "    if( readers >= 0 ) {\n        parsec_atomic_rmb();", "    if( 1 ) {\n        parsec_atomic_rmb();", queries=B),
        Mutant("writer_version_not_bumped", U,
               "    if( (PARSEC_FLOW_ACCESS_WRITE & type) && (gpu_task->task_type != PARSEC_GPU_TASK_TYPE_PREFETCH) )\n        gpu_elem->version = candidate->version + 1;",
               "    if( 0 )\n        gpu_elem->version = candidate->version + 1;", queries=W),
        Mutant("datac_shared_version_ge", D, "&& data->device_copies[i]->version > copy->version ) {", "&& data->device_copies[i]->version >= copy->version ) {", queries=B),
        Mutant("writer_stays_in_clean_lru", U,
               "        /* make sure the element is not in any tracking lists */\n        parsec_list_item_ring_chop((parsec_list_item_t*)gpu_elem);\n        PARSEC_LIST_ITEM_SINGLETON(gpu_elem);",
               "        /* make sure the element is not in any tracking lists */", queries=W),
    ]


CLAIMED = True
MANIFEST = {
 "engine": "cbmc-src",
 "text": "Heavily reduced. Bounded model checking of ONE call of the real parsec_device_data_stage_in (device_gpu.c, never built or run in this sandbox) together with the real "
         "data.c ownership functions, from EVERY state of one data with a host copy, the destination copy on the accelerator and an optional copy on a second accelerator "
         "(symbolic coherency, versions 0..3, readers incl. the 'being repurposed' sentinel, transfer status, owner, LRU membership) that satisfies the data representation "
         "invariant and the caller contract, for every access mode, kernel/prefetch task, peer-access setting and result of the DSL callback. Shown: a transfer is issued only "
         "for a reading flow whose device copy does not already hold the newest version; its source is a valid, complete copy of the same data holding the newest version, "
         "and an accelerator source is pinned by a reader; the destination is stamped with the newest version (+1 for a writer) and marked INVALID/UNDER_TRANSFER; DONE without "
         "transfer only if the device copy already holds the newest version (or the data is NEW); retries (AGAIN/NEXT) and failures leave readers, coherency, versions and owner "
         "unchanged; a copy handed to a writer leaves the clean LRU. 8 seeded changes of device_gpu.c/data.c are reported. NOT covered: eviction safety of "
         "parsec_device_data_reserve_space (not encodable within reach, see NOT_APPLICABLE.md), histories, write-back, streams/events.",
 "note": "one call from a symbolic pre-state constrained by an invariant that is assumed, not shown inductive over the device layer; assumptions A1 (input on another accelerator implies "
         "peer access - without it the solver finds stage_in falling back to a host copy of unchecked validity/version) and A2 (a copy under repurposing is not the only newest "
         "copy); device modules, DSL stage_in callback and allocator are stubs; sequential.",
 "technique": "CBMC bounded symbolic execution of the real C units + SAT (cadical); symbolic pre-state constrained by the invariant, one operation",
}
