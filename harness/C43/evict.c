/* C43 / O1: eviction safety of parsec_device_data_reserve_space (device_gpu.c).
 *
 * WORK IN PROGRESS - NOT REFERENCED BY ANY QUERY OF spec.py (no verdict within reach, see
 * NOT_APPLICABLE.md in this directory for the measured obstacles).  Kept for whoever continues.
 *
 * Unit: the real parsec/mca/device/device_gpu.c (#included: the static inline
 * parsec_device_data_reserve_space is called directly), the real parsec/data.c
 * (parsec_data_copy_attach/detach, the parsec_data_t / parsec_data_copy_t classes with their
 * constructors/destructors, __parsec_data_copy_release, parsec_data_release_self_contained_data),
 * the real list.h / list_item.h / parsec_list.c and the real object macros.
 * data_internal.h is compiled from an overlay with device_copies[VP_NDEV] (struct hack).
 *
 * ONE call of reserve_space(G, task) from a symbolic device state:
 *   - device 1 = G (the accelerator under test), device 0 = CPU, device 2 = another accelerator;
 *   - the clean LRU (G.gpu_mem_lru) holds NLRU (enumerated by the driver: 0..3) copies P0..P(NLRU-1),
 *     each: detached (original NULL) | attached to its own "old" data O_k | attached to the task's
 *     data M0 | M1; symbolic readers 0..2, reference count 1..2, transfer status, coherency,
 *     version (the list SHAPE is concrete - a symbolic shape makes every one of the 6 backward
 *     gotos of the search loop unwind independently, no verdict in 15 min - the attribute tuples
 *     are symbolic, so every arrangement of them is covered);
 *   - Q0/Q1: optional device copies of the task's datas that are not in the LRU;
 *   - old datas O_k: with or without a CPU copy, with or without an outside reference
 *     (refcount == nb_copies means the eviction destroys the data), lock free or held by
 *     "another thread" (trylock fails); with -DSELFCONT also dc == NULL and a protected CPU mirror
 *     (self-contained release path);
 *   - task: 1..2 flows, access NONE/READ/WRITE/RW each, both flows on the same or on different
 *     datas, data_in = NULL | CPU copy | copy already on G | copy on device 2;
 *   - allocator stub: every zone_malloc may fail (nondeterministic), otherwise hands out a free
 *     chunk of a pool of 6; zone_free checks its argument.
 *
 * Oracle (see the numbered VASSERTMs): A eviction conditions at zone_free time, C bindings after
 * DONE, D rollback after AGAIN, E chunk conservation, F LRU accounting, G data representation
 * invariant, H locks restored, I readers untouched, J/K epoch and eviction counters.
 */
#include "vp_harness.h"
#include <stdlib.h>
#include <string.h>
#include <limits.h>
#ifndef VP_NDEV
#define VP_NDEV 3
#endif
static void *vp_malloc(size_t sz); static void vp_free(void *p);
#define malloc vp_malloc
#define free vp_free
/* Object release = typed harness dispatcher instead of the generic obj_release function pointer
 * (the object system is C34's unit).  With the generic PARSEC_OBJ_RELEASE the solver has to follow
 * 14 type-compatible candidates per call site, recursively through every destructor: no verdict
 * in 10 min even for one LRU member.  A copy reaching reference count 0 runs the REAL
 * parsec_data_copy_destruct and is freed; a data reaching 0 is marked destroyed (its destructor,
 * which only walks the already empty device_copies[], is not executed). */
#include "parsec/parsec_config.h"
#include "parsec/class/parsec_object.h"
#undef PARSEC_OBJ_RELEASE
struct parsec_data_s; struct parsec_data_copy_s;
static int vp_release_data(struct parsec_data_s *d);
static int vp_release_copy(struct parsec_data_copy_s *c);
static int vp_release_other(void *o);
#define PARSEC_OBJ_RELEASE(object) do { if (_Generic((object), struct parsec_data_s *: vp_release_data, \
        struct parsec_data_copy_s *: vp_release_copy, default: vp_release_other)(object)) object = NULL; } while (0)
/* Object creation likewise: PARSEC_OBJ_NEW(parsec_data_copy_t) = pool allocation + the REAL constructors
 * called directly, parent first (the generic constructor table is read through a symbolic object
 * pointer after state merges and then has 14 candidates, destructors included). */
#undef PARSEC_OBJ_NEW
#define PARSEC_OBJ_NEW(type) ((type *)vp_obj_new_##type())
static void *vp_obj_new_parsec_data_copy_t(void);
static void *vp_obj_new_unreachable(void);
#define vp_obj_new_parsec_data_t vp_obj_new_unreachable
#define vp_obj_new_parsec_arena_t vp_obj_new_unreachable
#define vp_obj_new_parsec_arena_datatype_t vp_obj_new_unreachable
#define vp_obj_new_parsec_gpu_dsl_task_t vp_obj_new_unreachable
#include "parsec/data.c"
#include "parsec/mca/device/device_gpu.c"
#include "parsec/class/parsec_list.c"
#include "vp_objstub.h"
#undef malloc
#undef free

#define DEV 1
#define SENT PARSEC_DEVICE_DATA_COPY_ATOMIC_SENTINEL
#define RD PARSEC_FLOW_ACCESS_READ
#define WR PARSEC_FLOW_ACCESS_WRITE

uint32_t parsec_nb_devices = VP_NDEV;
int parsec_debug_output, parsec_debug_colorize, parsec_debug_rank, parsec_debug_verbose;
const char *parsec_hostname = "h";
void parsec_output_verbose(int level, int id, const char *fmt, ...) { (void)level; (void)id; (void)fmt; }
void parsec_output(int id, const char *fmt, ...) { (void)id; (void)fmt; }
struct ompi_predefined_datatype_t { char opaque[64]; };
struct ompi_predefined_datatype_t ompi_mpi_datatype_null;
void parsec_arena_release(parsec_data_copy_t *c) { (void)c; VASSERTM(0, "harness: parsec_arena_release is not reachable (no ARENA copy in the state)"); }

/* ---- static typed state --------------------------------------------------------------- */
static parsec_device_gpu_module_t G, G2;
static parsec_device_module_t CPU;
static zone_malloc_t Z;
static parsec_data_collection_t DC;
static parsec_data_t M0, M1, O0, O1, O2;
static parsec_data_copy_t H0, H1, OH0, OH1, OH2;   /* CPU copies */
static parsec_data_copy_t X0, X1;                 /* copies of M0/M1 on device 2 */
static parsec_data_copy_t P0, P1, P2;             /* pre-existing copies on G, members of the clean LRU (P0..P(NLRU-1), in this order) */
static parsec_data_copy_t Q0, Q1;                 /* pre-existing copies of M0/M1 on G that are NOT in the LRU */
static parsec_data_copy_t N0, N1, N2;             /* pool served to PARSEC_OBJ_NEW(parsec_data_copy_t) */
static parsec_task_t T;
static parsec_task_class_t TC;
static parsec_gpu_task_t GT;
static parsec_gpu_flow_info_t FI[2];
static parsec_flow_t FL[2];
static char HOSTMEM[8][8];
static char CH[8][8];                             /* device memory chunks */

parsec_device_module_t *parsec_mca_device_get(uint32_t i)
{
    if (i == 0) return &CPU;
    if (i == 1) return &G.super;
    if (i == 2) return &G2.super;
    return NULL;
}
int parsec_mca_device_is_gpu(uint32_t i) { return i == 1 || i == 2; }

/* object bookkeeping: which harness objects have been handed to free() */
#define NOBJ 21
static int freed[NOBJ], n_alloc, alloc_overflow, bad_free, double_free;
static int obj_id(void *p)
{
    if (p == &P0) return 0; if (p == &P1) return 1; if (p == &P2) return 2;
    if (p == &N0) return 3; if (p == &N1) return 4; if (p == &N2) return 5;
    if (p == &O0) return 6; if (p == &O1) return 7; if (p == &O2) return 8;
    if (p == &M0) return 9; if (p == &M1) return 10;
    if (p == &H0) return 11; if (p == &H1) return 12;
    if (p == &OH0) return 13; if (p == &OH1) return 14; if (p == &OH2) return 15;
    if (p == &X0) return 16; if (p == &X1) return 17;
    if (p == &Q0) return 18; if (p == &Q1) return 19;
    return -1;
}
static int is_freed(void *p) { int k = obj_id(p); return k < 0 ? 1 : freed[k]; }
static void *vp_malloc(size_t sz)
{
    if (sz == sizeof(parsec_data_copy_t)) {
        int n = n_alloc++;
        if (n == 0) return &N0; if (n == 1) return &N1; if (n == 2) return &N2;
    }
    alloc_overflow = 1;
    return NULL;
}
static void vp_free(void *p)
{
    int k = obj_id(p);
    if (k < 0) { bad_free = 1; return; }
    if (freed[k]) double_free = 1;
    freed[k] = 1;
}

static void *vp_obj_new_unreachable(void) { VASSERTM(0, "harness: only data copies are created by reserve_space"); return NULL; }
static void *vp_obj_new_parsec_data_copy_t(void)
{
    parsec_data_copy_t *c = (parsec_data_copy_t *)vp_malloc(sizeof(parsec_data_copy_t));
    if (c == NULL) return NULL;
    c->super.super.obj_class = &parsec_data_copy_t_class;
    c->super.super.obj_reference_count = 1;
    c->super.super.obj_release = &parsec_obj_destruct_and_free;
    parsec_list_item_construct(&c->super);
    parsec_data_copy_construct(c);
    return c;
}
static int data_destroyed_with_copies;
static int vp_release_copy(struct parsec_data_copy_s *c)
{
    if (0 != parsec_obj_update(&c->super.super, -1)) return 0;
    parsec_data_copy_destruct(c);
    vp_free(c);
    return 1;
}
static int vp_release_data(struct parsec_data_s *d)
{
    if (0 != parsec_obj_update(&d->super, -1)) return 0;
    if (d->nb_copies != 0) data_destroyed_with_copies = 1;
    vp_free(d);
    return 1;
}
static int vp_release_other(void *o) { (void)o; VASSERTM(0, "harness: only datas and data copies are released by reserve_space"); return 0; }

/* allocator stub + ghost */
static int ch_live[8], n_zfree, n_zmalloc_ok, zfree_bad, zfree_dead;
static int pre_kind[3], pre_inlru[3], pre_rd[3], pre_rc[3];
static int evicted[3], evict_viol_lru, evict_viol_rd, evict_viol_rc, evict_viol_owned;
static parsec_data_copy_t *pcopy(int k) { return k == 0 ? &P0 : k == 1 ? &P1 : &P2; }
static parsec_data_copy_t *ncopy(int k) { return k == 0 ? &N0 : k == 1 ? &N1 : &N2; }
static int chunk_id(void *p)
{
    if (p == (void *)CH[0]) return 0; if (p == (void *)CH[1]) return 1; if (p == (void *)CH[2]) return 2;
    if (p == (void *)CH[3]) return 3; if (p == (void *)CH[4]) return 4; if (p == (void *)CH[5]) return 5;
    if (p == (void *)CH[6]) return 6; if (p == (void *)CH[7]) return 7;
    return -1;
}
void *zone_malloc(zone_malloc_t *g, size_t size)
{
    VASSERTM(g == &Z, "zone_malloc is called on the device's zone");
    (void)size;
    if (IN_BOOL()) return NULL;           /* the allocator may fail at any time (fragmentation) */
    for (int c = 5; c < 8; c++) if (!ch_live[c]) { ch_live[c] = 1; n_zmalloc_ok++; return CH[c]; }
    return NULL;
}
void zone_free(zone_malloc_t *g, void *p)
{
    int c = chunk_id(p);
    (void)g;
    n_zfree++;
    if (c < 0) { zfree_bad = 1; return; }
    if (!ch_live[c]) zfree_dead = 1;
    ch_live[c] = 0;
    if (c == 3 || c == 4) evict_viol_lru = 1;   /* memory of a copy that is not in the LRU (Q0/Q1) */
    if (c < 3) {   /* chunk c belonged to P_c in the pre-state: record the conditions under which it is reclaimed */
        evicted[c] = 1;
        if (!pre_inlru[c]) evict_viol_lru = 1;
        if (pre_rd[c] != 0) evict_viol_rd = 1;
        if (pre_rc[c] != 1) evict_viol_rc = 1;
        if (0 == (pcopy(c)->flags & PARSEC_DATA_FLAG_PARSEC_OWNED)) evict_viol_owned = 1;
    }
}

/* ---- helpers ---------------------------------------------------------------------------- */
static void mk_obj(void *o, parsec_class_t *cls)
{
    parsec_object_t *obj = (parsec_object_t *)o;
    if (0 == cls->cls_initialized) parsec_class_initialize(cls);
    obj->obj_class = cls;
    obj->obj_reference_count = 1;
    obj->obj_release = &parsec_obj_destruct_and_free;
    parsec_obj_run_constructors(obj);
}
static parsec_data_t *odata(int k) { return k == 0 ? &O0 : k == 1 ? &O1 : &O2; }
static parsec_data_copy_t *ohost(int k) { return k == 0 ? &OH0 : k == 1 ? &OH1 : &OH2; }
static parsec_data_t *mdata(int m) { return m == 0 ? &M0 : &M1; }
static parsec_data_copy_t *mhost(int m) { return m == 0 ? &H0 : &H1; }
static parsec_data_copy_t *mx(int m) { return m == 0 ? &X0 : &X1; }
static parsec_data_copy_t *dcopy(parsec_data_t *d, int dev)
{   /* device_copies[] read through an if-chain */
    return dev == 0 ? d->device_copies[0] : dev == 1 ? d->device_copies[1] : d->device_copies[2];
}
static int n_attached(parsec_data_t *d) { int n = 0; for (int i = 0; i < VP_NDEV; i++) if (dcopy(d, i) != NULL) n++; return n; }

/* LRU walk (after the call): members in order, well-formedness */
static parsec_list_item_t *lru_m[8];
static int lru_n, lru_ok;
static void walk_lru(void)
{
    parsec_list_item_t *g = &G.gpu_mem_lru.ghost_element, *it = (parsec_list_item_t *)g->list_next, *prev = g;
    lru_n = 0; lru_ok = 1;
    for (int s = 0; s < 8; s++) {
        if (it == g) break;
        if (it == NULL || it->list_prev != prev) { lru_ok = 0; break; }
        lru_m[lru_n++] = it; prev = it; it = (parsec_list_item_t *)it->list_next;
    }
    if (it != g) lru_ok = 0;
    else if (g->list_prev != prev) lru_ok = 0;
}
static int in_lru(void *c) { for (int s = 0; s < lru_n; s++) if (lru_m[s] == (parsec_list_item_t *)c) return 1; return 0; }

#ifndef NLRU
#define NLRU 2
#endif
#ifndef NFLOWS_MAX
#define NFLOWS_MAX 2
#endif

int main(void)
{
    /* ---- devices ---- */
    CPU.device_index = 0; CPU.type = PARSEC_DEV_CPU; CPU.name = "cpu";
    G.super.device_index = DEV; G.super.type = PARSEC_DEV_CUDA; G.super.name = "g1"; G.memory = &Z;
    G2.super.device_index = 2; G2.super.type = PARSEC_DEV_CUDA; G2.super.name = "g2";
    mk_obj(&G.gpu_mem_lru, &parsec_list_t_class);
    mk_obj(&G.gpu_mem_owned_lru, &parsec_list_t_class);
    uint64_t epoch0 = (uint64_t)IN_RANGE(0, 5);
    G.data_avail_epoch = epoch0;

    /* ---- task shape ---- */
    int nflows = IN_RANGE(1, NFLOWS_MAX);
    int same = IN_BOOL();                       /* flow 1 uses the same data as flow 0 */
    int acc[2], din[2], mi[2];
    mi[0] = 0; mi[1] = same ? 0 : 1;
    for (int i = 0; i < 2; i++) {
        int a = IN_RANGE(0, 3);
        acc[i] = (a & 1 ? RD : 0) | (a & 2 ? WR : 0);
        din[i] = IN_RANGE(0, 3);                /* 0 NULL, 1 CPU copy, 2 copy already on G, 3 copy on device 2 */
    }

    /* ---- task datas M0, M1: CPU copy, optional copy on device 2, held by a data collection ---- */
    int need_x[2] = { din[0] == 3 && mi[0] == 0 || (nflows == 2 && din[1] == 3 && mi[1] == 0),
                      nflows == 2 && din[1] == 3 && mi[1] == 1 };
    for (int m = 0; m < 2; m++) {
        parsec_data_t *d = mdata(m);
        mk_obj(d, &parsec_data_t_class);
        d->dc = &DC; d->span = 8; d->key = 10 + m; d->owner_device = 0;
        parsec_data_copy_t *h = mhost(m);
        mk_obj(h, &parsec_data_copy_t_class);
        h->device_private = HOSTMEM[m]; h->coherency_state = PARSEC_DATA_COHERENCY_OWNED; h->version = 1;
        parsec_data_copy_attach(d, h, 0);
        if (need_x[m]) {
            parsec_data_copy_t *x = mx(m);
            mk_obj(x, &parsec_data_copy_t_class);
            x->device_private = HOSTMEM[4 + m]; x->coherency_state = PARSEC_DATA_COHERENCY_SHARED; x->version = 1;
            x->flags = PARSEC_DATA_FLAG_PARSEC_OWNED | PARSEC_DATA_FLAG_PARSEC_MANAGED;
            parsec_data_copy_attach(d, x, 2);
        }
    }

    /* ---- pre-existing device copies: P0..P(NLRU-1) are the members of the clean LRU, in this order
     *      (attributes symbolic, so every arrangement of attribute tuples is covered) ---- */
    int kind[3] = { 0, 0, 0 }, inlru[3] = { 0, 0, 0 }, n3 = 0, n4 = 0;
    int ohas[3], oextra[3], olocked[3], oself[3];
    for (int k = 0; k < 3; k++) {
        ohas[k] = oextra[k] = olocked[k] = oself[k] = 0; pre_rd[k] = 0; pre_rc[k] = 1;
        if (k >= NLRU) continue;
        kind[k] = IN_RANGE(1, 4);               /* 1 detached, 2 -> O_k, 3 -> M0, 4 -> M1 */
        inlru[k] = 1;
        if (kind[k] == 3) n3++;
        if (kind[k] == 4) n4++;
        pre_kind[k] = kind[k]; pre_inlru[k] = 1;
        pre_rd[k] = IN_RANGE(0, 2); pre_rc[k] = IN_RANGE(1, 2);
        ohas[k] = IN_BOOL(); oextra[k] = IN_BOOL(); olocked[k] = IN_BOOL();
#ifdef SELFCONT
        oself[k] = IN_BOOL();
#endif
        int ts = IN_RANGE(0, 2), coh = IN_RANGE(0, 3), ver = IN_RANGE(0, 3); if (coh == 3) coh = (int)PARSEC_DATA_COHERENCY_SHARED;
        parsec_data_copy_t *p = pcopy(k);
        mk_obj(p, &parsec_data_copy_t_class);
        p->flags = PARSEC_DATA_FLAG_PARSEC_OWNED | PARSEC_DATA_FLAG_PARSEC_MANAGED;
        p->device_private = CH[k]; ch_live[k] = 1; p->arena_chunk = (parsec_arena_chunk_t *)&Z;
        p->device_index = DEV;
        parsec_data_t *o = odata(k);
        mk_obj(o, &parsec_data_t_class);
        o->dc = oself[k] ? NULL : &DC; o->span = 8; o->key = 20 + k; o->owner_device = 0;
        if (kind[k] == 2) {
            /* a protected CPU mirror exists only on a dc-less data with a CPU copy */
            VASSUME(!oself[k] || ohas[k]);
            if (ohas[k]) {
                parsec_data_copy_t *h = ohost(k);
                mk_obj(h, &parsec_data_copy_t_class);
                h->device_private = HOSTMEM[5 + k]; h->coherency_state = PARSEC_DATA_COHERENCY_SHARED; h->version = 1;
                if (oself[k]) h->flags = PARSEC_DATA_FLAG_CPU_MIRROR_PROTECTED;
                parsec_data_copy_attach(o, h, 0);
            }
            parsec_data_copy_attach(o, p, DEV);
            if (!oextra[k]) o->super.obj_reference_count -= 1;   /* nobody but its copies references the data */
            if (olocked[k]) { int got = parsec_atomic_trylock(&o->lock); VASSUME(got); }
        } else if (kind[k] == 3) {
            parsec_data_copy_attach(&M0, p, DEV);
        } else if (kind[k] == 4) {
            parsec_data_copy_attach(&M1, p, DEV);
        }
        p->readers = pre_rd[k];
        p->super.super.obj_reference_count = pre_rc[k];
        p->data_transfer_status = (parsec_data_status_t)ts;
        p->coherency_state = (parsec_data_coherency_t)coh;
        p->version = (uint32_t)ver;
        parsec_list_nolock_push_back(&G.gpu_mem_lru, &p->super);
    }
    VASSUME(n3 <= 1 && n4 <= 1);                /* one copy per data per device */
    /* device copies of the task's datas that are not in the LRU (in use by other tasks / dirty) */
    int qhas[2], q_rd[2], q_rc[2];
    for (int m = 0; m < 2; m++) {
        qhas[m] = IN_BOOL(); q_rd[m] = IN_RANGE(0, 2); q_rc[m] = IN_RANGE(1, 2);
        int ts = IN_RANGE(0, 2), coh = IN_RANGE(0, 3), ver = IN_RANGE(0, 3); if (coh == 3) coh = (int)PARSEC_DATA_COHERENCY_SHARED;
        VASSUME(!qhas[m] || (m == 0 ? n3 : n4) == 0);
        if (!qhas[m]) continue;
        parsec_data_copy_t *q = m == 0 ? &Q0 : &Q1;
        mk_obj(q, &parsec_data_copy_t_class);
        q->flags = PARSEC_DATA_FLAG_PARSEC_OWNED | PARSEC_DATA_FLAG_PARSEC_MANAGED;
        q->device_private = CH[3 + m]; ch_live[3 + m] = 1; q->arena_chunk = (parsec_arena_chunk_t *)&Z;
        parsec_data_copy_attach(mdata(m), q, DEV);
        q->readers = q_rd[m]; q->super.super.obj_reference_count = q_rc[m];
        q->data_transfer_status = (parsec_data_status_t)ts; q->coherency_state = (parsec_data_coherency_t)coh; q->version = (uint32_t)ver;
    }

    /* ---- the task ---- */
    TC.name = "tc"; TC.nb_flows = (uint8_t)nflows;
    T.task_class = &TC;
    GT.task_type = PARSEC_GPU_TASK_TYPE_KERNEL; GT.ec = &T; GT.nb_flows = (uint32_t)nflows; GT.flow_info = FI;
    parsec_data_copy_t *pre_in[2] = { NULL, NULL };
    for (int i = 0; i < 2; i++) {
        FL[i].name = "f"; FL[i].flow_index = (uint8_t)i; FL[i].flow_flags = (uint8_t)acc[i];
        FI[i].flow = &FL[i]; FI[i].flow_span = 8;
        if (i >= nflows) continue;
        parsec_data_t *m = mdata(mi[i]);
        if (din[i] == 1) pre_in[i] = dcopy(m, 0);
        else if (din[i] == 2) { pre_in[i] = dcopy(m, DEV); VASSUME(pre_in[i] != NULL); }
        else if (din[i] == 3) { pre_in[i] = dcopy(m, 2); VASSUME(pre_in[i] != NULL); }
        T.data[i].data_in = pre_in[i];
        T.data[i].data_out = NULL;
    }
    /* snapshot for the oracles */
    int pre_lock_o[3]; parsec_data_t *pre_orig[3]; parsec_data_status_t pre_ts[3];
    for (int k = 0; k < 3; k++) { pre_lock_o[k] = olocked[k]; pre_orig[k] = kind[k] ? pcopy(k)->original : NULL; pre_ts[k] = kind[k] ? pcopy(k)->data_transfer_status : 0; }
    parsec_data_copy_t *pre_dev[2] = { dcopy(&M0, DEV), dcopy(&M1, DEV) };

    /* ================= the operation ================= */
    int rc = parsec_device_data_reserve_space(&G, &GT);
    /* ================================================== */

    walk_lru();
    VASSERTM(!alloc_overflow && !bad_free, "harness: object pool large enough, only harness objects are freed");
    VASSERTM(!double_free, "no object is freed twice");
    VASSERTM(!data_destroyed_with_copies, "a data is only destroyed once no copy is attached to it");
    VASSERTM(rc == PARSEC_HOOK_RETURN_DONE || rc == PARSEC_HOOK_RETURN_AGAIN, "B: reserve_space returns DONE or AGAIN");

    /* A: eviction conditions */
    VASSERTM(!zfree_bad && !zfree_dead, "A0: zone_free only on live device chunks (no double free of device memory)");
    VASSERTM(!evict_viol_lru, "A1: only members of the clean LRU are evicted");
    VASSERTM(!evict_viol_rd, "A2: an evicted copy had no readers");
    VASSERTM(!evict_viol_rc, "A3: an evicted copy had reference count 1");
    VASSERTM(!evict_viol_owned, "A4: an evicted copy is PaRSEC-owned");
    for (int k = 0; k < 3; k++) if (evicted[k]) {
        VASSERTM(freed[k], "A5: the copy object whose device memory was reclaimed is destroyed");
        VASSERTM(pre_orig[k] == NULL || is_freed(pre_orig[k]) || dcopy(pre_orig[k], DEV) != pcopy(k), "A6: an evicted copy is detached from its data");
    }

    /* C / D: bindings of the task */
    int active[2] = { 0, 0 }, under_wr = 0;
    for (int i = 0; i < nflows; i++) {
        active[i] = (acc[i] != 0) && (din[i] != 0);
        parsec_data_copy_t *out = T.data[i].data_out;
        VASSERTM(T.data[i].data_in == pre_in[i], "data_in is never changed by reserve_space");
        if (!active[i]) { VASSERTM(out == NULL, "C0: CTL flows and flows without input get no device copy"); continue; }
        parsec_data_t *m = mdata(mi[i]);
        if (out != NULL) {
            VASSERTM(!is_freed(out), "C1: data_out is a live copy object");
            VASSERTM(out->device_index == DEV, "C2: data_out lives on this device");
            VASSERTM(out->original == m && dcopy(m, DEV) == out, "C3: data_out is the attached device copy of the flow's data");
            VASSERTM(chunk_id(out->device_private) >= 0 && ch_live[chunk_id(out->device_private)], "C4: data_out owns live device memory");
            if (din[i] == 2) VASSERTM(out == pre_in[i], "C5: an input already on the device is used in place");
            if (pre_dev[mi[i]] != NULL && !(pre_dev[mi[i]] == &P0 ? evicted[0] : pre_dev[mi[i]] == &P1 ? evicted[1] : pre_dev[mi[i]] == &P2 ? evicted[2] : 0))
                VASSERTM(out == pre_dev[mi[i]], "C6: an existing device copy that was not evicted is reused");
            if ((acc[i] & WR) && out->data_transfer_status == PARSEC_DATA_STATUS_UNDER_TRANSFER) under_wr = 1;
        }
        if (rc == PARSEC_HOOK_RETURN_DONE) VASSERTM(out != NULL, "C7: after DONE every data flow has a device copy");
    }
    if (rc == PARSEC_HOOK_RETURN_DONE) VASSERTM(!under_wr, "C8: DONE is not reported while a writable flow's copy is still being filled");

    /* D: new copies after the call */
    int n_new_live = 0;
    for (int k = 0; k < 3; k++) if (k < n_alloc && !freed[3 + k]) {
        parsec_data_copy_t *n = ncopy(k);
        n_new_live++;
        VASSERTM(n->original != NULL && !is_freed(n->original) && dcopy(n->original, DEV) == n, "D1: a surviving new copy is attached to its data");
        VASSERTM(chunk_id(n->device_private) >= 0 && ch_live[chunk_id(n->device_private)], "D2: a surviving new copy owns live device memory");
        VASSERTM(n->coherency_state == PARSEC_DATA_COHERENCY_INVALID, "D3: a new copy is INVALID until staged in");
        VASSERTM(n->super.super.obj_reference_count == 1 && n->readers == 0, "D4: a new copy has refcount 1 and no readers");
        int bound = (nflows > 0 && T.data[0].data_out == n) || (nflows > 1 && T.data[1].data_out == n);
        if (rc == PARSEC_HOOK_RETURN_AGAIN) {
            VASSERTM(in_lru(n), "D5: after AGAIN the copies reserved in this pass are back in the LRU");
            VASSERTM(!bound, "D6: after AGAIN the task is not bound to a copy that is back in the LRU");
        } else {
            VASSERTM(!in_lru(n) && bound, "D7: after DONE the new copies are bound to the task and hidden from the LRU");
        }
    }

    /* E: conservation of device memory */
    for (int c = 0; c < 8; c++) {
        int refs = 0;
        if (qhas[0] && !freed[18] && Q0.device_private == (void *)CH[c]) refs++;
        if (qhas[1] && !freed[19] && Q1.device_private == (void *)CH[c]) refs++;
        for (int k = 0; k < 3; k++) {
            if (pre_kind[k] && !freed[k] && pcopy(k)->device_private == (void *)CH[c]) refs++;
            if (k < n_alloc && !freed[3 + k] && ncopy(k)->device_private == (void *)CH[c]) refs++;
        }
        VASSERTM(refs == (ch_live[c] ? 1 : 0), "E: every live device chunk belongs to exactly one live copy, no other chunk is referenced");
    }

    /* F: LRU accounting */
    VASSERTM(lru_ok, "F0: the LRU is a well-formed doubly linked list");
    for (int s = 0; s < lru_n; s++) {
        VASSERTM(!is_freed(lru_m[s]), "F1: LRU members are live copies");
        for (int t = s + 1; t < lru_n; t++) VASSERTM(lru_m[s] != lru_m[t], "F2: no copy is twice in the LRU");
    }
    for (int k = 0; k < 3; k++) if (pre_kind[k] && !freed[k]) {
        parsec_data_copy_t *p = pcopy(k);
        int same_task = 0;
        for (int j = 0; j < nflows; j++) if (pre_in[j] != NULL && pre_in[j]->original == pre_orig[k] && pre_orig[k] != NULL) same_task = 1;
        if (pre_inlru[k])
            VASSERTM(in_lru(p) || pre_rd[k] != 0 || same_task, "F3: an LRU member is only dropped for pending readers or because it belongs to this task");
        else
            VASSERTM(!in_lru(p), "F4: a copy that was not in the LRU is not inserted");
        /* I: untouched survivors */
        VASSERTM(p->readers == pre_rd[k], "I1: readers of surviving copies are unchanged");
        VASSERTM(p->super.super.obj_reference_count == pre_rc[k], "I2: reference counts of surviving copies are unchanged");
        VASSERTM(p->original == pre_orig[k] && p->device_private == (void *)CH[k], "I3: surviving copies keep their data and memory");
    }

    for (int m = 0; m < 2; m++) if (qhas[m]) {
        parsec_data_copy_t *q = m == 0 ? &Q0 : &Q1;
        VASSERTM(!freed[18 + m] && !in_lru(q), "F5: a device copy outside the LRU is neither destroyed nor inserted");
        VASSERTM(q->readers == q_rd[m] && q->super.super.obj_reference_count == q_rc[m] && q->original == mdata(m) &&
                 q->device_private == (void *)CH[3 + m] && dcopy(mdata(m), DEV) == q, "I4: device copies outside the LRU are untouched");
    }

    /* G: data representation invariant; H: locks */
    for (int m = 0; m < 2; m++) {
        parsec_data_t *d = mdata(m);
        VASSERTM(!is_freed(d), "G0: the task's datas survive");
        VASSERTM(d->nb_copies == n_attached(d) && d->super.obj_reference_count >= d->nb_copies + 1, "G1: nb_copies / refcount of the task's datas are consistent");
        VASSERTM(d->lock == PARSEC_ATOMIC_UNLOCKED, "H1: the task's data locks are released");
        for (int i = 0; i < VP_NDEV; i++) if (dcopy(d, i) != NULL)
            VASSERTM(!is_freed(dcopy(d, i)) && dcopy(d, i)->original == d && dcopy(d, i)->device_index == i, "G2: attached copies point back to their data");
    }
    for (int k = 0; k < 3; k++) if (pre_kind[k] == 2 && !freed[6 + k]) {
        parsec_data_t *d = odata(k);
        VASSERTM(d->nb_copies == n_attached(d) && d->super.obj_reference_count >= d->nb_copies, "G3: nb_copies / refcount of the other datas are consistent");
        VASSERTM((d->lock != PARSEC_ATOMIC_UNLOCKED) == (pre_lock_o[k] != 0), "H2: other datas' locks are left as found");
        for (int i = 0; i < VP_NDEV; i++) if (dcopy(d, i) != NULL)
            VASSERTM(!is_freed(dcopy(d, i)) && dcopy(d, i)->original == d, "G4: attached copies point back to their data");
    }
    VASSERTM(G.gpu_mem_lru.atomic_lock == PARSEC_ATOMIC_UNLOCKED, "H3: the LRU lock is released");

    /* J / K: counters */
    VASSERTM(G.data_avail_epoch == epoch0 + (n_zfree > 0 ? 1 : 0), "J: the data-availability epoch advances iff device memory was released");
    VASSERTM(G.super.nb_evictions == (uint64_t)n_zfree, "K: nb_evictions counts the reclaimed chunks");

#ifdef WITNESS
    if (rc == PARSEC_HOOK_RETURN_DONE && nflows == 2 && n_zfree >= 1 && n_new_live == 2) VWITNESS("done_2flows_with_eviction");
    if (rc == PARSEC_HOOK_RETURN_AGAIN && n_zfree >= 1 && n_new_live >= 1) VWITNESS("again_rollback_after_eviction");
    if ((evicted[0] && freed[6]) || (evicted[1] && freed[7]) || (evicted[2] && freed[8])) VWITNESS("eviction_destroys_old_data");
    if (n_zfree >= 2) VWITNESS("two_evictions");
    for (int k = 0; k < 3; k++) if (pre_inlru[k] && pre_rd[k] == 0 && pre_rc[k] == 1 && pre_kind[k] >= 3 && !freed[k] && !in_lru(pcopy(k)) && n_zfree >= 1) VWITNESS("same_task_copy_skipped");
#endif
    return 0;
}
