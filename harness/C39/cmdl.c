/* C39 (command-line parsing): the real parsec_cmd_line_create / _make_opt3 / _parse /
 * _get_ninsts / _get_param / _get_tail / _is_taken of parsec/utils/cmd_line.c (included,
 * with the real argv.c, object system and list code linked) on
 *   declared options:  A = { -a, --al } with NPA parameters (0 or 1, enumerated),
 *                      B = { -b } without parameters;
 *   argv = { "prog", t1 .. tn },  n <= NTOK, every token chosen by the solver from
 *   { -a, -b, --al, --, x, -ab, -ba, -c, --zz };  ignore_unknown enumerated (IGN).
 * The token choices form ONE symbolic index decoded in loops with concrete counters
 * (see split.c for why), all (9^0+..+9^NTOK) argument vectors are covered by the query.
 *
 * Reference parser (harness, written from cmd_line.h: options and their parameters are
 * consumed left to right, short names may be combined "-ab", parsing stops at "--" or
 * at the first unrecognised token, what was not parsed is the tail):
 *   - parse returns PARSEC_SUCCESS iff the reference accepts the line,
 *   - for an accepted line: number of instances of A and of B, is_taken, the parameter
 *     of every instance of A (text, in order), and the tail (count and text),
 *   - for a rejected line only the return code (PARSEC_ERROR) is compared,
 *   - memory safety of everything including the destructor (bounds/pointer checks).
 */
#include "vp_harness.h"
#include "parsec/utils/cmd_line.c"

/* stub: only reached for options bound to an MCA parameter (none declared here) */
int parsec_mca_var_env_name(const char *param_name, char **out) { (void)param_name; *out = NULL; return 0; }

#ifndef VP_NATIVE
/* stub (CBMC has no model): set_dest converts the parameter text although no destination
 * variable is bound to the options declared here; the value is unused */
unsigned long nondet_ulong(void);
unsigned long strtoul(const char *nptr, char **endptr, int base) { (void)nptr; (void)base; if (endptr) *endptr = (char *)nptr; return nondet_ulong(); }
#endif

#ifndef NTOK
#define NTOK 2
#endif
#ifndef NPA
#define NPA 1
#endif
#ifndef IGN
#define IGN 0
#endif
#ifndef NT
#define NT 9            /* how many of the tokens below the solver may choose from */
#endif
#define T_A 0
#define T_B 1
#define T_DD 2
#define T_X 3
#define T_AB 4
#define T_C 5
#define T_AL 6
#define T_BA 7
#define T_ZZ 8
static const char *TOK[9] = { "-a", "-b", "--", "x", "-ab", "-c", "--al", "-ba", "--zz" };

/* reference: expand the tokens into a flat sequence of "events" */
struct ref {
    int ok;                 /* accepted */
    int nA, nB;
    const char *parA[2 * NTOK + 2];
    int ntail; const char *tail[NTOK + 1];
};

/* option event on the expanded sequence: returns 0 on "not enough parameters" */
static void reference(const int *t, int n, struct ref *r)
{
    /* expanded token list (after short-option splitting), as strings */
    const char *e[3 * NTOK + 3]; int ne = 0;
    r->ok = 1; r->nA = r->nB = 0; r->ntail = 0;
    int i = 0;
    while (i < n) {
        int k = t[i];
        if (k == T_DD) { for (int j = i + 1; j < n; j++) r->tail[r->ntail++] = TOK[t[j]]; return; }      /* "--" */
        if (k == T_X) {                                                                              /* plain token */
            if (!IGN) r->ok = 0;
            for (int j = i; j < n; j++) r->tail[r->ntail++] = TOK[t[j]];
            return;
        }
        if (k == T_ZZ) { r->ok = 0; return; }                                                            /* unknown long option */
        if (k == T_C) { r->ok = 0; return; }                                                            /* -c: unknown short option (error even when ignoring unknown tokens) */
        if (k == T_B) { r->nB++; i++; continue; }                                                       /* -b */
        if (k == T_A || k == T_AL) {                                                                       /* -a / --al */
#if NPA == 1
            if (i + 1 >= n) { r->ok = 0; return; }
            r->parA[r->nA++] = TOK[t[i + 1]]; i += 2;
#else
            r->nA++; i++;
#endif
            continue;
        }
        /* combined shorts: -ab = -a [param] -b ; -ba = -b -a [param] */
#if NPA == 1
        if (i + 1 >= n) { r->ok = 0; return; }
        r->parA[r->nA++] = TOK[t[i + 1]]; r->nB++; i += 2;
#else
        r->nA++; r->nB++; i++;
#endif
    }
    (void)e; (void)ne;
}

static void check(const int *t, int n)
{
    parsec_cmd_line_t cmd;
    char *argv[NTOK + 2];
    char store[NTOK + 1][6];
    strcpy(store[0], "prog"); argv[0] = store[0];
    for (int i = 0; i < n; i++) { strcpy(store[i + 1], TOK[t[i]]); argv[i + 1] = store[i + 1]; }
    argv[n + 1] = NULL;

    VASSERTM(PARSEC_SUCCESS == parsec_cmd_line_create(&cmd, NULL), "create");
    VASSERTM(PARSEC_SUCCESS == parsec_cmd_line_make_opt3(&cmd, 'a', NULL, "al", NPA, "option A"), "declare A");
    VASSERTM(PARSEC_SUCCESS == parsec_cmd_line_make_opt3(&cmd, 'b', NULL, NULL, 0, "option B"), "declare B");

    struct ref r; reference(t, n, &r);
    int rc = parsec_cmd_line_parse(&cmd, IGN ? true : false, n + 1, argv);
    VASSERTM((rc == PARSEC_SUCCESS) == (r.ok != 0), "parse accepts exactly the lines of the reference parser");
    VASSERTM(rc == PARSEC_SUCCESS || rc == PARSEC_ERROR, "parse returns SUCCESS or ERROR");
    if (r.ok && rc == PARSEC_SUCCESS) {
        VASSERTM(parsec_cmd_line_get_ninsts(&cmd, "a") == r.nA, "instances of A (by short name)");
        VASSERTM(parsec_cmd_line_get_ninsts(&cmd, "al") == r.nA, "instances of A (by long name)");
        VASSERTM(parsec_cmd_line_get_ninsts(&cmd, "b") == r.nB, "instances of B");
        VASSERTM(parsec_cmd_line_is_taken(&cmd, "b") == (r.nB > 0), "is_taken(B)");
        VASSERTM(parsec_cmd_line_get_ninsts(&cmd, "zz") == 0, "undeclared option never reported");
#if NPA == 1
        for (int k = 0; k < NTOK; k++) if (k < r.nA) {
            char *p = parsec_cmd_line_get_param(&cmd, "a", k, 0);
            VASSERTM(p != NULL && strcmp(p, r.parA[k]) == 0, "parameter of the k-th instance of A");
        }
        VASSERTM(parsec_cmd_line_get_param(&cmd, "a", r.nA, 0) == NULL, "no parameter beyond the last instance");
        VASSERTM(parsec_cmd_line_get_param(&cmd, "a", 0, 1) == NULL, "no parameter beyond the declared number");
#endif
        int tc = -1; char **tv = NULL;
        VASSERTM(PARSEC_SUCCESS == parsec_cmd_line_get_tail(&cmd, &tc, &tv), "get_tail");
        VASSERTM(tc == r.ntail && parsec_argv_count(tv) == r.ntail, "tail length");
        for (int k = 0; k < NTOK; k++) if (k < r.ntail && k < tc) VASSERTM(strcmp(tv[k], r.tail[k]) == 0, "tail token k");
        parsec_argv_free(tv);
    }
    PARSEC_OBJ_DESTRUCT(&cmd);
    /* vacuity witnesses: which ones are reachable depends on the enumerated first token */
#ifdef FIX0
#define FIRST_OPT (FIX0 == T_A || FIX0 == T_B || FIX0 == T_AB || FIX0 == T_AL || FIX0 == T_BA)
#define FIRST_TAKES_PARAM (NPA == 1 && FIX0 != T_B && FIRST_OPT)
#if FIRST_OPT
    if (r.ok && n == NTOK && r.nA + r.nB >= 1) VWITNESS("accepted full-length line with a declared option");
#endif
#if !(FIX0 == T_DD || (FIX0 == T_X && IGN) || FIRST_TAKES_PARAM)
    if (!r.ok && n == NTOK) VWITNESS("rejected full-length line");
#endif
#if FIX0 == T_DD || (FIX0 == T_X && IGN)
    if (r.ok && n == NTOK && r.ntail >= 1) VWITNESS("accepted line with a tail");
#endif
#else
    if (r.ok && n == NTOK && r.nA >= 1 && r.nB >= 1) VWITNESS("accepted full-length line with A and B");
    if (r.ok && r.ntail >= 1) VWITNESS("accepted line with a tail");
    if (!r.ok && n == NTOK) VWITNESS("rejected full-length line");
#endif
}

int main(void)
{
    /* warm-up with concrete data: the lazily initialised class tables of the object system
     * (global state) are built here once, so that no instance below modifies global state
     * under a symbolic guard */
    {
        parsec_cmd_line_t w; char p0[] = "prog", p1[] = "-b"; char *wargv[3] = { p0, p1, NULL };
        parsec_cmd_line_create(&w, NULL);
        parsec_cmd_line_make_opt3(&w, 'b', NULL, NULL, 0, "warm-up");
        parsec_cmd_line_parse(&w, false, 2, wargv);
        VASSERTM(parsec_cmd_line_is_taken(&w, "b"), "warm-up: -b taken");
        PARSEC_OBJ_DESTRUCT(&w);
    }
    int n = IN_RANGE(0, NTOK);
#ifdef FIX0            /* first token enumerated by spec.py (splits the query into NT smaller ones) */
    int c0 = FIX0;
#else
    int c0 = IN_RANGE(0, NT - 1);
#endif
    int c1 = IN_RANGE(0, NT - 1), c2 = IN_RANGE(0, NT - 1);
    for (int m = 0; m <= NTOK; m++) if (m == n) {
        for (int a = 0; a < NT; a++) if ((m < 1 && a == 0) || (m >= 1 && a == c0)) {
#ifdef FIX0
            if (m >= 1 && a != FIX0) continue;
#endif
            for (int b = 0; b < NT; b++) if ((m < 2 && b == 0) || (m >= 2 && b == c1)) {
#if NTOK >= 3
                for (int c = 0; c < NT; c++) if ((m < 3 && c == 0) || (m >= 3 && c == c2)) {
                    int t[3] = { a, b, c }; check(t, m);
                }
#else
                int t[3] = { a, b, 0 }; check(t, m);
#endif
            }
        }
    }
    (void)c2;
    return 0;
}
