/* C39 (split / join): the real parsec_argv_split(_with_empty) / parsec_argv_join /
 * parsec_argv_count / parsec_argv_free of parsec/utils/argv.c (linked) on a symbolic
 * string s of length n <= L over the alphabet {a, b, DELIM}.
 *
 * Encoding: the solver chooses the string through ONE symbolic index `chosen' in
 * 0..NSTR-1 (NSTR = 3^0+...+3^L); the harness decodes the index inside a loop whose
 * counter is concrete, `if (idx == chosen) check(idx)`, so that CBMC's symbolic
 * execution sees concrete delimiter positions in every instance (with a directly
 * symbolic character array every allocation size in argv.c becomes symbolic and the
 * array theory of CBMC does not terminate: measured > 280 s already for L = 2).
 * All NSTR strings are covered by the one query; the verdict is the SAT solver's.
 *
 * Reference (computed by the harness with its own scanner):
 *   EMPTY=1 (split_with_empty, "Include empty strings in result array"): the fields are
 *     the substrings between consecutive delimiters: #delimiters + 1 fields for n > 0
 *     (none for the empty string); join(split(s)) == s (strict round trip).
 *   EMPTY=0 (split, "Do not include empty strings"): the fields are the maximal
 *     delimiter-free runs; join(split(s)) == s with leading/trailing delimiters removed
 *     and inner runs of delimiters collapsed; split(join(v)) reproduces v.
 * Obligations: count, every field's text, NULL result iff no field, join text, memory
 * safety (bounds/pointer checks) of all of it including parsec_argv_free.
 *
 * Known finding C39-split-trailing-empty: EMPTY=1 and s ends with the delimiter (the
 * empty field after the last delimiter is dropped).  KF_EXCLUDE assumes such s away,
 * KF_ONLY restricts to them.
 */
#include "vp_harness.h"
#include "parsec/parsec_config.h"
#include "parsec/utils/argv.h"
#include <string.h>
#include <stdlib.h>

#ifndef L
#define L 4
#endif
#ifndef EMPTY
#define EMPTY 0
#endif
#define DELIM ','

static char s[L + 1];
static int fstart[L + 2], flen[L + 2];

static int same(const char *a, const char *b, int len)   /* a is NUL-terminated and equals b[0..len) */
{
    for (int i = 0; i < L + 1; i++) {
        if (i == len) return a[i] == '\0';
        if (a[i] != b[i]) return 0;
    }
    return 0;
}

static int pow3(int k) { int r = 1; for (int i = 0; i < L; i++) if (i < k) r *= 3; return r; }

static void check(int idx)
{
    /* decode idx -> (n, digits) : strings ordered by length */
    int n = 0, rem = idx;
    for (int k = 0; k < L; k++) if (n == k && rem >= pow3(k)) { rem -= pow3(k); n = k + 1; }
    int ndel = 0;
    for (int i = 0; i < L; i++) {
        int c = rem % 3;
        if (i < n) rem /= 3;
        s[i] = i < n ? (c == 0 ? 'a' : (c == 1 ? 'b' : DELIM)) : '\0';
        if (i < n && c == 2) ndel++;
    }
    s[L] = '\0';
#if EMPTY && defined(KF_EXCLUDE_C39_SPLIT_TRAILING_EMPTY)
    if (n > 0 && s[n - 1] == DELIM) return;          /* recorded failing class: excluded (see main) */
#endif
#if EMPTY && defined(KF_ONLY_C39_SPLIT_TRAILING_EMPTY)
    if (!(n > 0 && s[n - 1] == DELIM)) return;
#endif
    /* reference fields */
    int nf = 0;
#if EMPTY
    if (n > 0) {
        int st = 0;
        for (int i = 0; i <= L; i++) if (i <= n) {
            if (i == n || s[i] == DELIM) { fstart[nf] = st; flen[nf] = i - st; nf++; st = i + 1; }
        }
    }
#else
    {
        int st = -1;
        for (int i = 0; i <= L; i++) if (i <= n) {
            if (i == n || s[i] == DELIM) { if (st >= 0) { fstart[nf] = st; flen[nf] = i - st; nf++; st = -1; } }
            else if (st < 0) st = i;
        }
    }
#endif
    /* reference join */
    char ref[L + 2]; int rl = 0;
    for (int k = 0; k < L + 1; k++) if (k < nf) {
        if (k > 0) ref[rl++] = DELIM;
        for (int i = 0; i < L; i++) if (i < flen[k]) ref[rl++] = s[fstart[k] + i];
    }
    ref[rl] = '\0';

#if EMPTY
    char **v = parsec_argv_split_with_empty(s, DELIM);
#else
    char **v = parsec_argv_split(s, DELIM);
#endif
    int cnt = parsec_argv_count(v);
    VASSERTM(cnt == nf, "number of pieces = number of fields of the reference scanner");
    VASSERTM((v == NULL) == (nf == 0), "NULL result iff there is no field");
    for (int k = 0; k < L + 1; k++) if (k < nf && k < cnt)
        VASSERTM(same(v[k], s + fstart[k], flen[k]), "piece k is field k of the input");
    char *j = parsec_argv_join(v, DELIM);
    VASSERTM(j != NULL && same(j, ref, rl), "join(split(s)) = the fields separated by single delimiters");
#if EMPTY
    VASSERTM(same(j, s, n), "strict round trip: join(split_with_empty(s)) == s");
#else
    char **w = parsec_argv_split(j, DELIM);
    VASSERTM(parsec_argv_count(w) == cnt, "split(join(v)) has as many pieces as v");
    for (int k = 0; k < L + 1; k++) if (k < cnt) VASSERTM(strcmp(w[k], v[k]) == 0, "split(join(v)) reproduces v");
    parsec_argv_free(w);
#endif
    free(j);
    parsec_argv_free(v);
#if EMPTY
    if (nf >= 3 && ndel >= 2 && n == L) VWITNESS("three or more fields");
    if (nf >= 2 && flen[0] == 0 && n >= 3) VWITNESS("leading empty field kept");
#else
    if (ndel >= 2 && nf == 1) VWITNESS("empty fields dropped");
    if (ndel >= 2 && nf == 2 && n == L) VWITNESS("two fields around dropped empty ones");
#endif
}

int main(void)
{
    int nstr = 0;
    for (int k = 0; k <= L; k++) nstr += pow3(k);
    int chosen = IN_RANGE(0, nstr - 1);
    for (int idx = 0; idx < nstr; idx++)
        if (idx == chosen) check(idx);
    return 0;
}
