/* C39 (insert / delete): the real parsec_argv_delete / parsec_argv_insert /
 * parsec_argv_insert_element of parsec/utils/argv.c on a vector of K distinct strings
 * (K enumerated by spec.py, built with the real parsec_argv_append), with symbolic
 * position `start' in -1..K+1 and symbolic `num_to_delete' in -1..K+2 (delete) or a
 * source vector of M in 0..2 strings / NULL (insert).  As in split.c the symbolic
 * pair is decoded inside loops with concrete counters (`if (a == start && b == num)`),
 * so that realloc sizes stay concrete inside each instance.
 *
 * Obligations (argv.h): documented return codes and no-op cases; the result holds
 * exactly the surviving / inserted strings, in order, NULL-terminated (count); inserted
 * strings are copies; *argc after delete = *argc before - number of strings removed;
 * all accesses in bounds (memory checks).
 *
 * Known finding C39-delete-argc: parsec_argv_delete with 0 <= start <= count and
 * start + num_to_delete > count subtracts num_to_delete from *argc although fewer
 * strings were removed.  KF_EXCLUDE drops that obligation for that class only (the
 * array content is still checked); KF_ONLY keeps only that class.
 */
#include "vp_harness.h"
#include "parsec/parsec_config.h"
#include "parsec/utils/argv.h"
#include "parsec/constants.h"
#include <string.h>
#include <stdlib.h>

#ifndef K
#define K 3
#endif
#ifndef OPV
#define OPV 0      /* 0 delete, 1 insert, 2 insert_element */
#endif
static const char *tn[4] = { "s0", "s1", "s2", "s3" };
static const char *sn[2] = { "t0", "t1" };

static char **build(int *argc)
{
    char **v = NULL; *argc = 0;
    for (int i = 0; i < K; i++) VASSERTM(PARSEC_SUCCESS == parsec_argv_append(argc, &v, tn[i]), "append succeeds");
    VASSERTM(*argc == K && parsec_argv_count(v) == K, "append keeps argc = count");
    return v;
}

#if OPV == 0
static void check(int start, int num)
{
    int argc; char **v = build(&argc);
    int in_class = (K > 0 && num != 0 && start >= 0 && num >= 0 && start <= K && start + num > K);
#if defined(KF_ONLY_C39_DELETE_ARGC)
    if (!in_class) return;
#endif
    int rc = parsec_argv_delete(&argc, &v, start, num);
    int removed = 0, bad = 0;
    if (K == 0 || num == 0 || start > K) { /* documented no-op */ }
    else if (start < 0 || num < 0) bad = 1;
    else { removed = K - start; if (removed > num) removed = num; }
    VASSERTM(rc == (bad ? PARSEC_ERR_BAD_PARAM : PARSEC_SUCCESS), "delete: documented return code");
    VASSERTM(parsec_argv_count(v) == K - removed, "delete: NULL-terminated result has count - removed entries");
    for (int i = 0; i < K; i++) if (i < K - removed) {
        int src = (!bad && removed > 0 && i >= start) ? i + removed : i;
        VASSERTM(strcmp(v[i], tn[src]) == 0, "delete: exactly the addressed strings are gone, order kept");
    }
#if defined(KF_EXCLUDE_C39_DELETE_ARGC)
    if (!in_class)
#endif
    VASSERTM(argc == K - removed, "delete: *argc reduced by the number of strings removed");
    parsec_argv_free(v);
#if K >= 3
    if (removed >= 1 && start >= 1 && start + removed < K) VWITNESS("delete in the middle");
#endif
#if K >= 1 && !defined(KF_EXCLUDE_C39_DELETE_ARGC)
    if (in_class && removed >= 1) VWITNESS("delete running beyond the end");
#endif
#if K >= 1
    if (bad) VWITNESS("delete with a negative argument refused");
    if (removed == 1 && start == 0) VWITNESS("delete the first string");
#else
    if (start == 0 && num == 1 && rc == PARSEC_SUCCESS) VWITNESS("delete on a NULL vector is a no-op");
#endif
}
#else
static void check(int start, int m)      /* m: -1 = NULL source, else number of source strings */
{
    int argc; char **v = build(&argc);
    char *srcv[3] = { NULL, NULL, NULL };
    char b0[3] = "t0", b1[3] = "t1";
    if (m >= 1) srcv[0] = b0;
    if (m >= 2) srcv[1] = b1;
#if OPV == 1
    int rc = parsec_argv_insert(&v, start, m < 0 ? NULL : srcv);
    int ins = m < 0 ? 0 : m;
#else
    int rc = parsec_argv_insert_element(&v, start, m < 1 ? NULL : b0);
    int ins = m < 1 ? 0 : 1;
#endif
    int bad = (v == NULL || start < 0);          /* K == 0: the target is NULL => BAD_PARAM */
    if (bad) ins = 0;
    int at = start > K ? K : start;
    VASSERTM(rc == (bad ? PARSEC_ERR_BAD_PARAM : PARSEC_SUCCESS), "insert: documented return code");
    VASSERTM(parsec_argv_count(v) == K + ins, "insert: result has count + inserted entries");
    for (int i = 0; i < K + 2; i++) if (i < K + ins) {
        if (ins > 0 && i >= at && i < at + ins) {
            VASSERTM(strcmp(v[i], sn[i - at]) == 0, "insert: source strings placed at start.., in order");
            VASSERTM(v[i] != srcv[i - at], "insert: strings are copied, the source is left alone");
        } else {
            int src = (ins > 0 && i >= at + ins) ? i - ins : i;
            VASSERTM(strcmp(v[i], tn[src]) == 0, "insert: target strings keep their order around the inserted block");
        }
    }
    VASSERTM(b0[0] == 't' && b0[1] == '0' && b1[1] == '1', "insert: source unchanged");
    parsec_argv_free(v);
#if K >= 2
    if (ins >= 1 && at >= 1 && at < K) VWITNESS("insert in the middle");
#endif
#if K >= 1
    if (ins >= 1 && start > K) VWITNESS("insert beyond the end appends");
    if (ins >= 1 && at == 0) VWITNESS("insert in front");
#else
    if (bad && start == 0 && m >= 1) VWITNESS("insert into a NULL vector refused");
#endif
}
#endif

int main(void)
{
    int a = IN_RANGE(-1, K + 1);
    int b = IN_RANGE(-1, K + 2);
#if OPV != 0
    VASSUME(b <= 2);
#endif
    for (int x = -1; x <= K + 1; x++)
        for (int y = -1; y <= K + 2; y++)
            if (x == a && y == b
#if OPV != 0
                && y <= 2
#endif
               ) check(x, y);
    return 0;
}
