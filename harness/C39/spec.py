import os
from vp.api import Q, Mutant
TITLE = "Argument-vector utilities are consistent"
UA = "parsec/utils/argv.c"
UC = "parsec/utils/cmd_line.c"
ARGSIZE_PATCH = [(UA, r"#define ARGSIZE 128", "#define ARGSIZE 3")]
OUTSIDE = ["strings longer than 4 (thorough 5) characters / alphabets other than {a, b, delimiter} for split/join", "the literal buffer size ARGSIZE=128 of parsec_argv_split_inter: both of its paths (stack buffer, malloc'ed copy) are covered with the constant lowered to 3; a query on the unpatched file with one concrete 129-character token gave no verdict in 1800 s (every write to the 128-byte buffer adds ~1k SAT variables)",
           "vectors longer than 3 (thorough 4) strings for insert/delete",
           "command lines with more than 2 tokens after argv[0], options with more than one parameter, single-dash multi-character names, options bound to MCA parameters or destination variables, the help/usage text",
           "for a rejected command line only the return code is compared (what ends up in the tail after an error is not specified)",
           "allocation failure; concurrent use of one handle",
           "parsec_argv_join_range, parsec_argv_len, parsec_argv_prepend_nosize, parsec_argv_append_unique_nosize"]
ASSUMPTIONS = ["split.c / cmdl.c / vec.c choose the input through symbolic indices decoded in loops with concrete counters, so that each instance is folded by symbolic execution; all inputs inside the bounds are covered by the one SAT query (measured: a directly symbolic character array makes every allocation size symbolic and CBMC's array theory does not terminate, > 280 s for strings of length 2)",
               "split queries compile argv.c with ARGSIZE lowered 128 -> 3 in a scratch overlay (regex patch, re-applied on every run): the constant only selects stack buffer vs. malloc'ed copy, with 3 both paths (fields of <= 2 / >= 3 characters followed by a delimiter) are inside the string bound; with 128 every write to the 128-byte buffer costs 1k SAT variables (4 M variables at length 2).",
               "reference scanners / reference command-line parser are harness code written from argv.h / cmd_line.h (validated natively against the real code on every input of the quick tier during development)",
               "parsec_mca_var_env_name stub (never reached: no option bound to an MCA parameter); strtoul stub in CBMC mode (value unused)",
               "known findings C39-split-trailing-empty and C39-delete-argc excluded by class until repaired (FINDING.md)"]
BOUNDS = {"quick": {"split/join": "all strings of length <= 4 over {a,b,','}", "insert/delete": "K in {0,1,3}, start in -1..K+1, num in -1..K+2 / source of 0..2 strings or NULL",
                    "cmd_line": "<= 2 tokens from 9, A with 1 parameter, unknown tokens not ignored"},
          "thorough": {"split/join": "length <= 5", "insert/delete": "K in 0..4", "cmd_line": "A with 0/1 parameter x ignore_unknown 0/1"}}
NOKF = bool(os.environ.get("VP_NOKF"))
KF_SPLIT = None if NOKF else "C39-split-trailing-empty"
KF_DEL = None if NOKF else "C39-delete-argc"
LINKC = ["repo:" + UA, "repo:parsec/class/parsec_object.c", "repo:parsec/class/parsec_list.c"]

def nstr(l):
    return sum(3 ** k for k in range(l + 1))

def queries(ctx):
    qs = []
    for l in ([4, 5] if ctx.thorough else [4]):
        tiers = ("quick", "thorough") if l == 4 else ("thorough",)
        for e in (0, 1):
            qs.append(Q("split_l%d_%s" % (l, "empty" if e else "noempty"), ["split.c", "repo:" + UA], defs=["L=%d" % l, "EMPTY=%d" % e],
                        unwind=nstr(l) + 2, checks=["bounds", "pointer"], object_bits=14, patches=ARGSIZE_PATCH, kf=(KF_SPLIT if e else None),
                        tiers=tiers, timeout=1800, slow=(l >= 5),
                        info={"symbolic": ["the string (index over all %d strings of length <= %d over {a,b,','})" % (nstr(l), l)],
                              "enumerated": ["with / without empty fields"],
                              "functions": ["parsec_argv_split", "parsec_argv_split_with_empty", "parsec_argv_split_inter", "parsec_argv_append", "parsec_argv_append_nosize", "parsec_argv_join", "parsec_argv_count", "parsec_argv_free"],
                              "stubs": ["none"], "patched": ["ARGSIZE 128 -> 3 (overlay)"], "bounds": {"L": l}}))
    for k in ([0, 1, 2, 3, 4] if ctx.thorough else [0, 1, 3]):
        tiers = ("quick", "thorough") if k in (0, 1, 3) else ("thorough",)
        for op, opn in ((0, "delete"), (1, "insert"), (2, "insert_element")):
            qs.append(Q("vec_k%d_%s" % (k, opn), ["vec.c", "repo:" + UA], defs=["K=%d" % k, "OPV=%d" % op], unwind=max(k + 5, 9),
                        checks=["bounds", "pointer"], object_bits=14, kf=(KF_DEL if (op == 0 and k >= 1) else None), tiers=tiers, timeout=900,
                        info={"symbolic": ["start in -1..K+1", "num_to_delete in -1..K+2" if op == 0 else "source vector: NULL or 0..2 strings"],
                              "enumerated": ["vector length K", "operation"],
                              "functions": ["parsec_argv_" + opn, "parsec_argv_append", "parsec_argv_count", "parsec_argv_free"], "stubs": ["none"], "bounds": {"K": k}}))
    cfgs = [(1, 0)] + ([(0, 1), (1, 1), (0, 0)] if ctx.thorough else [])
    for (npa, ign) in cfgs:
        tiers = ("quick", "thorough") if (npa, ign) == (1, 0) else ("thorough",)
        for f in range(9):
            qs.append(Q("cmdl_p%d_i%d_t%d" % (npa, ign, f), ["cmdl.c"] + LINKC, defs=["NTOK=2", "NT=9", "NPA=%d" % npa, "IGN=%d" % ign, "FIX0=%d" % f],
                        unwind=12, checks=["bounds", "pointer"], object_bits=12, units=[UC], tiers=tiers, timeout=1200,
                        info={"symbolic": ["number of tokens 0..2", "second token among 9"], "enumerated": ["first token (FIX0)", "parameters of option A", "ignore_unknown"],
                              "functions": ["parsec_cmd_line_create", "parsec_cmd_line_make_opt3", "make_opt", "parsec_cmd_line_parse", "split_shorts", "find_option", "set_dest",
                                            "parsec_cmd_line_get_ninsts", "parsec_cmd_line_get_param", "parsec_cmd_line_is_taken", "parsec_cmd_line_get_tail", "free_parse_results", "cmd_line_destructor"],
                              "stubs": ["parsec_mca_var_env_name (unreached)", "strtoul (CBMC mode, value unused)", "fprintf (no body: diagnostics)"],
                              "bounds": {"tokens": 2, "alphabet": "-a -b -- x -ab -c --al -ba --zz"}}))
    return qs

def mutants(ctx):
    return [
        Mutant("split_empty_flag_inverted", UA, "    if (src_string == p) {\n      if (include_empty) {", "    if (src_string == p) {\n      if (!include_empty) {", queries=["split_l4_noempty"]),
        Mutant("split_short_copy_one_less", UA, "      strncpy(arg, src_string, arglen);\n      arg[arglen] = '\\0';", "      strncpy(arg, src_string, arglen - 1);\n      arg[arglen - 1] = '\\0';", queries=["split_l4_noempty"]),
        Mutant("delete_suffix_shift_wrong", UA, "(*argv)[i] = (*argv)[i + num_to_delete];", "(*argv)[i] = (*argv)[i + 1];", queries=["vec_k3_delete"]),
        Mutant("insert_suffix_move_off_by_one", UA, "for (i = suffix_count - 1; i >= 0; --i) {\n            (*target)[start + source_count + i] =", "for (i = suffix_count - 1; i > 0; --i) {\n            (*target)[start + source_count + i] =", queries=["vec_k3_insert"]),
        Mutant("parse_param_count_off_by_one", UC, "for (j = 0; j < option->clo_num_params; ++j, ++i) {", "for (j = 0; j <= option->clo_num_params; ++j, ++i) {", queries=["cmdl_p1_i0_t0", "cmdl_p1_i0_t1"]),
        Mutant("parse_double_dash_kept_in_tail", UC, "if (0 == strcmp(cmd->lcl_argv[i], \"--\")) {\n            ++i;", "if (0 == strcmp(cmd->lcl_argv[i], \"--\")) {", queries=["cmdl_p1_i0_t2"]),
        Mutant("find_option_short_name_any_length", UC, "(strlen(option_name) == 1 &&\n             option_name[0] == option->clo_short_name)", "(option_name[0] == option->clo_short_name)", queries=["cmdl_p1_i0_t4", "cmdl_p1_i0_t7"]),
    ]

CLAIMED = True
MANIFEST = {
 "engine": "cbmc-src",
 "text": "Bounded model checking of the real parsec/utils/argv.c and cmd_line.c: (a) split / split_with_empty / join / count / free on every string of length <= 4 (thorough 5) over "
         "{a, b, delimiter} against a reference scanner: pieces, NULL iff no field, join(split(s)) and split(join(v)) round trips; (b) delete / insert / insert_element on vectors of 0..3 "
         "(thorough 4) strings with symbolic position and count / source vector: documented return codes and no-op cases, exactly the addressed positions change, copies, argc; "
         "(c) parsec_cmd_line_parse with two declared options (one with a parameter, short/long names, combined short options) on every argument vector of <= 2 tokens from a 9-token "
         "alphabet against a reference parser: acceptance, instances, parameters, tail, destructor. Memory-safety checks on everywhere. Two API-contract defects of argv.c were found "
         "(split_with_empty drops the empty field after a trailing delimiter; delete over-decrements *argc) and are recorded as known findings with fix patches.",
 "note": "inputs are chosen through symbolic indices decoded with concrete loop counters (CBMC diverges on directly symbolic strings); ARGSIZE lowered to 3 in an overlay for the split queries; "
         "reference scanner/parser are harness code; rejected command lines are compared on the return code only; long strings, help text, MCA-bound options outside.",
 "technique": "CBMC bounded symbolic execution of the real C units + SAT (cadical), native ASan replay",
}
