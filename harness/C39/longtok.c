/* C39 (ARGSIZE path of the UNPATCHED argv.c): a concrete 129-character token (longer than
 * the 128-byte stack buffer of parsec_argv_split_inter) between two short fields takes the
 * malloc'ed-copy path; pieces, join round trip and memory safety are checked.  The
 * split flavour (with / without empty fields) is chosen by the solver. */
#include "vp_harness.h"
#include "parsec/parsec_config.h"
#include "parsec/utils/argv.h"
#include <string.h>
#include <stdlib.h>
#define LONG 129
static void check(int d, int with_empty)
{
    char s[LONG + 8];
    char delim = d == 0 ? ',' : (d == 1 ? ':' : ' ');
    int k = 0;
    s[k++] = 'x'; s[k++] = delim;
    for (int i = 0; i < LONG; i++) s[k++] = 'a' + (i % 3);
    s[k++] = delim; s[k++] = 'y'; s[k++] = 'z'; s[k] = '\0';
    char **v = with_empty ? parsec_argv_split_with_empty(s, delim) : parsec_argv_split(s, delim);
    VASSERTM(parsec_argv_count(v) == 3, "three pieces");
    VASSERTM(strcmp(v[0], "x") == 0 && strcmp(v[2], "yz") == 0, "short pieces");
    VASSERTM(strlen(v[1]) == LONG, "long piece has all its characters");
    for (int i = 0; i < LONG; i++) VASSERTM(v[1][i] == 'a' + (i % 3), "long piece copied exactly");
    char *j = parsec_argv_join(v, delim);
    VASSERTM(j != NULL && strcmp(j, s) == 0, "join(split(s)) == s");
    free(j); parsec_argv_free(v);
    if (with_empty && d == 2) VWITNESS("long token, with_empty");
    if (!with_empty && d == 2) VWITNESS("long token, plain split");
}

int main(void)
{
    int d = 2;
    int with_empty = IN_BOOL();
    /* decoded with concrete loop counters (see split.c) */
    for (int b = 0; b < 2; b++) if (b == with_empty) check(d, b);
    return 0;
}
