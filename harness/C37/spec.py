from vp.api import Q, Mutant
TITLE = "Taskpool identifiers resolve to the registered taskpool"
U = "parsec/parsec.c"
OUTSIDE = ["concurrent reservations: CBMC's thread encoding refuses the unit ('pointer handling for concurrency is unsound': taskpool_array is a shared "
           "pointer re-assigned under the lock) and the IR sequentializer (Engine S) is not part of vp/ yet; only 'the registry lock is released after every operation' is checked",
           "id 0 (never handed out; slot 0 of the array is left uninitialised by the code, lookup(0) on a fresh registry dereferences NULL)",
           "arrays larger than 32 slots (pre-states up to 8 slots quick / 16 thorough)",
           "taskpool ids written by hand instead of obtained from parsec_taskpool_reserve_id (register then only doubles once)",
           "several OS processes: 'all processes assign the same id' is reduced to: after sync every rank's position = MAX over the ranks (the stub), next id = that + 1"]
ASSUMPTIONS = ["caller contract (runtime.h): register only a taskpool holding an id from reserve_id and not currently registered; unregister only a registered taskpool",
               "MPI_Allreduce stub = MAX of the local value and one enumerated remote maximum R; MPI_Initialized stub = symbolic flag",
               "representation invariant Inv (ind.c header) is ours; it holds in the initial state (S=1 queries build exactly that state) and is re-proved after every operation (closure)"]
BOUNDS = {"quick": {"array size S": "1 (unallocated), 2, 4, 8", "remote max R": "enumerated per S: below / at / beyond the current size, up to 17", "taskpools": 3},
          "thorough": {"array size S": "1, 2, 4, 8, 16", "remote max R": "up to 40", "taskpools": 3}}
OPN = {1: "reserve", 2: "register", 3: "unregister", 4: "sync", 5: "lookup"}
SYNC_R = {1: [0, 1, 5], 2: [1, 2, 3], 4: [0, 2, 4, 7, 8, 17], 8: [3, 8, 15, 16], 16: [9, 16, 31, 40]}

def p2above(r):
    m = 1
    while m <= r:
        m <<= 1
    return m

def queries(ctx):
    info = {"symbolic": ["pos", "state (fresh/reserved/registered/unregistered) and id of each of 3 taskpools", "content of slot 0", "taskpool operated on", "MPI up or not", "looked-up id"],
            "enumerated": ["array size S", "operation kind", "remote maximum R of the sync"],
            "functions": ["parsec_taskpool_reserve_id", "parsec_taskpool_register", "parsec_taskpool_unregister", "parsec_taskpool_lookup", "parsec_taskpool_sync_ids_context"],
            "stubs": ["MPI_Initialized (symbolic flag)", "MPI_Allreduce = MAX(local, R)"]}
    qs = []
    sizes = [1, 2, 4, 8] + ([16] if ctx.thorough else [])
    for s in sizes:
        tiers = ("thorough",) if s == 16 else ("quick", "thorough")
        cfgs = []
        for op in (1, 2, 3, 5):
            if s == 1 and op in (2, 3):
                continue        # no taskpool can hold an id while pos == 0
            cfgs.append((op, 0))
        cfgs += [(4, r) for r in SYNC_R[s]]
        for (op, r) in cfgs:
            post = max(2 * s, p2above(r))
            name = "ind_s%d_%s" % (s, OPN[op]) + ("_r%d" % r if op == 4 else "")
            qtiers = ("thorough",) if (op == 4 and (s, r) in ((8, 15), (8, 16), (4, 17))) else tiers
            if ctx.tier not in qtiers:
                continue
            qs.append(Q(name, ["ind.c"], defs=["S=%d" % s, "OP=%d" % op, "R=%d" % r, "SMAXPOST=%d" % post], units=[U],
                        unwind=max(post + 1, 5), unwindset=["parsec_taskpool_sync_ids_context.0:8"],
                        checks=["bounds", "pointer"], object_bits=12, timeout=900, tiers=qtiers,
                        info=dict(info, bounds={"S": s, "op": OPN[op], "R": r, "slots walked after the operation": post})))
    return qs

def mutants(ctx):
    return [
        Mutant("reserve_grow_off_by_one", U, "idx = (uint32_t)++taskpool_array_pos;\n\n    if( (NULL == taskpool_array) || (idx >= taskpool_array_size) ) {",
               "idx = (uint32_t)++taskpool_array_pos;\n\n    if( (NULL == taskpool_array) || (idx > taskpool_array_size) ) {", queries=["ind_s4_reserve"]),
        Mutant("reserve_fill_skips_first_new_slot", U, "for( uint32_t i = (taskpool_array_size>>1); i < taskpool_array_size;\n             taskpool_array[i++] = NOTASKPOOL );\n    }\n    tp->taskpool_id = idx;",
               "for( uint32_t i = (taskpool_array_size>>1)+1; i < taskpool_array_size;\n             taskpool_array[i++] = NOTASKPOOL );\n    }\n    tp->taskpool_id = idx;", queries=["ind_s4_reserve"]),
        Mutant("lookup_excludes_last_id", U, "if( taskpool_id <= taskpool_array_pos ) {", "if( taskpool_id < taskpool_array_pos ) {", queries=["ind_s4_register", "ind_s4_lookup"]),
        Mutant("sync_size_off_by_one", U, "while (idx >= msz){", "while (idx > msz){", queries=["ind_s4_sync_r4"]),
        Mutant("sync_fill_skips_first_new_slot", U, "for( uint32_t i = taskpool_array_size; i < msz;", "for( uint32_t i = taskpool_array_size + 1; i < msz;", queries=["ind_s4_sync_r4"]),
        Mutant("sync_keeps_local_pos", U, "taskpool_array_size = msz;\n    taskpool_array_pos = idx;", "taskpool_array_size = msz;", queries=["ind_s4_sync_r2"]),
    ]

CLAIMED = True
MANIFEST = {
 "engine": "cbmc-src",
 "text": "Bounded model checking of the real taskpool-id registry of parsec.c (the whole translation unit, included): an inductive step per operation kind "
         "(reserve_id, register, unregister, sync_ids_context, lookup) from a symbolic registry state satisfying a representation invariant, for array sizes 1 (the initial, "
         "unallocated state), 2, 4, 8 (thorough 16): the invariant is re-established (array walked under bounds/pointer checks, so it has the recorded size across the doubling "
         "reallocs), reserve_id returns pos+1, after sync with a MAX-reduction stub the position is the maximum over the ranks (next id = max+1 on every rank), and a lookup of a "
         "symbolic id returns the taskpool registered under it and NULL for reserved-only, unregistered, skipped or future ids.",
 "note": "concurrent reservations are NOT covered (CBMC refuses the unit for its thread encoding; see harness/C37/NOT_APPLICABLE.md) - only lock release is checked; id 0 outside; "
         "array sizes enumerated up to 16 pre / 64 post; the invariant is ours (closure checked); MPI reduced to a MAX stub.",
 "technique": "CBMC bounded symbolic execution of the real C unit (one operation from a symbolic invariant state) + SAT (cadical)",
}
