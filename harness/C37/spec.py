from vp.api import Q, Mutant
TITLE = "Taskpool identifiers resolve to the registered taskpool"
U = "parsec/parsec.c"
OUTSIDE = []
ASSUMPTIONS = []
BOUNDS = {"quick": {}, "thorough": {}}

def queries(ctx):
    info = {"symbolic": ["operation kind and taskpool of every step", "MPI up or not, remote maximum R of every sync", "looked-up id"],
            "functions": ["parsec_taskpool_reserve_id", "parsec_taskpool_register", "parsec_taskpool_unregister", "parsec_taskpool_lookup", "parsec_taskpool_sync_ids_context"],
            "stubs": ["MPI_Initialized (symbolic flag)", "MPI_Allreduce = MAX with a symbolic remote contribution"]}
    qs = [Q("hist_k5", ["h.c", "repo:" + U], defs=["K=5", "RMAX=9"], unwind=33, checks=["bounds", "pointer"], object_bits=12,
            info=dict(info, bounds={"operations": 5, "taskpools": 3, "remote max": "0..9"}), timeout=900)]
    return qs

def mutants(ctx):
    return []

CLAIMED = False
