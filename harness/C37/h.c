/* C37: taskpool identifier registry of parsec.c (the real translation unit, linked
 * whole; static registry state reached only through the public entry points).
 *
 * A history of K operations from the initial (empty, unallocated) registry, each
 * operation chosen by the solver:
 *   0 nop | 1 reserve_id(tp) | 2 register(tp) | 3 unregister(tp) | 4 sync_ids(max)
 * over NTP static taskpool objects, followed by a lookup of a symbolic id.
 * Caller contract (runtime.h): register only a taskpool whose id came from
 * reserve_id and that is not currently registered; unregister only a registered one.
 *
 * Ghost model: gpos = last id handed out / agreed by sync; per taskpool its state and id.
 * Obligations:
 *   - reserve_id returns gpos+1 (ids strictly increasing, hence distinct), stores it in tp,
 *   - after sync_ids with an MPI_Allreduce(MAX) stub contributing a symbolic remote
 *     maximum R, the next id is max(local, R)+1 (the same function on every rank),
 *   - lookup(q) = the taskpool registered under q; NULL for ids reserved but not
 *     registered, unregistered, skipped by a sync, or not handed out yet (q in 1..gpos+3),
 *   - every array access in bounds across the doubling reallocs (memory checks on).
 * id 0 (never handed out; slot 0 is left uninitialised by the code) is outside.
 */
#include "vp_harness.h"
#include "parsec/parsec_config.h"
#include "parsec/parsec_internal.h"
#include <mpi.h>

#ifndef K
#define K 5
#endif
#ifndef RMAX
#define RMAX 9
#endif
#define NTP 3
static parsec_taskpool_t tp0, tp1, tp2;
static int st[NTP];            /* 0 fresh, 1 reserved, 2 registered, 3 unregistered */
static uint32_t gid[NTP];
static uint32_t gpos;
static int mpi_on, remote_max, allreduce_calls;

int MPI_Initialized(int *flag) { *flag = mpi_on; return MPI_SUCCESS; }
int MPI_Allreduce(const void *sbuf, void *rbuf, int count, MPI_Datatype dt, MPI_Op op, MPI_Comm comm)
{
    (void)sbuf; (void)dt; (void)op; (void)comm;
    int *v = (int *)rbuf;
    allreduce_calls++;
    if (count == 1 && *v < remote_max) *v = remote_max;     /* MAX over all ranks */
    return MPI_SUCCESS;
}

static parsec_taskpool_t *tpof(int i) { return i == 0 ? &tp0 : (i == 1 ? &tp1 : &tp2); }

int main(void)
{
    int nres = 0, nreg = 0, nunreg = 0, nsync = 0;
    for (int k = 0; k < K; k++) {
        int op = IN_RANGE(0, 4);
        int i = IN_RANGE(0, NTP - 1);
        parsec_taskpool_t *tp = tpof(i);
        if (op == 1) {
            VASSUME(st[i] == 0);
            int r = parsec_taskpool_reserve_id(tp);
            VASSERTM((uint32_t)r == gpos + 1, "reserve_id hands out the next id (increasing, distinct)");
            VASSERTM(tp->taskpool_id == (uint32_t)r, "reserve_id stores the id in the taskpool");
            gpos = gpos + 1; gid[i] = gpos; st[i] = 1; nres++;
        } else if (op == 2) {
            VASSUME(st[i] == 1 || st[i] == 3);           /* holds a reserved id, not registered now */
            int r = parsec_taskpool_register(tp);
            VASSERTM((uint32_t)r == gid[i], "register returns the taskpool id");
            st[i] = 2; nreg++;
        } else if (op == 3) {
            VASSUME(st[i] == 2);
            parsec_taskpool_unregister(tp);
            st[i] = 3; nunreg++;
        } else if (op == 4) {
            mpi_on = IN_BOOL();
            remote_max = IN_RANGE(0, RMAX);
            int calls = allreduce_calls;
            parsec_taskpool_sync_ids_context((intptr_t)0);
            VASSERTM(allreduce_calls == calls + (mpi_on ? 1 : 0), "one MAX reduction per synchronisation when MPI is up");
            if (mpi_on && (uint32_t)remote_max > gpos) gpos = (uint32_t)remote_max;
            nsync++;
        }
    }
    /* the taskpool ids were not touched by anybody else */
    for (int i = 0; i < NTP; i++) if (st[i] != 0) VASSERTM(tpof(i)->taskpool_id == gid[i], "taskpool id stable");
    /* lookup of an arbitrary id */
    uint32_t q = (uint32_t)IN_RANGE(1, RMAX + K + 3);
    VASSUME(q <= gpos + 3);
    parsec_taskpool_t *r = parsec_taskpool_lookup(q);
    parsec_taskpool_t *exp = NULL;
    for (int i = 0; i < NTP; i++) if (st[i] == 2 && gid[i] == q) exp = tpof(i);
    VASSERTM(r == exp, "lookup returns the registered taskpool, NULL otherwise");
    if (nres >= 2 && nreg >= 1 && nsync >= 1 && exp != NULL) VWITNESS("reserve, register, sync, successful lookup");
    if (nunreg >= 1 && nres >= 1 && exp == NULL && q <= gpos) VWITNESS("lookup of an unregistered / unused id");
    if (nsync >= 1 && nres == 2 && gid[0] + 2 <= gid[1]) VWITNESS("ids skip over a synchronised gap");
    return 0;
}
