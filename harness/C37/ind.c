/* C37 (inductive step): ONE registry operation of the real parsec.c (included, so
 * that the static registry state can be set up) from a symbolic pre-state that
 * satisfies the representation invariant Inv, for an enumerated array size S:
 *
 *   Inv:  taskpool_array_size = S is a power of two, taskpool_array_pos < S,
 *         S == 1  <=> taskpool_array == NULL (and then pos == 0)   [= the initial state],
 *         S >= 2  =>  the array has S slots; every slot j in 1..S-1 holds the taskpool
 *                     registered under id j, or NOTASKPOOL (slot 0: arbitrary, the code
 *                     never initialises it),
 *         every taskpool that went through reserve_id holds an id in 1..pos, ids distinct.
 *
 * OP: 1 reserve_id | 2 register | 3 unregister | 4 sync_ids_context (remote maximum R
 * enumerated, MPI up/down symbolic) | 5 none.  After the operation: Inv again (closure,
 * with the array walked under bounds/pointer checks => it really has `size' slots),
 * the effect of the operation, and a lookup of a symbolic id against the ghost model.
 * Because Inv holds in the initial state (S=1 instance) and is preserved by every
 * operation, the obligations hold after histories of any length whose array stays
 * within the enumerated sizes.
 */
#include "vp_harness.h"
#include <mpi.h>
#include "parsec/parsec.c"

#ifndef S
#define S 4
#endif
#ifndef OP
#define OP 1
#endif
#ifndef R
#define R 0
#endif
#define NTP 3
static parsec_taskpool_t tp0, tp1, tp2;
static int st[NTP];            /* 0 fresh, 1 reserved, 2 registered, 3 unregistered */
static uint32_t gid[NTP];
static int mpi_on, allreduce_calls;

int MPI_Initialized(int *flag) { *flag = mpi_on; return MPI_SUCCESS; }
int MPI_Allreduce(const void *sbuf, void *rbuf, int count, MPI_Datatype dt, MPI_Op op, MPI_Comm comm)
{
    (void)sbuf; (void)dt; (void)op; (void)comm;
    int *v = (int *)rbuf;
    allreduce_calls++;
#if R >= S
    /* Inv gives local pos < S <= R: the maximum is R (kept concrete for the solver) */
    VASSERTM(count == 1 && *v < R, "harness: local position below the enumerated remote maximum");
    *v = R;
#else
    if (count == 1 && *v < R) *v = R;                      /* MAX over all ranks */
#endif
    return MPI_SUCCESS;
}

static parsec_taskpool_t *tpof(int i) { return i == 0 ? &tp0 : (i == 1 ? &tp1 : &tp2); }
static parsec_taskpool_t *expected(uint32_t j)
{
    for (int i = 0; i < NTP; i++) if (st[i] == 2 && gid[i] == j) return tpof(i);
    return NULL;
}

#ifndef SMAXPOST
#define SMAXPOST 64     /* spec.py: max(2*S, smallest power of two > R) */
#endif
static void check_inv(const char *unused)
{
    (void)unused;
    uint32_t sz = taskpool_array_size;
    VASSERTM(sz >= 1 && (sz & (sz - 1)) == 0 && sz <= SMAXPOST, "Inv: size is a power of two");
    VASSERTM(taskpool_array_lock == PARSEC_ATOMIC_UNLOCKED, "Inv: registry lock released");
    VASSERTM(taskpool_array_pos < sz, "Inv: pos < size (the next id always fits after one doubling)");
    VASSERTM((sz == 1) == (taskpool_array == NULL) || (sz >= 2 && taskpool_array != NULL), "Inv: array allocated whenever size >= 2");
    if (taskpool_array != NULL) {
        for (uint32_t j = 1; j < SMAXPOST; j++) if (j < sz) {
            parsec_taskpool_t *e = expected(j);
            VASSERTM(taskpool_array[j] == (e ? e : NOTASKPOOL), "Inv: slot j holds the taskpool registered under j, else NOTASKPOOL");
        }
    }
    for (int i = 0; i < NTP; i++) if (st[i] != 0) {
        VASSERTM(tpof(i)->taskpool_id == gid[i] && gid[i] >= 1 && gid[i] <= taskpool_array_pos, "Inv: reserved ids lie in 1..pos");
        for (int k = 0; k < i; k++) if (st[k] != 0) VASSERTM(gid[k] != gid[i], "Inv: ids distinct");
    }
}

int main(void)
{
    /* ---- symbolic pre-state satisfying Inv ---- */
    taskpool_array_size = S;
#if S == 1
    taskpool_array = NULL; taskpool_array_pos = 0;
#else
    taskpool_array = (parsec_taskpool_t **)malloc(S * sizeof(parsec_taskpool_t *));
    taskpool_array_pos = (uint32_t)IN_RANGE(0, S - 1);
#endif
    for (int i = 0; i < NTP; i++) {
        st[i] = IN_RANGE(0, 3);
        gid[i] = (uint32_t)IN_RANGE(1, S);
        if (st[i] != 0) {
            VASSUME(gid[i] <= taskpool_array_pos);
            for (int k = 0; k < i; k++) if (st[k] != 0) VASSUME(gid[k] != gid[i]);
            tpof(i)->taskpool_id = gid[i];
        }
    }
#if S > 1
    { int c = IN_RANGE(0, 2); taskpool_array[0] = c == 0 ? NULL : (c == 1 ? (parsec_taskpool_t *)NOTASKPOOL : &tp0); }
    for (uint32_t j = 1; j < S; j++) { parsec_taskpool_t *e = expected(j); taskpool_array[j] = e ? e : (parsec_taskpool_t *)NOTASKPOOL; }
#endif
    uint32_t pos0 = taskpool_array_pos;
    check_inv("pre");          /* the constructed state is an Inv state (sanity of the construction) */

    /* ---- one operation ---- */
    int i = IN_RANGE(0, NTP - 1);
    parsec_taskpool_t *tp = tpof(i);
#if OP == 1
    VASSUME(st[i] == 0);
    int r = parsec_taskpool_reserve_id(tp);
    VASSERTM((uint32_t)r == pos0 + 1, "reserve_id hands out pos+1 (strictly increasing, hence distinct)");
    VASSERTM(tp->taskpool_id == (uint32_t)r, "reserve_id stores the id in the taskpool");
    VASSERTM(taskpool_array_pos == pos0 + 1, "pos advanced by one");
    gid[i] = pos0 + 1; st[i] = 1;
#elif OP == 2
    VASSUME(st[i] == 1 || st[i] == 3);
    int r = parsec_taskpool_register(tp);
    VASSERTM((uint32_t)r == gid[i], "register returns the id");
    VASSERTM(taskpool_array_pos == pos0 && taskpool_array_size == S, "register leaves pos and size alone");
    st[i] = 2;
#elif OP == 3
    VASSUME(st[i] == 2);
    parsec_taskpool_unregister(tp);
    VASSERTM(taskpool_array_pos == pos0 && taskpool_array_size == S, "unregister leaves pos and size alone");
    st[i] = 3;
#elif OP == 4
    mpi_on = IN_BOOL();
    parsec_taskpool_sync_ids_context((intptr_t)0);
    VASSERTM(allreduce_calls == (mpi_on ? 1 : 0), "one MAX reduction per synchronisation when MPI is up");
    uint32_t agreed = (mpi_on && (uint32_t)R > pos0) ? (uint32_t)R : pos0;
    VASSERTM(taskpool_array_pos == agreed, "after sync pos = max over the ranks: the next id is max+1 on every rank");
#endif
    check_inv("post");

    /* ---- lookup of a symbolic id in the post-state ---- */
    uint32_t q = (uint32_t)IN_RANGE(1, SMAXPOST + 3);
    parsec_taskpool_t *l = parsec_taskpool_lookup(q);
    VASSERTM(l == (q <= taskpool_array_pos ? expected(q) : NULL), "lookup returns the registered taskpool, NULL otherwise");

#if OP == 1
    if (taskpool_array_size == 2 * S) VWITNESS("reservation that doubles the array");
#if S > 2
    if (taskpool_array_size == S && l != NULL) VWITNESS("reservation without growth, successful lookup");
#endif
#elif OP == 2
    if (l == tp) VWITNESS("registered taskpool found");
#elif OP == 3
#if S > 2
    if (q == gid[i] && st[(i + 1) % NTP] == 2) VWITNESS("unregistered id looked up, another taskpool still registered");
#else
    if (q == gid[i]) VWITNESS("unregistered id looked up");
#endif
#elif OP == 4
#if R >= S
    if (mpi_on && taskpool_array_size > S) VWITNESS("sync that grows the array");
#elif R > 0
    if (mpi_on && taskpool_array_size == S && taskpool_array_pos > pos0) VWITNESS("sync that only advances pos");
#endif
    if (!mpi_on || (uint32_t)R <= pos0) VWITNESS("sync without effect");
#else
#if S > 1
    if (l != NULL) VWITNESS("lookup hit");
    if (q <= taskpool_array_pos && l == NULL) VWITNESS("lookup of a reserved-only / unregistered id");
#else
    if (l == NULL && q == 1) VWITNESS("lookup on the initial (unallocated) registry");
#endif
#endif
    return 0;
}
