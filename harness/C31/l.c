/* C31: lists / dequeues / fifos keep their contents and order -- inductive step.
 *
 * Units: the real parsec/class/list.h, list_item.h, dequeue.h, fifo.h (all static inline,
 * compiled into this TU through the product's include path).
 * Pre-state: a symbolic VALID list of n <= NL items described by an index array ord[] (which of
 * the NI static items sits at which position; distinct), symbolic priorities (ties allowed),
 * detached items carry arbitrary (symbolic) stale next/prev pointers.  concretize() builds the
 * doubly linked ghost-element ring; ONE real operation runs; read_list() walks the real pointers
 * (forward links, back links, termination at the ghost) and the result is compared, position by
 * position, with the sequence model computed on integers.  One query per operation kind (OP).
 */
#include "vp_harness.h"
#include "parsec/parsec_config.h"
#include "parsec/class/list.h"
#include "parsec/class/dequeue.h"
#include "parsec/class/fifo.h"

#ifndef NI
#define NI 5            /* static items available */
#endif
#ifndef NL
#define NL 4            /* max. length of the pre-state list */
#endif
#ifndef NR
#define NR 3            /* max. length of an argument ring */
#endif

typedef struct { parsec_list_item_t super; int pad; int prio; } item_t;
#define OFF offsetof(item_t, prio)
static item_t e0, e1, e2, e3, e4, e5, e6;
static parsec_list_t L;
#define GHOST (&L.ghost_element)

static item_t *EP(int i) { return i==0?&e0:i==1?&e1:i==2?&e2:i==3?&e3:i==4?&e4:i==5?&e5:&e6; }
static parsec_list_item_t *IP(int i) { return &EP(i)->super; }
/* index of a pointer: 0..NI-1 item, NI ghost, NI+1 NULL, -1 anything else */
static int IDX(volatile parsec_list_item_t *p)
{
    if (p == GHOST) return NI;
    if (p == NULL) return NI + 1;
    for (int i = 0; i < NI; i++) if (p == IP(i)) return i;
    return -1;
}
/* arbitrary stale pointer value for a detached item */
static parsec_list_item_t *STALE(int g) { return g == NI ? GHOST : g == NI + 1 ? NULL : IP(g); }

/* ---------- abstract state ---------- */
static int n, ord[NL];          /* list: length and item index per position */
static int prio[NI];
static int inl[NI];             /* membership (derived) */
static int m, rord[NR];         /* argument ring: length and item index per position */

static void draw_list(int sorted)
{
    n = IN_RANGE(0, NL);
    for (int i = 0; i < NI; i++) { prio[i] = IN_INT(); inl[i] = 0;
#ifdef PMAX
        VASSUME(prio[i] >= 0 && prio[i] < PMAX);
#endif
    }
    for (int k = 0; k < NL; k++) {
#ifdef CANON
        ord[k] = k < NI ? k : 0;        /* canonical naming: the list is e0,e1,...; see spec (symmetry of the item objects) */
#else
        ord[k] = IN_RANGE(0, NI - 1);
#endif
        if (k < n) { VASSUME(!inl[ord[k]]); inl[ord[k]] = 1; }
    }
    if (sorted) for (int k = 0; k + 1 < NL; k++) if (k + 1 < n) VASSUME(prio[ord[k]] >= prio[ord[k + 1]]);
}
/* a ring of 1..NR items that are not in the list */
static void draw_ring(int lo)
{
    m = IN_RANGE(lo, NR);
    for (int k = 0; k < NR; k++) {
#ifdef CANON
        rord[k] = n + k < NI ? n + k : 0;
        if (k < m) VASSUME(n + k < NI);
#else
        rord[k] = IN_RANGE(0, NI - 1);
#endif
        if (k < m) { VASSUME(!inl[rord[k]]); inl[rord[k]] = 2; }
    }
}
static void concretize(void)
{
    L.atomic_lock = PARSEC_ATOMIC_UNLOCKED;
    for (int i = 0; i < NI; i++) {
        EP(i)->prio = prio[i];
        if (inl[i] == 0) {      /* detached: stale pointers */
            int a = IN_RANGE(0, NI + 1), b = IN_RANGE(0, NI + 1);
            IP(i)->list_next = STALE(a); IP(i)->list_prev = STALE(b);
        }
    }
    GHOST->list_next = n > 0 ? IP(ord[0]) : GHOST;
    GHOST->list_prev = n > 0 ? IP(ord[n - 1]) : GHOST;
    for (int k = 0; k < NL; k++) if (k < n) {
        IP(ord[k])->list_prev = k == 0 ? GHOST : IP(ord[k - 1]);
        IP(ord[k])->list_next = k == n - 1 ? GHOST : IP(ord[k + 1]);
    }
    for (int k = 0; k < NR; k++) if (k < m) {
        IP(rord[k])->list_prev = IP(rord[k == 0 ? m - 1 : k - 1]);
        IP(rord[k])->list_next = IP(rord[k == m - 1 ? 0 : k + 1]);
    }
}
/* walk the real list; returns its length or -1 if the structure is malformed */
static int read_list(int *out)
{
    volatile parsec_list_item_t *p = GHOST->list_next, *prev = GHOST;
    int k = 0;
    for (int s = 0; s < NI; s++) {
        if (p == GHOST) break;
        int i = IDX(p);
        if (i < 0 || i >= NI) return -1;
        if (p->list_prev != prev) return -1;
        out[k++] = i; prev = p; p = p->list_next;
    }
    if (p != GHOST) return -1;
    if (GHOST->list_prev != prev) return -1;
    return k;
}
/* walk a real ring starting at head; returns its length or -1 */
static int read_ring(parsec_list_item_t *head, int *out)
{
    volatile parsec_list_item_t *p = head, *prev;
    int k = 0;
    if (IDX(head) < 0 || IDX(head) >= NI) return -1;
    prev = head->list_prev;
    for (int s = 0; s < NI; s++) {
        int i = IDX(p);
        if (i < 0 || i >= NI) return -1;
        if (p->list_prev != prev) return -1;
        out[k++] = i; prev = p; p = p->list_next;
        if (p == head) break;
    }
    if (p != head) return -1;
    if (head->list_prev != prev) return -1;
    return k;
}
static int got[NI + 1], gn, exp_[NI + 1], en;
static int same(void)
{
    if (gn != en) return 0;
    for (int k = 0; k < NI; k++) if (k < en && got[k] != exp_[k]) return 0;
    return 1;
}
/* model: insert item x at position pos of the sequence (src,sn) -> (exp_,en) */
static void model_insert(const int *src, int sn, int pos, int x)
{
    en = sn + 1;
    for (int k = 0; k < NI; k++) if (k < en) exp_[k] = k < pos ? src[k] : k == pos ? x : src[k - 1];
}
/* model position for a stable sorted insert into a non-increasing sequence: after every element >= p */
static int sorted_pos(const int *src, int sn, int p)
{
    int pos = 0;
    for (int k = 0; k < NI; k++) if (k < sn && prio[src[k]] >= p) pos = k + 1;
    return pos;
}
static int unlocked(void) { return L.atomic_lock == PARSEC_ATOMIC_UNLOCKED; }

/* flavours: the same operation through the different front ends */
#define F_NOLOCK 0      /* parsec_list_nolock_*  */
#define F_LOCK   1      /* parsec_list_*         */
#define F_DQ     2      /* parsec_dequeue_*      */
#define F_DQNL   3      /* parsec_dequeue_nolock_* */
#define F_FIFO   4      /* parsec_fifo_*         */
#define F_FIFONL 5      /* parsec_fifo_nolock_*  */
#define F_TRY    6      /* parsec_list_try_*     */
#define F_DQTRY  7
#define F_FIFOTRY 8
#ifndef FL
#define FL F_NOLOCK
#endif

#define OP_PUSH_FRONT 1
#define OP_PUSH_BACK 2
#define OP_POP_FRONT 3
#define OP_POP_BACK 4
#define OP_CHAIN_FRONT 5
#define OP_CHAIN_BACK 6
#define OP_UNCHAIN 7
#define OP_REMOVE 8
#define OP_ADD_BEFORE 9
#define OP_ADD_AFTER 10
#define OP_CONTAINS 11
#define OP_PUSH_SORTED 12
#define OP_CHAIN_SORTED 13
#define OP_SORT 14
#define OP_RING_PUSH_SORTED 15
#define OP_RING_PUSH 16
#define OP_RING_MERGE 17
#define OP_RING_CHOP 18
#define OP_RING 19
#define OP_IS_EMPTY 20
#define OP_ITER 21

int main(void)
{
    int w1 = 0, w2 = 0, w3 = 0;
    m = 0;
#if OP == OP_PUSH_FRONT || OP == OP_PUSH_BACK
    draw_list(0);
    int x = IN_RANGE(0, NI - 1); VASSUME(!inl[x]);
    concretize();
#if OP == OP_PUSH_FRONT
#if FL == F_NOLOCK
    parsec_list_nolock_push_front(&L, IP(x));
#elif FL == F_LOCK
    parsec_list_push_front(&L, IP(x));
#elif FL == F_DQ
    parsec_dequeue_push_front(&L, IP(x));
#elif FL == F_DQNL
    parsec_dequeue_nolock_push_front(&L, IP(x));
#else
#error "flavour"
#endif
    model_insert(ord, n, 0, x);
#else
#if FL == F_NOLOCK
    parsec_list_nolock_push_back(&L, IP(x));
#elif FL == F_LOCK
    parsec_list_push_back(&L, IP(x));
#elif FL == F_DQ
    parsec_dequeue_push_back(&L, IP(x));
#elif FL == F_DQNL
    parsec_dequeue_nolock_push_back(&L, IP(x));
#elif FL == F_FIFO
    parsec_fifo_push(&L, IP(x));
#elif FL == F_FIFONL
    parsec_fifo_nolock_push(&L, IP(x));
#else
#error "flavour"
#endif
    model_insert(ord, n, n, x);
#endif
    gn = read_list(got);
    VASSERTM(gn >= 0, "push: list well formed (next/prev links, ends at the ghost)");
    VASSERTM(same(), "push: contents = old contents with the item at the front/back, order kept");
    VASSERTM(unlocked(), "push: lock released");
    w1 = (n == NL); w2 = (n == 0);
#define W1 "push on a list of NL items"
#define W2 "push on the empty list"

#elif OP == OP_POP_FRONT || OP == OP_POP_BACK
    draw_list(0);
    int held = 0;
#if FL == F_TRY || FL == F_DQTRY || FL == F_FIFOTRY
    held = IN_BOOL();           /* somebody else holds the lock */
#endif
    concretize();
    if (held) L.atomic_lock = 1;
    parsec_list_item_t *r;
#if OP == OP_POP_FRONT
#if FL == F_NOLOCK
    r = parsec_list_nolock_pop_front(&L);
#elif FL == F_LOCK
    r = parsec_list_pop_front(&L);
#elif FL == F_TRY
    r = parsec_list_try_pop_front(&L);
#elif FL == F_DQ
    r = parsec_dequeue_pop_front(&L);
#elif FL == F_DQNL
    r = parsec_dequeue_nolock_pop_front(&L);
#elif FL == F_DQTRY
    r = parsec_dequeue_try_pop_front(&L);
#elif FL == F_FIFO
    r = parsec_fifo_pop(&L);
#elif FL == F_FIFONL
    r = parsec_fifo_nolock_pop(&L);
#elif FL == F_FIFOTRY
    r = parsec_fifo_try_pop(&L);
#else
#error "flavour"
#endif
    int take = (n > 0 && !held);
    en = take ? n - 1 : n;
    for (int k = 0; k < NL; k++) if (k < en) exp_[k] = take ? ord[k + 1 < NL ? k + 1 : k] : ord[k];
    int expect = take ? ord[0] : NI + 1;
#else
#if FL == F_NOLOCK
    r = parsec_list_nolock_pop_back(&L);
#elif FL == F_LOCK
    r = parsec_list_pop_back(&L);
#elif FL == F_TRY
    r = parsec_list_try_pop_back(&L);
#elif FL == F_DQ
    r = parsec_dequeue_pop_back(&L);
#elif FL == F_DQNL
    r = parsec_dequeue_nolock_pop_back(&L);
#elif FL == F_DQTRY
    r = parsec_dequeue_try_pop_back(&L);
#else
#error "flavour"
#endif
    int take = (n > 0 && !held);
    en = take ? n - 1 : n;
    for (int k = 0; k < NL; k++) if (k < en) exp_[k] = ord[k];
    int expect = take ? ord[n - 1] : NI + 1;
#endif
    gn = read_list(got);
    VASSERTM(gn >= 0, "pop: list well formed");
    VASSERTM(IDX(r) == expect, "pop: returns the first/last item, NULL iff the list is empty (or trylock failed)");
    VASSERTM(same(), "pop: remaining contents = old contents minus the returned item, order kept");
    VASSERTM(L.atomic_lock == (held ? 1 : PARSEC_ATOMIC_UNLOCKED), "pop: lock state restored");
    w1 = (n == NL && !held); w2 = (n == 0); w3 = (n == 1 && !held);
#define W1 "pop from a list of NL items"
#define W2 "pop from the empty list"
#define W3 "pop the only item"

#elif OP == OP_CHAIN_FRONT || OP == OP_CHAIN_BACK
    draw_list(0);
    draw_ring(1);
    concretize();
#if OP == OP_CHAIN_FRONT
#if FL == F_NOLOCK
    parsec_list_nolock_chain_front(&L, IP(rord[0]));
#elif FL == F_LOCK
    parsec_list_chain_front(&L, IP(rord[0]));
#elif FL == F_DQ
    parsec_dequeue_chain_front(&L, IP(rord[0]));
#elif FL == F_DQNL
    parsec_dequeue_nolock_chain_front(&L, IP(rord[0]));
#else
#error "flavour"
#endif
    en = n + m;
    for (int k = 0; k < NI; k++) if (k < en) exp_[k] = k < m ? rord[k < NR ? k : 0] : ord[(k - m) < NL ? (k - m) : 0];
#else
#if FL == F_NOLOCK
    parsec_list_nolock_chain_back(&L, IP(rord[0]));
#elif FL == F_LOCK
    parsec_list_chain_back(&L, IP(rord[0]));
#elif FL == F_DQ
    parsec_dequeue_chain_back(&L, IP(rord[0]));
#elif FL == F_DQNL
    parsec_dequeue_nolock_chain_back(&L, IP(rord[0]));
#elif FL == F_FIFO
    parsec_fifo_chain(&L, IP(rord[0]));
#elif FL == F_FIFONL
    parsec_fifo_nolock_chain(&L, IP(rord[0]));
#else
#error "flavour"
#endif
    en = n + m;
    for (int k = 0; k < NI; k++) if (k < en) exp_[k] = k < n ? ord[k < NL ? k : 0] : rord[(k - n) < NR ? (k - n) : 0];
#endif
    gn = read_list(got);
    VASSERTM(gn >= 0, "chain: list well formed");
    VASSERTM(same(), "chain: contents = ring items (in ring order) before/after the old contents");
    VASSERTM(unlocked(), "chain: lock released");
    w1 = (n >= 2 && m >= 2); w2 = (n == 0 && m == 1);
#define W1 "chain a ring of >=2 on a list of >=2"
#define W2 "chain a singleton on the empty list"

#elif OP == OP_UNCHAIN
    draw_list(0);
    concretize();
#if FL == F_NOLOCK
    parsec_list_item_t *r = parsec_list_nolock_unchain(&L);
#else
    parsec_list_item_t *r = parsec_list_unchain(&L);
#endif
    gn = read_list(got);
    VASSERTM(gn == 0, "unchain: list is empty and well formed afterwards");
    if (n == 0) VASSERTM(r == NULL, "unchain: NULL for the empty list");
    else {
        VASSERTM(r == IP(ord[0]), "unchain: returns the former head");
        gn = read_ring(r, got);
        en = n; for (int k = 0; k < NL; k++) exp_[k] = ord[k];
        VASSERTM(gn >= 0 && same(), "unchain: the returned ring holds the old contents in order");
    }
    VASSERTM(unlocked(), "unchain: lock released");
    w1 = (n == NL); w2 = (n == 0); w3 = (n == 1);
#define W1 "unchain NL items"
#define W2 "unchain the empty list"
#define W3 "unchain one item"

#elif OP == OP_REMOVE
    draw_list(0);
    int pos = IN_RANGE(0, NL - 1); VASSUME(pos < n);       /* contract: item is in the list */
    concretize();
    parsec_list_item_t *r = parsec_list_nolock_remove(&L, IP(ord[pos]));
    en = n - 1;
    for (int k = 0; k < NL; k++) if (k < en) exp_[k] = k < pos ? ord[k] : ord[k + 1 < NL ? k + 1 : k];
    gn = read_list(got);
    VASSERTM(gn >= 0, "remove: list well formed");
    VASSERTM(same(), "remove: contents = old contents minus the item, order kept");
    VASSERTM(r == (pos == 0 ? GHOST : IP(ord[pos > 0 ? pos - 1 : 0])), "remove: returns the predecessor (the ghost for the head)");
    w1 = (n == NL && pos > 0 && pos < n - 1); w2 = (n == 1);
#define W1 "remove from the middle"
#define W2 "remove the only item"

#elif OP == OP_ADD_BEFORE || OP == OP_ADD_AFTER
    draw_list(0);
    int pos = IN_RANGE(0, NL); VASSUME(pos <= n);          /* pos == n: the ghost element */
    int x = IN_RANGE(0, NI - 1); VASSUME(!inl[x]);
    concretize();
    parsec_list_item_t *at = pos == n ? GHOST : IP(ord[pos < NL ? pos : 0]);
#if OP == OP_ADD_BEFORE
    parsec_list_nolock_add_before(&L, at, IP(x));
    model_insert(ord, n, pos, x);                           /* before the ghost = back */
#else
#if FL == F_LOCK
    parsec_list_add_after(&L, at, IP(x));
#else
    parsec_list_nolock_add_after(&L, at, IP(x));
#endif
    model_insert(ord, n, pos == n ? 0 : pos + 1, x);        /* after the ghost = front */
#endif
    gn = read_list(got);
    VASSERTM(gn >= 0, "add: list well formed");
    VASSERTM(same(), "add_before/after: item inserted exactly before/after the position, rest unchanged");
    VASSERTM(unlocked(), "add: lock released");
    w1 = (n == NL && pos > 0 && pos < n); w2 = (n >= 1 && pos == n);
#define W1 "add in the middle"
#define W2 "add relative to the ghost on a non-empty list"

#elif OP == OP_CONTAINS || OP == OP_IS_EMPTY || OP == OP_ITER
    draw_list(0);
    int x = IN_RANGE(0, NI - 1);
    concretize();
#if OP == OP_CONTAINS
    int r = parsec_list_nolock_contains(&L, IP(x));
    VASSERTM(r == (inl[x] == 1), "contains: true iff the item is in the list");
    w1 = (n == NL && r && IP(x) != GHOST->list_next); w2 = (n == NL && !r);
#define W1 "contains: found, not the head"
#define W2 "contains: not found in a full list"
#elif OP == OP_IS_EMPTY
    VASSERTM(parsec_list_nolock_is_empty(&L) == (n == 0), "nolock_is_empty iff no item");
    VASSERTM(parsec_list_is_empty(&L) == (n == 0), "is_empty iff no item");
    VASSERTM(parsec_dequeue_is_empty(&L) == (n == 0) && parsec_dequeue_nolock_is_empty(&L) == (n == 0), "dequeue_is_empty iff no item");
    VASSERTM(parsec_fifo_is_empty(&L) == (n == 0) && parsec_fifo_nolock_is_empty(&L) == (n == 0), "fifo_is_empty iff no item");
    w1 = (n == 0); w2 = (n == 2);
#define W1 "empty"
#define W2 "two items"
#else
    /* the iterator macros visit every item once, in order (forward and reverse) */
    int cnt = 0, okf = 1, okr = 1;
    PARSEC_LIST_ITERATOR(&L, it, { if (cnt >= n || it != IP(ord[cnt < NL ? cnt : 0])) okf = 0; cnt++; });
    VASSERTM(okf && cnt == n, "LIST_ITERATOR visits the items in order, once");
    cnt = 0; okf = 1;
    PARSEC_LIST_NOLOCK_ITERATOR(&L, it, { if (cnt >= n || it != IP(ord[cnt < NL ? cnt : 0])) okf = 0; cnt++; });
    VASSERTM(okf && cnt == n, "LIST_NOLOCK_ITERATOR visits the items in order, once");
    cnt = 0;
    PARSEC_LIST_NOLOCK_REV_ITERATOR(&L, it, { int k = n - 1 - cnt; if (k < 0 || it != IP(ord[k >= 0 && k < NL ? k : 0])) okr = 0; cnt++; });
    VASSERTM(okr && cnt == n, "LIST_NOLOCK_REV_ITERATOR visits the items in reverse order, once");
    w1 = (n == NL);
#define W1 "iterate over NL items"
#endif
    gn = read_list(got); en = n; for (int k = 0; k < NL; k++) exp_[k] = ord[k];
    VASSERTM(gn >= 0 && same(), "query leaves the list unchanged");
    VASSERTM(unlocked(), "query: lock released");

#elif OP == OP_PUSH_SORTED
    draw_list(1);
    int x = IN_RANGE(0, NI - 1); VASSUME(!inl[x]);
    concretize();
#if FL == F_LOCK
    parsec_list_push_sorted(&L, IP(x), OFF);
#else
    parsec_list_nolock_push_sorted(&L, IP(x), OFF);
#endif
    int pos = sorted_pos(ord, n, prio[x]);
    model_insert(ord, n, pos, x);
    gn = read_list(got);
    VASSERTM(gn >= 0, "push_sorted: list well formed");
    VASSERTM(gn == n + 1, "push_sorted: exactly one item added");
    { int okord = 1; for (int k = 0; k + 1 < NI; k++) if (k + 1 < gn && !(prio[got[k]] >= prio[got[k + 1]])) okord = 0;
      VASSERTM(okord, "push_sorted: list stays in non-increasing priority order"); }
    VASSERTM(same(), "push_sorted: new item placed after every item of higher or EQUAL priority (stability), rest unchanged");
    VASSERTM(unlocked(), "push_sorted: lock released");
    { int ties = 0; for (int k = 0; k < NL; k++) if (k < n && prio[ord[k]] == prio[x]) ties++;
      w1 = (n == NL && ties >= 2 && pos < n); w2 = (n == NL && pos == 0); w3 = (n >= 2 && pos == n && ties == 0); }
#define W1 "push_sorted among >=2 equal priorities, not at the end"
#define W2 "push_sorted: new maximum"
#define W3 "push_sorted: new minimum"

#elif OP == OP_CHAIN_SORTED
    draw_list(1);
    draw_ring(1);
    concretize();
#if FL == F_LOCK
    parsec_list_chain_sorted(&L, IP(rord[0]), OFF);
#else
    parsec_list_nolock_chain_sorted(&L, IP(rord[0]), OFF);
#endif
    /* model: the ring items are inserted one after the other, in ring order, each one before the first
     * strictly smaller element (i.e. after its equals) */
    int cur[NI + 1], cn = n;
    for (int k = 0; k < NL; k++) cur[k] = ord[k];
    for (int j = 0; j < NR; j++) if (j < m) {
        int pos = sorted_pos(cur, cn, prio[rord[j]]);
        model_insert(cur, cn, pos, rord[j]);
        cn = en; for (int k = 0; k < NI; k++) cur[k] = exp_[k];
    }
    gn = read_list(got);
    VASSERTM(gn >= 0, "chain_sorted: list well formed");
    VASSERTM(gn == n + m, "chain_sorted: every ring item added exactly once");
    { int okord = 1; for (int k = 0; k + 1 < NI; k++) if (k + 1 < gn && !(prio[got[k]] >= prio[got[k + 1]])) okord = 0;
      VASSERTM(okord, "chain_sorted: list stays in non-increasing priority order"); }
    VASSERTM(same(), "chain_sorted: each item after its equals, ring order kept among equal items (stability)");
    VASSERTM(unlocked(), "chain_sorted: lock released");
    { int eq = 0; for (int k = 0; k < NL; k++) if (k < n && prio[ord[k]] == prio[rord[0]]) eq = 1;
      w1 = (n >= 1 && m >= 2 && eq && prio[rord[0]] == prio[rord[1]]); w2 = (n == 0 && m >= 2 && prio[rord[0]] < prio[rord[1]]);
      w3 = (n >= 1 && m == NR && prio[rord[0]] > prio[rord[1]] && prio[rord[1]] < prio[rord[2 < NR ? 2 : 0]]); }
#define W1 "chain_sorted: ring with equal items meeting equal list items"
#define W2 "chain_sorted: ascending ring into the empty list"
#define W3 "chain_sorted: non-monotone ring"

#elif OP == OP_SORT
    draw_list(0);
    concretize();
#if FL == F_LOCK
    parsec_list_sort(&L, OFF);
#else
    parsec_list_nolock_sort(&L, OFF);
#endif
    gn = read_list(got);
    VASSERTM(gn >= 0, "sort: list well formed");
    VASSERTM(gn == n, "sort: same number of items");
    { int perm = 1; for (int k = 0; k < NL; k++) if (k < n) { int c = 0; for (int j = 0; j < NL; j++) if (j < gn && got[j] == ord[k]) c++; if (c != 1) perm = 0; }
      VASSERTM(perm, "sort: result is a permutation of the input items"); }
    { int asc = 1, desc = 1;
      for (int k = 0; k + 1 < NL; k++) if (k + 1 < gn) { if (prio[got[k]] > prio[got[k + 1]]) asc = 0; if (prio[got[k]] < prio[got[k + 1]]) desc = 0; }
      /* list.h documents "Natural order is used to sort the items"; the merge step takes the LOWER element first,
       * i.e. the result is non-decreasing in the comparison value (NOT the non-increasing order that
       * push_sorted/chain_sorted maintain; both in-tree callers re-insert through chain_sorted). */
#ifdef SORT_DESC
      VASSERTM(desc, "sort: result is in non-increasing priority order (the order push_sorted/chain_sorted maintain)");
#else
      VASSERTM(asc, "sort: result is monotone: non-decreasing ('natural') order of the comparison value");
#endif
      (void)asc; (void)desc;
    }
    VASSERTM(unlocked(), "sort: lock released");
    { int ties = 0; for (int k = 0; k + 1 < NL; k++) if (k + 1 < n && prio[ord[k]] == prio[ord[k + 1]]) ties = 1;
      int inv = 0; for (int k = 0; k + 1 < NL; k++) if (k + 1 < n && prio[ord[k]] < prio[ord[k + 1]]) inv++;
      w1 = (n == NL && inv >= 1 && ties); w2 = (n == 0); w3 = (n == NL && inv == NL - 1); }
#define W1 "sort NL items with a tie and an inversion"
#define W2 "sort the empty list"
#define W3 "sort a strictly ascending list"

#elif OP == OP_RING_PUSH_SORTED || OP == OP_RING_PUSH || OP == OP_RING_CHOP || OP == OP_RING
    /* rings (list_item.h): the pre-state ring is drawn like a list, then closed */
    n = 0; for (int i = 0; i < NI; i++) { prio[i] = IN_INT(); inl[i] = 0; }
    draw_ring(OP == OP_RING_PUSH_SORTED ? 0 : 1);
#if OP == OP_RING_PUSH_SORTED
    for (int k = 0; k + 1 < NR; k++) if (k + 1 < m) VASSUME(prio[rord[k]] >= prio[rord[k + 1]]);
#endif
    int x = IN_RANGE(0, NI - 1);
    concretize();
    parsec_list_item_t *ring = m > 0 ? IP(rord[0]) : NULL, *r;
#if OP == OP_RING_PUSH_SORTED
    VASSUME(!inl[x]);
    r = parsec_list_item_ring_push_sorted(ring, IP(x), OFF);
    /* documented: inserted before the first p with !(item < p), i.e. before the first p <= item */
    int pos = m; for (int k = NR - 1; k >= 0; k--) if (k < m && !(prio[x] < prio[rord[k]])) pos = k;
    model_insert(rord, m, pos, x);
    gn = read_ring(r, got);
    VASSERTM(gn >= 0, "ring_push_sorted: ring well formed");
    { int okord = 1; for (int k = 0; k + 1 < NI; k++) if (k + 1 < gn && !(prio[got[k]] >= prio[got[k + 1]])) okord = 0;
      VASSERTM(okord, "ring_push_sorted: ring (from the returned head) stays in non-increasing order"); }
    VASSERTM(same(), "ring_push_sorted: item inserted at the documented position, returned head = highest priority");
    w1 = (m == NR && pos > 0 && pos < m); w2 = (m == 0); w3 = (m >= 2 && pos == 0);
#define W1 "ring_push_sorted in the middle"
#define W2 "ring_push_sorted into NULL"
#define W3 "ring_push_sorted: new head"
#elif OP == OP_RING_PUSH
    VASSUME(!inl[x]);
    r = parsec_list_item_ring_push(ring, IP(x));
    model_insert(rord, m, m, x);                /* "preceding ring" = last position seen from ring */
    gn = read_ring(r, got);
    VASSERTM(r == ring && gn >= 0 && same(), "ring_push: item added just before the ring head, ring returned");
    w1 = (m == NR); w2 = (m == 1);
#define W1 "ring_push on NR items"
#define W2 "ring_push on a singleton"
#elif OP == OP_RING_CHOP
    int pos = IN_RANGE(0, NR - 1); VASSUME(pos < m);
    r = parsec_list_item_ring_chop(IP(rord[pos]));
    if (m == 1) VASSERTM(r == NULL, "ring_chop: NULL when the item was alone");
    else {
        VASSERTM(r == IP(rord[pos + 1 < m ? pos + 1 : 0]), "ring_chop: returns the successor");
        gn = read_ring(r, got);
        en = m - 1; for (int k = 0; k < NR; k++) if (k < en) { int s = pos + 1 + k; if (s >= m) s -= m; exp_[k] = rord[s < NR ? s : 0]; }
        VASSERTM(gn >= 0 && same(), "ring_chop: the rest of the ring, in order, without the item");
    }
    w1 = (m == NR && pos == 1); w2 = (m == 1);
#define W1 "ring_chop from the middle"
#define W2 "ring_chop a singleton"
#else
    /* parsec_list_item_ring(first,last): close an open chain first..last into a ring */
    IP(rord[0])->list_prev = STALE(IN_RANGE(0, NI + 1));
    IP(rord[m - 1])->list_next = STALE(IN_RANGE(0, NI + 1));
    r = parsec_list_item_ring(IP(rord[0]), IP(rord[m - 1]));
    gn = read_ring(r, got);
    en = m; for (int k = 0; k < NR; k++) exp_[k] = rord[k];
    VASSERTM(r == IP(rord[0]) && gn >= 0 && same(), "list_item_ring: chain closed into a ring, order kept, first returned");
    w1 = (m == NR); w2 = (m == 1);
#define W1 "ring of NR"
#define W2 "ring of one"
#endif

#elif OP == OP_RING_MERGE
    /* two disjoint rings: ring1 = the 'list' description (n >= 1), ring2 = the ring description */
    draw_list(0); VASSUME(n >= 1);
    draw_ring(1);
    concretize();
    /* close the list description into a ring */
    IP(ord[0])->list_prev = IP(ord[n - 1]); IP(ord[n - 1])->list_next = IP(ord[0]);
    parsec_list_item_t *r = parsec_list_item_ring_merge(IP(ord[0]), IP(rord[0]));
    en = n + m;
    for (int k = 0; k < NI; k++) if (k < en) exp_[k] = k < n ? ord[k < NL ? k : 0] : rord[(k - n) < NR ? (k - n) : 0];
    gn = read_ring(r, got);
    VASSERTM(r == IP(ord[0]) && gn >= 0 && same(), "ring_merge: ring2 appended after ring1, both orders kept, ring1 returned");
    w1 = (n >= 2 && m >= 2); w2 = (n == 1 && m == 1);
#define W1 "merge two rings of >=2"
#define W2 "merge two singletons"
#else
#error "OP"
#endif
    if (w1) VWITNESS(W1);
#ifdef W2
    if (w2) VWITNESS(W2);
#endif
#ifdef W3
    if (w3) VWITNESS(W3);
#endif
    return 0;
}
