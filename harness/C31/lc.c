/* C31 (concurrent half): the LOCKED list / dequeue / fifo operations of parsec/class/list.h under
 * symbolic interleavings (Engine S: IR-level sequentialization, yields before every shared access).
 * Two threads run 1-2 locked operations each on one list; check() runs after both finished:
 *  - the list is well formed (forward/back links, ghost terminated),
 *  - conservation: every item is in the list exactly once or held by exactly one thread,
 *  - the results are consistent with SOME sequential order of the operations (written out per scenario),
 *  - the lock is free.
 */
#include "vp_harness.h"
#include "parsec/parsec_config.h"
#include "parsec/class/list.h"
#include "parsec/class/dequeue.h"
#include "parsec/class/fifo.h"

#ifndef SCEN
#define SCEN 1
#endif
#define NI 5
typedef struct { parsec_list_item_t super; int pad; int prio; } item_t;
#define OFF offsetof(item_t, prio)
parsec_list_t L;
item_t I[NI];
parsec_list_item_t *r[4];
#define A (&I[0].super)
#define B (&I[1].super)
#define C (&I[2].super)
#define D (&I[3].super)
#define E (&I[4].super)
#define GHOST (&L.ghost_element)

static void list_init(void) { GHOST->list_next = GHOST; GHOST->list_prev = GHOST; L.atomic_lock = PARSEC_ATOMIC_UNLOCKED; }

#if SCEN == 1   /* [A,B]  T0: push_back(C)        T1: pop_front; pop_front */
void setup(void) { list_init(); parsec_list_nolock_push_back(&L, A); parsec_list_nolock_push_back(&L, B); }
void thread0(void) { parsec_list_push_back(&L, C); }
void thread1(void) { r[0] = parsec_list_pop_front(&L); r[1] = parsec_list_pop_front(&L); }
#elif SCEN == 2 /* [A]    T0: pop_front           T1: pop_front   (unlocked emptiness pre-check, then locked pop) */
void setup(void) { list_init(); parsec_list_nolock_push_back(&L, A); }
void thread0(void) { r[0] = parsec_list_pop_front(&L); }
void thread1(void) { r[1] = parsec_list_pop_front(&L); }
#elif SCEN == 3 /* [A(5),B(3)]  T0: push_sorted(C(4))   T1: push_sorted(D(4)) */
void setup(void) { list_init(); I[0].prio = 5; I[1].prio = 3; I[2].prio = 4; I[3].prio = 4;
                   parsec_list_nolock_push_back(&L, A); parsec_list_nolock_push_back(&L, B); }
void thread0(void) { parsec_list_push_sorted(&L, C, OFF); }
void thread1(void) { parsec_list_push_sorted(&L, D, OFF); }
#elif SCEN == 4 /* dequeue [A]  T0: push_front(C); pop_back   T1: pop_front */
void setup(void) { list_init(); parsec_list_nolock_push_back(&L, A); }
void thread0(void) { parsec_dequeue_push_front(&L, C); r[0] = parsec_dequeue_pop_back(&L); }
void thread1(void) { r[1] = parsec_dequeue_pop_front(&L); }
#elif SCEN == 5 /* fifo [A]  T0: push(C)   T1: try_pop; pop */
void setup(void) { list_init(); parsec_list_nolock_push_back(&L, A); }
void thread0(void) { parsec_fifo_push(&L, C); }
void thread1(void) { r[0] = parsec_fifo_try_pop(&L); r[1] = parsec_fifo_pop(&L); }
#elif SCEN == 6 /* [A,B]  T0: unchain   T1: chain_back(ring C,D) */
void setup(void) { list_init(); parsec_list_nolock_push_back(&L, A); parsec_list_nolock_push_back(&L, B);
                   C->list_next = D; D->list_prev = C; D->list_next = C; C->list_prev = D; }
void thread0(void) { r[0] = parsec_list_unchain(&L); }
void thread1(void) { parsec_list_chain_back(&L, C); }
#elif SCEN == 7 /* [A]  T0: dequeue_chain_front(ring C,D)   T1: dequeue_push_front(B)   (two insertions racing at the head) */
void setup(void) { list_init(); parsec_list_nolock_push_back(&L, A);
                   C->list_next = D; D->list_prev = C; D->list_next = C; C->list_prev = D; }
void thread0(void) { parsec_dequeue_chain_front(&L, C); }
void thread1(void) { parsec_dequeue_push_front(&L, B); }
#define INSERT_RACE 1
#elif SCEN == 8 /* [A]  T0: fifo_chain(ring C,D) = list_chain_back   T1: fifo_push(B) = list_push_back   (racing at the tail) */
void setup(void) { list_init(); parsec_list_nolock_push_back(&L, A);
                   C->list_next = D; D->list_prev = C; D->list_next = C; C->list_prev = D; }
void thread0(void) { parsec_fifo_chain(&L, C); }
void thread1(void) { parsec_fifo_push(&L, B); }
#define INSERT_RACE 1
#elif SCEN == 9 /* [A(5),B(1)]  T0: chain_sorted(ring C(4),D(2))   T1: push_sorted(E(3)) */
void setup(void) { list_init(); I[0].prio = 5; I[1].prio = 1; I[2].prio = 4; I[3].prio = 2; I[4].prio = 3;
                   parsec_list_nolock_push_back(&L, A); parsec_list_nolock_push_back(&L, B);
                   C->list_next = D; D->list_prev = C; D->list_next = C; C->list_prev = D; }
void thread0(void) { parsec_list_chain_sorted(&L, C, OFF); }
void thread1(void) { parsec_list_push_sorted(&L, E, OFF); }
#define INSERT_RACE 1
#elif SCEN == 10 /* [A]  T0: list_chain_front(ring C,D)   T1: list_chain_front(singleton B)   (two chains racing at the head) */
void setup(void) { list_init(); parsec_list_nolock_push_back(&L, A);
                   C->list_next = D; D->list_prev = C; D->list_next = C; C->list_prev = D;
                   B->list_next = B; B->list_prev = B; }
void thread0(void) { parsec_list_chain_front(&L, C); }
void thread1(void) { parsec_list_chain_front(&L, B); }
#define INSERT_RACE 1
#endif

static int held(parsec_list_item_t *it) { int n = 0; for (int k = 0; k < 4; k++) if (r[k] == it) n++; return n; }
static int idx(volatile parsec_list_item_t *p) { for (int k = 0; k < NI; k++) if (p == &I[k].super) return k; return -1; }

void check(void)
{
    int in[NI], pos[NI], n = 0, ok = 1;
    for (int k = 0; k < NI; k++) { in[k] = 0; pos[k] = -1; }
    volatile parsec_list_item_t *p = GHOST->list_next, *prev = GHOST;
    for (; p != GHOST && n < NI + 1; prev = p, p = p->list_next, n++) {
        int k = idx(p);
        if (k < 0 || p->list_prev != prev) { ok = 0; break; }
        in[k]++; pos[k] = n;
    }
    VASSERTM(ok && p == GHOST && GHOST->list_prev == prev, "list well formed: forward and back links agree, ends at the ghost");
    VASSERTM(L.atomic_lock == PARSEC_ATOMIC_UNLOCKED, "lock released");
#ifdef INSERT_RACE
    /* GENERAL oracle for racing insertions (nothing is removed): an independent BACKWARD traversal (list_prev links only)
     * must give exactly the reverse of the forward traversal, every item that was in the list or was inserted is present
     * exactly once in both directions, items that were linked before (old list, argument ring) keep their relative order,
     * ring elements stay contiguous (unsorted chains), sorted insertions leave a non-increasing list. */
    {
        int bin[NI], bpos[NI], bn = 0, bok = 1;
        for (int k = 0; k < NI; k++) { bin[k] = 0; bpos[k] = -1; }
        volatile parsec_list_item_t *q = GHOST->list_prev;
        for (; q != GHOST && bn < NI + 1; q = q->list_prev, bn++) {
            int k = idx(q);
            if (k < 0) { bok = 0; break; }
            bin[k]++; bpos[k] = bn;
        }
        VASSERTM(bok && q == GHOST, "backward traversal (list_prev only) reaches the ghost through known items");
        VASSERTM(bn == n, "forward and backward traversals have the same length");
        for (int k = 0; k < NI; k++) {
            int expected = (k < 4) || (SCEN == 9);
            VASSERTM(in[k] == expected, "forward: every old and every inserted item present exactly once, nothing else");
            VASSERTM(bin[k] == expected, "backward: every old and every inserted item present exactly once, nothing else");
            if (expected) VASSERTM(bpos[k] == n - 1 - pos[k], "backward order is exactly the reverse of the forward order");
        }
        VASSERTM(pos[2] < pos[3], "ring order kept: C before D");
#if SCEN == 9
        VASSERTM(pos[0] < pos[1], "old list order kept: A before B");
        { int sorted = 1; volatile parsec_list_item_t *w = GHOST->list_next;
          for (int s = 0; s + 1 < NI && w != GHOST && w->list_next != GHOST; s++, w = w->list_next)
              if (((item_t*)w)->prio < ((item_t*)w->list_next)->prio) sorted = 0;
          VASSERTM(sorted, "sorted insertions leave the list in non-increasing priority order"); }
        if (pos[4] == 2) VWITNESS("sorted race completed: A C E D B");
#else
        VASSERTM(pos[3] == pos[2] + 1, "ring elements contiguous: D directly after C");
#if SCEN == 8
        VASSERTM(pos[0] == 0, "insertions at the tail: the old item stays first");
#else
        VASSERTM(pos[0] == n - 1, "insertions at the head: the old item stays last");
#endif
        if (pos[1] < pos[2]) VWITNESS("B ends up before the ring");
        if (pos[1] > pos[3]) VWITNESS("B ends up after the ring");
#endif
    }
#endif
#if SCEN == 1
    VASSERTM(in[0] + held(A) == 1 && in[1] + held(B) == 1 && in[2] + held(C) == 1, "A, B, C exactly once (list xor one holder)");
    VASSERTM(r[0] == A && r[1] == B, "FIFO order: the two pops return A then B whatever the interleaving (C is appended behind them)");
    VASSERTM(n == 1 && in[2] == 1, "C remains");
    VWITNESS("scenario 1 completed");
#elif SCEN == 2
    VASSERTM(in[0] + held(A) == 1, "A exactly once");
    VASSERTM((r[0] == A) != (r[1] == A), "exactly one of the two pops gets A");
    VASSERTM((r[0] == A || r[0] == NULL) && (r[1] == A || r[1] == NULL), "the other pop sees an empty list: NULL (pre-check passed, locked pop of the emptied list)");
    VASSERTM(n == 0, "list empty");
    if (r[1] == A) VWITNESS("T1 won");
    if (r[0] == A) VWITNESS("T0 won");
#elif SCEN == 3
    VASSERTM(in[0] == 1 && in[1] == 1 && in[2] == 1 && in[3] == 1 && n == 4, "all four items in the list exactly once");
    VASSERTM(pos[0] == 0 && pos[1] == 3, "sorted: A(5) first, B(3) last, the two 4s in between");
    if (pos[2] < pos[3]) VWITNESS("C before D");
    if (pos[3] < pos[2]) VWITNESS("D before C");
#elif SCEN == 4
    VASSERTM(in[0] + held(A) == 1 && in[2] + held(C) == 1, "A, C exactly once");
    VASSERTM(r[0] != NULL, "T0 pops after its own push: never NULL");
    VASSERTM(r[1] != NULL, "the list is never empty while T1 pops (T0 pushes before it pops): never NULL");
    VASSERTM(r[0] != r[1], "the pops return different items");
    VASSERTM(n == 0, "both items were taken");
    if (r[0] == A && r[1] == C) VWITNESS("T0 takes A from the back, T1 takes C from the front");
    if (r[0] == C && r[1] == A) VWITNESS("T1 first");
#elif SCEN == 5
    VASSERTM(in[0] + held(A) == 1 && in[2] + held(C) == 1, "A, C exactly once");
    VASSERTM(r[0] == A || r[0] == NULL, "try_pop returns the head A or fails on a busy lock");
    VASSERTM(r[0] == A ? (r[1] == C || r[1] == NULL) : (r[1] == A), "FIFO: A leaves before C");
    if (r[0] == NULL) VWITNESS("try_pop lost against the pusher's lock");
    if (r[0] == A && r[1] == C) VWITNESS("both popped in order");
#elif SCEN == 6
    /* unchain takes everything that is in the list at its linearization point, as one ring in order */
    {
        int ring[NI] = {-1, -1, -1, -1}, rn = 0, rok = 1;
        volatile parsec_list_item_t *q = r[0], *pv = GHOST;
        if (q != NULL) pv = q->list_prev;
        for (int s = 0; s < NI && q != NULL; s++) {
            int k = idx(q);
            if (k < 0 || q->list_prev != pv) rok = 0;
            ring[rn] = k; rn++;
            pv = q; q = q->list_next;
            if (q == r[0]) q = NULL;
        }
        VASSERTM(rok && (r[0] == NULL || r[0]->list_prev == pv), "unchained ring well formed");
        VASSERTM(rn + n == 4, "every item is either in the ring taken by unchain or still in the list");
        VASSERTM((rn == 2 && ring[0] == 0 && ring[1] == 1 && n == 2 && pos[2] == 0 && pos[3] == 1) ||
                 (rn == 4 && ring[0] == 0 && ring[1] == 1 && ring[2] == 2 && ring[3] == 3 && n == 0),
                 "unchain before the chain: ring [A,B], list [C,D]; after it: ring [A,B,C,D], list empty");
        if (rn == 2) VWITNESS("unchain first");
        if (rn == 4) VWITNESS("chain first");
    }
#endif
}
