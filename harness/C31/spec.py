from vp.api import Q, Mutant
TITLE = "Lists and dequeues keep their contents and order"
UNITS = ["parsec/class/list.h", "parsec/class/list_item.h", "parsec/class/dequeue.h", "parsec/class/fifo.h"]
OUTSIDE = []
ASSUMPTIONS = []
BOUNDS = {}
CLAIMED = False
OPS = {"push_front": 1, "push_back": 2, "pop_front": 3, "pop_back": 4, "chain_front": 5, "chain_back": 6, "unchain": 7,
       "remove": 8, "add_before": 9, "add_after": 10, "contains": 11, "push_sorted": 12, "chain_sorted": 13, "sort": 14,
       "ring_push_sorted": 15, "ring_push": 16, "ring_merge": 17, "ring_chop": 18, "ring": 19, "is_empty": 20, "iter": 21}
FL = {"nolock": 0, "lock": 1, "dq": 2, "dqnl": 3, "fifo": 4, "fifonl": 5, "try": 6, "dqtry": 7, "fifotry": 8}

def queries(ctx):
    qs = []
    def add(op, fl="nolock", ni=5, nl=4, nr=3, extra=(), name=None, unwind=None, **kw):
        qs.append(Q(name or ("%s_%s" % (op, fl)), ["l.c"], defs=["OP=%d" % OPS[op], "FL=%d" % FL[fl], "NI=%d" % ni, "NL=%d" % nl, "NR=%d" % nr] + list(extra),
                    unwind=unwind or (ni + 2), units=UNITS, object_bits=10, timeout=1800, info={}, **kw))
    for op in OPS:
        add(op)
    return qs

def mutants(ctx):
    return []
