from vp.api import Q, Mutant
from vp.seqir import seqir
TITLE = "Lists and dequeues keep their contents and order"
UNITS = ["parsec/class/list.h", "parsec/class/list_item.h", "parsec/class/dequeue.h", "parsec/class/fifo.h"]
LH, LI, DQ, FF = UNITS
OUTSIDE = ["lists longer than the bound (the step is inductive in the number of operations, not in the list length)",
           "concurrent executions beyond the listed two-thread scenarios (1-2 locked operations per thread, <= 3 scheduling slots per thread, SC memory model)",
           "PARSEC_DEBUG_PARANOID bookkeeping (refcount / belong_to), compiled out in the product build",
           "direction of parsec_list_sort: the code sorts in NON-DECREASING comparison value ('natural order'), i.e. the reverse of the "
           "non-increasing order that push_sorted/chain_sorted maintain and document; both in-tree callers re-insert through chain_sorted, "
           "so this is recorded as an observation, the check asserts monotonicity in the implemented direction"]
ASSUMPTIONS = ["caller contracts from the header comments: a pushed/chained item is not in the list; remove/add_before/add_after get a position that IS in the list "
               "(or the ghost); push_sorted/chain_sorted/ring_push_sorted start from a list/ring in non-increasing priority order",
               "detached items carry arbitrary stale next/prev pointers (symbolic)",
               "queries whose name ends in 'c'/'cp' fix which static item object sits at which position (canonical naming): item objects are "
               "interchangeable because the code compares item addresses only for equality; priorities, lengths and the operation's arguments stay symbolic",
               "conc_* queries (Engine S): ll2c.py translation of the LLVM IR, validated natively on a sequential script at every run; spin iterations of parsec_atomic_lock that re-read unchanged memory are stutter steps and are cut",
               "queries whose name ends in 'p' rewrite COMPARISON_VAL's pointer->uintptr_t->pointer round trip into the equivalent char* arithmetic on an "
               "overlay copy of parsec_config_bottom.h (CBMC loses the target object through the integer cast: 3.5x cost); the others use the product's macro"]
BOUNDS = {"quick": {"list length": "<=4 (basic operations, all front ends), <=3/4 push_sorted, 2+2 chain_sorted, <=4 sort", "ring length": "<=3", "priorities": "any int, ties included",
                    "concurrent": "2 threads, 4 scenarios (incl. chain_front vs push_front and chain_back vs push_back), 3 scheduling slots per thread"},
          "thorough": {"list length": "<=4 (+ chain_sorted 4+3, sort <=5)", "ring length": "<=3", "priorities": "any int", "concurrent": "2 threads, 10 scenarios, 3 scheduling slots per thread (chain_sorted vs push_sorted: 2)"}}
OPS = {"push_front": 1, "push_back": 2, "pop_front": 3, "pop_back": 4, "chain_front": 5, "chain_back": 6, "unchain": 7,
       "remove": 8, "add_before": 9, "add_after": 10, "contains": 11, "push_sorted": 12, "chain_sorted": 13, "sort": 14,
       "ring_push_sorted": 15, "ring_push": 16, "ring_merge": 17, "ring_chop": 18, "ring": 19, "is_empty": 20, "iter": 21}
FL = {"nolock": 0, "lock": 1, "dq": 2, "dqnl": 3, "fifo": 4, "fifonl": 5, "try": 6, "dqtry": 7, "fifotry": 8}
FLNAME = {"nolock": "parsec_list_nolock_*", "lock": "parsec_list_* (locked)", "dq": "parsec_dequeue_*", "dqnl": "parsec_dequeue_nolock_*",
          "fifo": "parsec_fifo_*", "fifonl": "parsec_fifo_nolock_*", "try": "parsec_list_try_*", "dqtry": "parsec_dequeue_try_*", "fifotry": "parsec_fifo_try_*"}
# which front ends exist for which operation
FLAVOURS = {"push_front": ["nolock", "lock", "dq", "dqnl"], "push_back": ["nolock", "lock", "dq", "dqnl", "fifo", "fifonl"],
            "pop_front": ["nolock", "lock", "try", "dq", "dqnl", "dqtry", "fifo", "fifonl", "fifotry"],
            "pop_back": ["nolock", "lock", "try", "dq", "dqnl", "dqtry"],
            "chain_front": ["nolock", "lock", "dq", "dqnl"], "chain_back": ["nolock", "lock", "dq", "dqnl", "fifo", "fifonl"],
            "unchain": ["nolock", "lock"], "add_after": ["nolock", "lock"]}
MS = "parsec_list_nolock_chain_sort_mergesort"
# COMPARISON_VAL(it,off) is (*((int*)(((uintptr_t)(it))+off))) in parsec_config_bottom.h
CVP = [("parsec/include/parsec/parsec_config_bottom.h", r"\(\*\(\(int\*\)\(\(\(uintptr_t\)\(it\)\)\+off\)\)\)", "(*((int*)(((char*)(it))+(off))))")]

def queries(ctx):
    qs = []
    def add(op, fl="nolock", ni=5, nl=4, nr=3, suffix="", unwindset=(), tiers=("quick", "thorough"), timeout=1800, cvp=False, canon=False, slow=False):
        defs = ["OP=%d" % OPS[op], "FL=%d" % FL[fl], "NI=%d" % ni, "NL=%d" % nl, "NR=%d" % nr] + (["CANON=1"] if canon else [])
        qs.append(Q("%s_%s%s" % (op, fl, suffix), ["l.c"], defs=defs, unwind=ni + 2, unwindset=list(unwindset), units=UNITS, object_bits=10,
                    timeout=timeout, tiers=tiers, patches=CVP if cvp else [], slow=slow,
                    info={"symbolic": ["list length 0..%d" % nl, "argument ring length 1..%d (where the operation takes a ring)" % nr, "priorities: any int (ties)",
                                       "position / item the operation is applied to", "stale pointers of detached items", "lock held by somebody else (try_* variants)"]
                                      + ([] if canon else ["which of the %d static item objects sits where (any injective naming)" % ni]),
                          "enumerated": ["operation kind", "front end (%s)" % FLNAME[fl]] + (["canonical item naming"] if canon else []),
                          "stubs": ["none (headers are static inline; atomics are the product's __sync builtins)"],
                          "patches": ["COMPARISON_VAL integer cast -> char* arithmetic (equivalent)"] if cvp else [],
                          "bounds": {"items": ni, "list": nl, "ring": nr, "real loops": list(unwindset)},
                          "functions": [FLNAME[fl].replace("*", op)]}))
    def sort_uw(nl):
        passes = 1 if nl <= 2 else 2 if nl <= 4 else 3
        return [MS + ".3:%d" % (passes + 1), MS + ".2:%d" % ((nl + 1) // 2 + 1), MS + ".0:%d" % ((1 << (passes - 1)) + 1), MS + ".1:%d" % (nl + 1)]
    def cs_uw(nl, nr):
        return ["parsec_list_nolock_chain_sorted.0:%d" % (nl + nr + 1), "parsec_list_nolock_chain_sorted.1:%d" % (nr + 2)]
    for op in OPS:
        if op in ("push_sorted", "chain_sorted", "sort"):
            continue
        for fl in FLAVOURS.get(op, ["nolock"]):
            add(op, fl)
    T = ("thorough",)
    # sorted insertion (stability), product macro, any naming
    add("push_sorted", "nolock", ni=4, nl=3, suffix="_l3")
    add("push_sorted", "lock", ni=4, nl=3, suffix="_l3")
    add("push_sorted", "nolock", ni=5, nl=4, suffix="_l4cp", canon=True, cvp=True)
    add("push_sorted", "nolock", ni=5, nl=4, suffix="_l4", tiers=T, timeout=3400)
    add("chain_sorted", "nolock", ni=4, nl=2, nr=2, suffix="_l2r2c", unwindset=cs_uw(2, 2), canon=True)
    add("chain_sorted", "lock", ni=4, nl=2, nr=2, suffix="_l2r2cp", unwindset=cs_uw(2, 2), canon=True, cvp=True)
    add("chain_sorted", "nolock", ni=5, nl=1, nr=3, suffix="_l1r3cp", unwindset=cs_uw(1, 3), canon=True, cvp=True)
    add("chain_sorted", "nolock", ni=4, nl=2, nr=2, suffix="_l2r2", unwindset=cs_uw(2, 2), tiers=T, timeout=3400)
    add("chain_sorted", "nolock", ni=5, nl=3, nr=2, suffix="_l3r2cp", unwindset=cs_uw(3, 2), canon=True, cvp=True, tiers=T, timeout=3400)
    add("chain_sorted", "nolock", ni=6, nl=3, nr=3, suffix="_l3r3cp", unwindset=cs_uw(3, 3), canon=True, cvp=True, tiers=T, timeout=3400)
    add("chain_sorted", "nolock", ni=7, nl=4, nr=3, suffix="_l4r3cp", unwindset=cs_uw(4, 3), canon=True, cvp=True, tiers=T, timeout=3400)
    add("sort", "nolock", ni=4, nl=4, suffix="_l4c", unwindset=sort_uw(4), canon=True)
    add("sort", "lock", ni=3, nl=3, suffix="_l3cp", unwindset=sort_uw(3), canon=True, cvp=True)
    add("sort", "nolock", ni=3, nl=3, suffix="_l3", unwindset=sort_uw(3), tiers=T, timeout=3400)
    add("sort", "nolock", ni=4, nl=4, suffix="_l4", unwindset=sort_uw(4), tiers=T, timeout=3400)
    add("sort", "nolock", ni=5, nl=5, suffix="_l5cp", unwindset=sort_uw(5), canon=True, cvp=True, tiers=T, timeout=3400)
    # concurrent half (Engine S): two threads on the locked entry points
    SCEN = {1: "push_back_vs_pop_pop", 2: "pop_vs_pop_single_item", 3: "push_sorted_x2_ties", 4: "dequeue_pushfront_popback_vs_popfront",
            5: "fifo_push_vs_trypop_pop", 6: "unchain_vs_chain_back",
            # racing insertions at the same end (general forward/backward/model oracle, see lc.c INSERT_RACE)
            7: "dequeue_chain_front_vs_push_front", 8: "fifo_chain_back_vs_push_back", 9: "chain_sorted_vs_push_sorted", 10: "chain_front_vs_chain_front"}
    for sc, nm in SCEN.items():
        tiers = ("quick", "thorough") if sc in (1, 2, 7, 8) else ("thorough",)
        R = 2 if sc == 9 else 3      # chain_sorted vs push_sorted: no verdict at R=3 (26 min CPU, 7.3 GB when stopped)
        qs.append(Q("conc_%s_r%d" % (nm, R), [], defs=["SCEN=%d" % sc], engine="S", units=UNITS + ["parsec/include/parsec/sys/atomic-gcc.h"],
                    gen=seqir(["lc.c"], threads=["thread0", "thread1"], rounds=R), unwind=8, timeout=2400, slow=True, tiers=tiers,
                    info={"symbolic": ["schedule: every SC interleaving with <= %d scheduling slots per thread" % R],
                          "bounds": {"rounds": R, "threads": 2}, "stubs": [],
                          "functions": ["parsec_list_push_back/push_front/pop_front/push_sorted/chain_sorted/unchain/chain_front/chain_back", "parsec_dequeue_*", "parsec_fifo_*", "parsec_atomic_lock/unlock/trylock"]}))
    return qs

def mutants(ctx):
    return [
        Mutant("push_sorted_forward_before_equals", LH, "                if( A_HIGHER_PRIORITY_THAN_B(newel, pos, off) )\n                    break;",
               "                if( !A_LOWER_PRIORITY_THAN_B(newel, pos, off) )\n                    break;", queries=["push_sorted_nolock_l3", "push_sorted_nolock_l4cp"]),
        Mutant("push_sorted_backward_before_equals", LH, "                if( !A_HIGHER_PRIORITY_THAN_B(newel, pos, off) )", "                if( A_LOWER_PRIORITY_THAN_B(newel, pos, off) )",
               queries=["push_sorted_nolock_l3", "push_sorted_nolock_l4cp"]),
        Mutant("chain_sorted_never_restarts_from_head", LH, "        if( A_HIGHER_PRIORITY_THAN_B(newel, pos, off) )\n        {   /* this newel item is larger than the last insert,",
               "        if( 0 )\n        {   /* this newel item is larger than the last insert,", queries=["chain_sorted_nolock_l2r2c"]),
        Mutant("chain_sorted_before_equals", LH, "            if( A_HIGHER_PRIORITY_THAN_B(newel, pos, off) )\n                break;\n        }\n        parsec_list_nolock_add_before(list, pos, newel);",
               "            if( !A_LOWER_PRIORITY_THAN_B(newel, pos, off) )\n                break;\n        }\n        parsec_list_nolock_add_before(list, pos, newel);", queries=["chain_sorted_nolock_l2r2c"]),
        Mutant("mergesort_direction_flipped", LH, "                } else if (A_LOWER_PRIORITY_THAN_B(p, q, off)) {", "                } else if (A_HIGHER_PRIORITY_THAN_B(p, q, off)) {", queries=["sort_lock_l3cp"]),
        Mutant("mergesort_back_links_not_maintained", LH, "                e->list_prev = tail;", "", queries=["sort_lock_l3cp"]),
        Mutant("ring_push_sorted_returns_item_at_end", LI, "    if( success && (ring == position) ) return item;", "    if( ring == position ) return item;", queries=["ring_push_sorted_nolock"]),
        Mutant("fifo_push_is_lifo", FF, "    parsec_list_push_back((parsec_list_t*)fifo, item);", "    parsec_list_push_front((parsec_list_t*)fifo, item);", queries=["push_back_fifo"]),
        Mutant("dequeue_pop_back_pops_front", DQ, "    return parsec_list_pop_back((parsec_list_t*)dequeue);", "    return parsec_list_pop_front((parsec_list_t*)dequeue);", queries=["pop_back_dq"]),
        Mutant("add_after_back_link_missing", LH, "    position->list_next->list_prev = newel;", "", queries=["add_after_nolock"]),
        Mutant("pop_front_without_lock", LH, "    parsec_list_lock(list);\n    parsec_list_item_t* item = parsec_list_nolock_pop_front(list);\n    parsec_list_unlock(list);",
               "    parsec_list_item_t* item = parsec_list_nolock_pop_front(list);", queries=["conc_pop_vs_pop_single_item_r3"]),
        Mutant("push_back_reads_tail_before_lock", LH, "    parsec_list_lock(list);\n    item->list_prev = _TAIL(list);\n    _TAIL(list)->list_next = item;",
               "    item->list_prev = _TAIL(list);\n    parsec_list_lock(list);\n    _TAIL(list)->list_next = item;", queries=["conc_push_back_vs_pop_pop_r3"]),
        Mutant("chain_front_reads_head_before_lock", LH, "    parsec_list_lock(list);\n    tail->list_next = _HEAD(list);\n    _HEAD(list)->list_prev = tail;",
               "    tail->list_next = _HEAD(list);\n    parsec_list_lock(list);\n    _HEAD(list)->list_prev = tail;", queries=["conc_dequeue_chain_front_vs_push_front_r3"]),
        Mutant("chain_back_reads_tail_before_lock", LH, "    parsec_list_lock(list);\n    items->list_prev = _TAIL(list);\n    _TAIL(list)->list_next = items;",
               "    items->list_prev = _TAIL(list);\n    parsec_list_lock(list);\n    _TAIL(list)->list_next = items;", queries=["conc_fifo_chain_back_vs_push_back_r3"]),
        Mutant("pop_front_leaves_lock_taken", LH, "    parsec_list_item_t* item = parsec_list_nolock_pop_front(list);\n    parsec_list_unlock(list);\n    return item;",
               "    parsec_list_item_t* item = parsec_list_nolock_pop_front(list);\n    return item;", queries=["pop_front_lock"]),
    ]

CLAIMED = True
MANIFEST = {
 "engine": "cbmc-src",
 "text": "Bounded model checking of the real list.h / list_item.h / dequeue.h / fifo.h, one operation from every valid pre-state: the solver chooses the list (0..4 items out of 5 static objects, any naming), the priorities (any int, ties included), stale pointers of detached items, the argument ring (1..3 items) and the position; after ONE real operation the pointer structure is read back (forward links, back links, termination at the ghost) and compared position by position with a sequence model.  Covered: push/pop front/back, chain front/back, unchain, remove, add_before/after, contains, is_empty, the iterator macros, every parsec_list_* locked variant, every parsec_dequeue_* and parsec_fifo_* wrapper (sequential effect, lock released, try_pop with the lock held elsewhere returns NULL and changes nothing), push_sorted and chain_sorted (list stays non-increasing, the new element goes AFTER existing elements of equal priority, ring order kept among equals), ring_push_sorted (documented position, returned head is the maximum), ring push/merge/chop/close, and the mergesort behind parsec_list_sort (permutation, monotone, links intact).  Concurrent half (IR-level sequentialization, every SC interleaving with <= 3 scheduling slots per thread): two threads running locked list / dequeue / fifo operations (push_back vs two pop_front, two pop_front racing for one item -- the unlocked emptiness pre-check followed by a locked pop of the emptied list returns NULL --, two push_sorted with tied priorities, push_front+pop_back vs pop_front, fifo push vs try_pop+pop, unchain vs chain_back, and insertions racing at the same end: chain_front vs push_front, chain_back vs push_back, chain_front vs chain_front, chain_sorted vs push_sorted -- there an independent backward traversal must be the exact reverse of the forward one, every old and inserted item present exactly once in both, ring elements contiguous and in order) leave a well-formed list, conserve every item, release the lock and return results consistent with a sequential order.",
 "note": "Concurrency: two threads, the listed scenarios, SC memory model, bounded context switches.  parsec_list_sort orders by NON-DECREASING value, the reverse of what push_sorted maintains; asserted as implemented and recorded as an observation.  Expensive queries use canonical item naming and an equivalent rewrite of COMPARISON_VAL (listed per query).",
 "technique": "CBMC bounded symbolic execution of the real headers from symbolic valid pre-states (inductive step per operation) + SAT (cadical), exact comparison with a sequence model; IR-level sequentialization (ll2c.py) + CBMC for the two-thread scenarios",
}
