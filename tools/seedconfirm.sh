#!/bin/bash
# tools/seedconfirm.sh <id>...  : for each seed in /tmp/seed-out/<id>: run its demo against the built scratch tree
# /tmp/wt-seed WITHOUT the change, then apply patch.diff there, rebuild incrementally, run the demo WITH the change,
# revert and rebuild.  Prints "<id> without rc=.. with rc=.." (expected: 0 and non-zero).
WT=/tmp/wt-seed
export OMPI_ALLOW_RUN_AS_ROOT=1 OMPI_ALLOW_RUN_AS_ROOT_CONFIRM=1
run_demo() { # id tag
  local id=$1 tag=$2 d=/tmp/seed-out/$1 out=/tmp/seedconfirm_$1_$2.log rc
  ( cd $d
    if [ "$id" = C16 ]; then ./build.sh $WT >/dev/null 2>&1 && timeout 600 ./demo.sh
    elif [ -f ./demo.sh ]; then timeout 1500 sh ./demo.sh $WT
    else
         gcc -O1 -g -D_GNU_SOURCE -std=gnu11 -mcx16 $(mpicc --showme:compile) -I$WT -I$WT/parsec/include -I$WT/_build/parsec/include -I$WT/_build demo.c -o /tmp/demo_$id \
             -L$WT/_build/parsec -lparsec -Wl,-rpath,$WT/_build/parsec $(mpicc --showme:link) -lpthread -lm 2>&1 | tail -3
         timeout 900 /tmp/demo_$id
    fi ) > $out 2>&1; rc=$?
  echo "$id $tag rc=$rc | $(tail -1 $out | cut -c1-140)"
}
for id in "$@"; do
  (cd $WT && git checkout -q -- . && cmake --build _build -j8 >/dev/null 2>&1)
  run_demo $id without
  (cd $WT && git apply /tmp/seed-out/$id/patch.diff && cmake --build _build -j8 >/dev/null 2>&1) || echo "$id: patch/build failed"
  run_demo $id with
  (cd $WT && git checkout -q -- .)
done
(cd $WT && cmake --build _build -j8 >/dev/null 2>&1)
