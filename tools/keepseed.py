#!/usr/bin/env python3
"""keepseed.py <id> <seed-out-dir> <needs> <checks-run...>: copy a confirmed seeded change into /verif/seeded/<id>/ with meta.json"""
import json, os, shutil, sys
sid, src, needs = sys.argv[1], sys.argv[2], sys.argv[3]
extra = json.loads(sys.argv[4]) if len(sys.argv) > 4 else {}
dst = os.path.join('/verif/seeded', sid)
os.makedirs(dst, exist_ok=True)
for f in os.listdir(src):
    if os.path.isdir(os.path.join(src, f)) or (f.endswith(".log") and os.path.getsize(os.path.join(src, f)) > 200000): continue
    shutil.copy(os.path.join(src, f), dst)
meta = {"seed": sid, "property": extra.get("property", sid[:3]), "breaks": extra.get("breaks", ""), "needs_to_manifest": needs,
        "origin": "independent sub-agent given only the property text and a scratch worktree",
        "confirmed_by_coordinator": extra.get("confirmed", {}), "detected_by": extra.get("detected_by", []), "not_detected_by": extra.get("missed_by", [])}
json.dump(meta, open(os.path.join(dst, 'meta.json'), 'w'), indent=1)
print("kept", dst)
