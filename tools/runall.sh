#!/bin/bash
# tools/runall.sh [tier]  -- run every claimed check once, sequentially, summarise (used before committing evidence)
cd /verif || exit 2
tier=${1:-quick}
ids=$(python3 -c "import json;print(' '.join(c['property_id'] for c in json.load(open('MANIFEST.json'))['checks']))")
mkdir -p /tmp/runall; rc_all=0
for id in $ids; do
  t0=$(date +%s)
  ./check $id --tier $tier > /tmp/runall/$id.log 2>&1; rc=$?
  t1=$(date +%s)
  echo "$id rc=$rc $((t1-t0))s $(grep -c KNOWN-FINDING /tmp/runall/$id.log) known-finding line(s) | $(tail -1 /tmp/runall/$id.log | cut -c1-120)"
  [ $rc -ne 0 ] && rc_all=1
done
exit $rc_all
