#!/usr/bin/env python3
"""Regenerate the findings table of DESIGN.md section 10 (between FINDINGS markers) from known_findings.json"""
import json, re
d = json.load(open('/verif/known_findings.json'))['findings']
why = {  # why a finding is recorded rather than repaired
 'C22-mapop-multi-vp': 'the repair rewrites the start-up loop and drops the VP filter (changes placement): not small and safe',
 'C23-derived-param-print': 'generator change (two sites in jdf2c.c) that alters the key encoding of every class with a derived parameter',
 'C01-descending-range': '40-line generator change in three places',
 'C40-rr-unimplemented': 'the repair implements the unfinished rr: feature (25 new lines)',
 'C40-file-parser': 'the repair rewrites the file parser in seven places',
 'C13-chain-relay-differing-dests': 'the repair changes the relay design (falls back to star when destination sets differ) and cannot be validated by the single-process test suite',
 'C05-chain-relay-differing-dests': 'same defect as C13-chain-relay-differing-dests seen as message-path dependence',
 'C03-same-tile-twice': '55-line change in the DTD successor walk',
}
rows = []
for f in d:
    st = f['status']
    rows.append('| %s | %s | %s | %s |' % (f['id'], f['property'], f.get('what', '').replace('|', '/').replace('\n', ' ')[:260],
                ('fixed %s' % f.get('commit', '')) if st == 'fixed' else 'known (%s)' % why.get(f['id'], 'repair not small and safe')))
nf = sum(1 for f in d if f['status'] == 'fixed')
txt = ('<!-- FINDINGS-BEGIN -->\n%d genuine defects: %d repaired by `fix:` commits, %d recorded as known findings.\n\n| id | property | what fails | status |\n|----|----------|------------|--------|\n' % (len(d), nf, len(d) - nf)
       + '\n'.join(rows) + '\n<!-- FINDINGS-END -->')
p = '/verif/DESIGN.md'; s = open(p).read()
if '<!-- FINDINGS-BEGIN -->' in s:
    s = re.sub(r'<!-- FINDINGS-BEGIN -->.*?<!-- FINDINGS-END -->', lambda _: txt, s, flags=re.S)
else:
    a = s.index('| id | property | what fails | status |'); b = s.index('(The C13 chain/binomial relay defect of')
    s = s[:a] + txt + '\n\n' + s[b:]
open(p, 'w').write(s); print(len(d), 'findings', nf, 'fixed')
