#!/bin/bash
# tools/thorough_validate.sh <cap seconds> <id>... : run the thorough tier (no mutants) of each property under a wall cap,
# append "<id> rc secs" to /tmp/thorough_results.txt
cap=$1; shift
cd /verif
for id in "$@"; do
  t0=$(date +%s)
  VP_JOBS=${VP_JOBS:-8} timeout $cap ./check $id --tier thorough --no-mutants --no-evidence > /tmp/thorough_$id.log 2>&1; rc=$?
  pkill -f "cbmc /tmp/vp[.]$id[.]" 2>/dev/null
  echo "$id $rc $(( $(date +%s)-t0 ))" >> /tmp/thorough_results.txt
done
