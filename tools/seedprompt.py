#!/usr/bin/env python3
"""seedprompt.py <n> <id> <id> ...: print the prompt for seeder number n (property text only, nothing else from /verif)"""
import json, sys
n = sys.argv[1]; ids = sys.argv[2:]
props = {json.loads(l)['id']: json.loads(l) for l in open('/verif/properties.jsonl') if l.strip()}
out = ["Read /tmp/SEEDER_BRIEF.md and follow it exactly. Your scratch worktree path <WT> is /tmp/seedwt%s (output under /tmp/seed-out/<property id>/). Do not read anything under /verif. The machine is shared: build with -j6, run ctest with -j4 (PaRSEC tests spin on all cores), and never leave test processes running after a timeout (kill them). If the single test dsl/dtd/task_generation times out under load, say so and re-run it alone; it is a known load-sensitive benchmark.\n" % n]
for i in ids:
    p = props[i]
    out.append("Property %s — \"%s\": %s (Quantified over: %s Anchored in: %s; mechanisms: %s)\n" % (
        i, p['title'], p['statement'], p['quantifier']['text'], ', '.join(p['anchors']['files']),
        '; '.join('%s [%s]' % (m.get('name'), m.get('where')) for m in p['anchors'].get('mechanism', []))))
print('\n'.join(out))
