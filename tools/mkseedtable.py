#!/usr/bin/env python3
"""Regenerate the seeded-change table of DESIGN.md (between the SEEDS markers) from seeded/*/meta.json"""
import json, glob, os, re
rows = []
for m in sorted(glob.glob('/verif/seeded/*/meta.json')):
    d = json.load(open(m)); name = os.path.basename(os.path.dirname(m))
    det = d.get('detected_by') or []; mis = d.get('not_detected_by') or []
    cell = lambda xs: '<br>'.join(x.replace('|', '/').replace('./check ', '') for x in xs) or '—'
    rows.append('| %s | %s | %s | %s | %s |' % (name, d['property'], d.get('needs_to_manifest', '').replace('|', '/'), cell(det), cell(mis)))
n = len(rows); caught = sum(1 for m in glob.glob('/verif/seeded/*/meta.json') if json.load(open(m)).get('detected_by'))
txt = ('<!-- SEEDS-BEGIN -->\n%d seeded changes kept, %d reported by a registered check (quick tier unless stated), %d not detected.\n\n'
       '| seed | property | needs to manifest | reported by | missed by / remarks |\n|------|----------|-------------------|-------------|---------------------|\n' % (n, caught, n - caught)
       + '\n'.join(rows) + '\n<!-- SEEDS-END -->')
p = '/verif/DESIGN.md'; s = open(p).read()
if '<!-- SEEDS-BEGIN -->' in s:
    s = re.sub(r'<!-- SEEDS-BEGIN -->.*?<!-- SEEDS-END -->', lambda _: txt, s, flags=re.S)
else:
    a = s.index('| seed | property | needs to manifest | caught by |'); b = s.index('## 12. As built')
    s = s[:a] + txt + '\n\n' + s[b:]
open(p, 'w').write(s); print(n, 'seeds,', caught, 'caught')
