#!/bin/bash
# tools/seedcheck.sh "<seed-id>:<check> <check>..." ... : run checks against a scratch source tree with the seed applied
WT=/tmp/wt-chk
[ -d $WT ] || git -C /repo worktree add --detach $WT HEAD >/dev/null 2>&1
cd /verif
for spec in "$@"; do
  id=${spec%%:*}; checks=${spec#*:}
  (cd $WT && git checkout -q -- . && git checkout -q --detach $(git -C /repo rev-parse HEAD) && git apply /tmp/seed-out/$id/patch.diff) || { echo "$id: patch failed"; continue; }
  for c in $checks; do
    VP_REPO=$WT VP_JOBS=${VP_JOBS:-6} VP_REPLAY_DIR=/tmp/seedrep timeout 3000 ./check $c --no-evidence > /tmp/seedcheck_${id}_$c.log 2>&1; rc=$?
    echo "seed $id check $c rc=$rc : $(grep -E 'violation' /tmp/seedcheck_${id}_$c.log | sed 's/ \+/ /g' | cut -c1-150 | head -3 | tr '\n' ';') $(grep -c 'INTERNAL-ERROR' /tmp/seedcheck_${id}_$c.log) internal-error(s)"
  done
  (cd $WT && git checkout -q -- .)
done
