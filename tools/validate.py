#!/usr/bin/env python3-vt
"""validate MANIFEST.json and every evidence file against the schemas; list claimed checks without evidence"""
import json, jsonschema, os, sys
V='/verif'
man=json.load(open(V+'/MANIFEST.json')); jsonschema.validate(man, json.load(open('/root/.vp/MANIFEST.schema.json')))
es=json.load(open('/root/.vp/EVIDENCE.schema.json'))
bad=0
for c in man['checks']:
    p=c['evidence_file']
    if not os.path.exists(p): print('MISSING evidence', c['property_id']); bad+=1; continue
    try:
        e=json.load(open(p)); jsonschema.validate(e, es)
        cov=e['coverage']
        print('%s ok tier=%s evals=%d nontrivial=%d wall=%.0fs viol=%s mutants_killed=%s' % (c['property_id'], e['tier'], cov['evaluations'], cov['distinct_nontrivial'], e['wall_s'], e.get('violations'), cov.get('mutants_killed')))
    except Exception as ex:
        print('INVALID', c['property_id'], str(ex)[:200]); bad+=1
ids={json.loads(l)['id'] for l in open(V+'/properties.jsonl') if l.strip()}
cl={c['property_id'] for c in man['checks']}; na={n['property_id'] for n in man.get('not_applicable',[])}
print('claimed', len(cl), 'not_applicable', len(na), 'unaccounted', sorted(ids-cl-na), 'both', sorted(cl&na))
sys.exit(1 if bad else 0)
