/*
 * Copyright (c) 2026      NVIDIA Corporation.  All rights reserved.
 */

#ifndef PARSEC_CONFIG_H_HAS_BEEN_INCLUDED
#define PARSEC_CONFIG_H_HAS_BEEN_INCLUDED

/* #undef PARSEC_NEED_POSIX_C_SOURCE_FOR_RAND_R */
#if defined(PARSEC_NEED_POSIX_C_SOURCE_FOR_RAND_R) && \
    (!defined(_POSIX_C_SOURCE) || (_POSIX_C_SOURCE < 199506L))
#undef _POSIX_C_SOURCE
#define _POSIX_C_SOURCE 199506L
#endif

/* This file contains the OS dependent capabilities, and should be generic for
 * all compilers on a particular architecture. It is used during the PaRSEC build to
 * import all OS dependent features, but once PaRSEC installed this file will
 * become the parsec_config.h and will hide all compiler dependent features used
 * during PaRSEC compilation.
 */
/** @brief Define the compilation date of the runtime */
#define PARSEC_COMPILE_DATE "2026-09-12T03:53:25"
/** @brief Define the PaRSEC major version number */
#define PARSEC_VERSION_MAJOR 4
/** @brief Define the PaRSEC minor version number */
#define PARSEC_VERSION_MINOR 1
/** @brief Define the PaRSEC patch version number */
#define PARSEC_VERSION_RELEASE 0
/** @brief Define the branch that was compiled */
#define PARSEC_GIT_BRANCH "main"
/** @brief Define the commit hash that was compiled */
#define PARSEC_GIT_HASH "dec067b"
/** @brief Define the changes to the commit hash that was compiled */
#define PARSEC_GIT_DIRTY "no"
/** @brief Define the commit date of the runtime */
#define PARSEC_GIT_DATE "2000-01-01T00:00:00+00:00"

/* OS dependent capabilities */
#define PARSEC_HAVE_PTHREAD
#define PARSEC_HAVE_SCHED_SETAFFINITY
#define PARSEC_HAVE_TIMERSUB
#define PARSEC_HAVE_CLOCK_GETTIME
#define PARSEC_HAVE_CLOCK_GETTIME_MONOTONIC
#define PARSEC_HAVE_ASPRINTF
#define PARSEC_HAVE_VASPRINTF
#define PARSEC_HAVE_RAND_R
#define PARSEC_HAVE_RANDOM
#define PARSEC_HAVE_ERAND48
#define PARSEC_HAVE_NRAND48
#define PARSEC_HAVE_LRAND48
#define PARSEC_HAVE_GETLINE
#define PARSEC_HAVE_READLINK
#define PARSEC_HAVE_SETENV
#define PARSEC_HAVE_STDARG_H
#define PARSEC_HAVE_UNISTD_H
#define PARSEC_HAVE_SYS_PARAM_H
#define PARSEC_HAVE_SYS_TYPES_H
#define PARSEC_HAVE_SYSLOG_H
#define PARSEC_HAVE_VA_COPY
/* #undef PARSEC_HAVE_UNDERSCORE_VA_COPY */
#define PARSEC_HAVE_GETOPT_LONG
#define PARSEC_HAVE_GETRUSAGE
#define PARSEC_HAVE_RUSAGE_THREAD
#define PARSEC_HAVE_GETOPT_H
#define PARSEC_HAVE_ERRNO_H
#define PARSEC_HAVE_STDDEF_H
#define PARSEC_HAVE_STDBOOL_H
#define PARSEC_HAVE_CTYPE_H
#define PARSEC_HAVE_LIMITS_H
#define PARSEC_HAVE_STRING_H
#define PARSEC_HAVE_GEN_H
#define PARSEC_HAVE_COMPLEX_H
#define PARSEC_HAVE_EXECINFO_H
#define PARSEC_HAVE_SYS_MMAN_H
#define PARSEC_HAVE_DLFCN_H
#define PARSEC_HAVE_SYSCONF
#define PARSEC_HAVE_ATTRIBUTE_DEPRECATED

/* Compiler Specific Options */
#define PARSEC_ATOMIC_HAS_ATOMIC_CAS_INT128
#define PARSEC_HAVE_INT128

/* Scheduling engine */
#define PARSEC_SCHED_DEPS_MASK

/* Communication engine */
#define PARSEC_DIST_WITH_MPI
#define PARSEC_MPI_IS_GPU_AWARE
#define PARSEC_DIST_THREAD
#define PARSEC_DIST_PRIORITIES
#define PARSEC_DIST_COLLECTIVES
#define PARSEC_DIST_SHORT_LIMIT 1

/* GPU Support */
/* #undef PARSEC_GPU_ALLOC_PER_TILE */
#define PARSEC_GPU_WITH_CUDA
/* #undef PARSEC_HAVE_CU_COMPILER */
#define PARSEC_GPU_WITH_HIP
#define PARSEC_GPU_WITH_LEVEL_ZERO
/* #undef PARSEC_GPU_WITH_OPENCL */

/* debug */
/* #undef PARSEC_DEBUG */
/* #undef PARSEC_DEBUG_PARANOID */
/* #undef PARSEC_DEBUG_NOISIER */
/* #undef PARSEC_DEBUG_HISTORY */
/* #undef PARSEC_LIFO_USE_ATOMICS */

/* profiling */
/* #undef PARSEC_PROF_TRACE */
/* #undef PARSEC_PROF_TRACE_NVTX */
/* #undef PARSEC_PROF_TRACE_PTG_INTERNAL_INIT */
/* #undef PARSEC_PROF_RUSAGE_EU */
/* #undef PARSEC_PROF_TRACE_SCHEDULING_EVENTS */
/* #undef PARSEC_PROF_TRACE_ACTIVE_ARENA_SET */
/* #undef PARSEC_PROF_GRAPHER */
/* #undef PARSEC_PROF_DRY_RUN */
/* #undef PARSEC_PROF_DRY_BODY */
/* #undef PARSEC_PROF_DRY_DEP */

/* Software Defined Events through PAPI-SDE */
/* #undef PARSEC_PAPI_SDE */

/* Instrumenting (PINS) */
#define PARSEC_PROF_PINS

/* Simulating */
/* #undef PARSEC_SIM */

/* Configuration parameters */
#define PARSEC_WANT_HOME_CONFIG_FILES

/* Compiler and flags used to compile PaRSEC generated sources */
#define CMAKE_PARSEC_C_COMPILER   "/usr/bin/cc"
#define CMAKE_PARSEC_C_FLAGS      "-Wno-error"
#define CMAKE_PARSEC_C_INCLUDES   "/usr/local/include;/usr/include;/usr/lib/x86_64-linux-gnu/openmpi/include;/usr/lib/x86_64-linux-gnu/openmpi/include/openmpi"

#define PARSEC_HAVE_HWLOC
#define PARSEC_HAVE_PAPI
#define PARSEC_HAVE_MPI
#define PARSEC_HAVE_MPI_20
#define PARSEC_HAVE_MPI_30
#define PARSEC_HAVE_MPI_OVERTAKE
/* #undef PARSEC_HAVE_AYUDAME */

#define PARSEC_HAVE_DEV_CPU_SUPPORT
/* #undef PARSEC_HAVE_DEV_RECURSIVE_SUPPORT */
#define PARSEC_HAVE_DEV_CAPABILITY_BATCH 1
/* #undef PARSEC_HAVE_DEV_CUDA_SUPPORT */
/* #undef PARSEC_HAVE_DEV_HIP_SUPPORT */
/* #undef PARSEC_HAVE_DEV_LEVEL_ZERO_SUPPORT */
/* #undef PARSEC_HAVE_DEV_OPENCL_SUPPORT */

#define PARSEC_INSTALL_PREFIX "/usr/local"
/* Default PATH to look for the CUDA .so files */
#define PARSEC_LIB_CUDA_PREFIX "."
#define PARSEC_LIB_HIP_PREFIX "."
#define PARSEC_LIB_LEVEL_ZERO_PREFIX "."

#define PARSEC_SIZEOF_VOID_P 8
#define PARSEC_SIZEOF_SIZE_T 8

/* The max number of local variables for each task */
#define MAX_LOCAL_COUNT   20
/* The max number of parameter variables for each task */
#define MAX_PARAM_COUNT   20
/* The max number of input dependencies (not flows) for each task */
#define MAX_DEP_IN_COUNT  10
/* The max number of output dependencies (not flows) for each task */
#define MAX_DEP_OUT_COUNT 10

#include "parsec/parsec_config_bottom.h"

#endif  /* PARSEC_CONFIG_H_HAS_BEEN_INCLUDED */
