/*
 * Copyright (c) 2019-2022 The University of Tennessee and The University
 *                         of Tennessee Research Foundation.  All rights
 *                         reserved.
 */

#ifndef LIFO_EXTERNAL_H_HAS_BEEN_INCLUDED
#define LIFO_EXTERNAL_H_HAS_BEEN_INCLUDED

#if defined(PARSEC_ATOMIC_ACCESS_TO_INTERNALS_ALLOWED)
#error "This file should never be used while building PaRSEC internally"
#endif  /* defined(PARSEC_ATOMIC_ACCESS_TO_INTERNALS_ALLOWED) */

#include "parsec/class/list_item.h"

BEGIN_C_DECLS

/**
 * @brief opaque structure to hold a LIFO
 */
typedef struct parsec_lifo_opaque_s parsec_lifo_t;
PARSEC_DECLSPEC PARSEC_OBJ_CLASS_DECLARATION(parsec_lifo_t);
struct parsec_lifo_opaque_s {
    parsec_object_t           super;
    uint8_t                   alignment;
    union {
#if defined(PARSEC_ATOMIC_HAS_ATOMIC_CAS_INT128)
        __int128_t            int128_private;
#else
        int64_t               int64_private;
#endif  /* defined(PARSEC_ATOMIC_HAS_ATOMIC_CAS_INT128) */
        char                  lifo_private[16];
    };
    /* IMPORTANT:
     *  This structure needs to be kept in sync both with the
     *  beginning of parsec_lifo_s ***AND*** with the structure
     *  in src_root/CMakeLists.txt to match both the offset of
     *  the lifo_private member as well as the alignment of the
     *  LIFO itself. Both these checks can be done during CMake.
     *
     *  The alignment of this struct must be as restrictive as the
     *  alignment of the internal parsec_lifo_t, to ensure that the
     *  contained fields have the correct alignment even for static
     *  objects.
     */
};

/**
 * @brief check if the LIFO is empty
 *
 * @param[inout] lifo the LIFO to check
 * @return 0 if lifo is not empty, 1 otherwise
x*
 * @remark this function is thread safe
 */
PARSEC_DECLSPEC int
parsec_lifo_is_empty( parsec_lifo_t* lifo );

/**
 * @brief check if the LIFO is empty, without forcing atomicity.
 *
 * @param[inout] lifo the LIFO to check
 * @return 0 if lifo is not empty, 1 otherwise
 *
 * @remark this function is not thread safe
 */
PARSEC_DECLSPEC int
parsec_nolock_lifo_is_empty( parsec_lifo_t* lifo );

/**
 * @brief Push an element in the LIFO
 *
 * @details push an element at the front of the LIFO
 *
 * @param[inout] lifo the LIFO into which to push the element
 * @param[inout] item the element to push in lifo
 *
 * @remark this function is thread safe
 */
PARSEC_DECLSPEC void
parsec_lifo_push(parsec_lifo_t* lifo, parsec_list_item_t* item);

/**
 * @brief Push an element in the LIFO, without forcing atomicity.
 *
 * @details push an element at the front of the LIFO
 *
 * @param[inout] lifo the LIFO into which to push the element
 * @param[inout] item the element to push in lifo
 *
 * @remark this function is not thread safe
 */
PARSEC_DECLSPEC void
parsec_lifo_nolock_push(parsec_lifo_t* lifo, parsec_list_item_t* item);

/**
 * @brief Chain a ring of elements in front of a LIFO
 *
 * @details Take a ring of elements (items->prev points to the last
 *          element in items), and push all the elements of items in
 *          front of the LIFO, preserving the order in items.
 *
 * @param[inout] lifo the LIFO into which to push the elements
 * @param[inout] items the elements ring to push in front
 *
 * @remark this function is thread safe
 */
PARSEC_DECLSPEC void
parsec_lifo_chain(parsec_lifo_t* lifo, parsec_list_item_t* items);

/**
 * @brief Chain a ring of elements in front of a LIFO, without
 *        forcing atomicity.
 *
 * @details Take a ring of elements (items->prev points to the last
 *          element in items), and push all the elements of items in
 *          front of the LIFO, preserving the order in items.
 *
 * @param[inout] lifo the LIFO into which to push the elements
 * @param[inout] items the elements ring to push in front
 *
 * @remark this function is not thread safe
 */
PARSEC_DECLSPEC void
parsec_lifo_nolock_chain(parsec_lifo_t* lifo, parsec_list_item_t* items);

/**
 * @brief Pop an element from the LIFO
 *
 * @details Pop the first element in the LIFO
 *
 * @param[inout] lifo the LIFO from which to pop the element
 * @return the element that was removed from the LIFO (NULL if
 *         the LIFO was empty)
 *
 * @remark this function is thread safe
 */
PARSEC_DECLSPEC parsec_list_item_t*
parsec_lifo_pop(parsec_lifo_t* lifo);

/**
 * @brief Try popping an element from the LIFO
 *
 * @details Try popping the first element in the LIFO
 *
 * @param[inout] lifo the LIFO from which to pop the element
 * @return the element that was removed from the LIFO (NULL if
 *         the LIFO was empty)
 *
 * @remark this function is thread safe
 */
PARSEC_DECLSPEC parsec_list_item_t*
parsec_lifo_try_pop(parsec_lifo_t* lifo);

/**
 * @brief Pop an element from the LIFO, without forcing atomicity.
 *
 * @details Pop the first element in the LIFO
 *
 * @param[inout] lifo the LIFO from which to pop the element
 * @return the element that was removed from the LIFO (NULL if
 *         the LIFO was empty)
 *
 * @remark this function is not thread safe
 */
PARSEC_DECLSPEC parsec_list_item_t*
parsec_lifo_nolock_pop(parsec_lifo_t* lifo);

/**
 * @brief Allocate a lifo item.
 *
 * @details Allocate an element that is correctly aligned to be 
 * used in the lifo. One may change the alignment of elements before
 * allocating the first item in the lifo by changing lifo->alignment.
 *
 * @param[in] lifo the LIFO the element will be used with.
 * @return The element that was allocated.
 */
PARSEC_DECLSPEC parsec_list_item_t*
parsec_lifo_item_alloc(parsec_lifo_t* lifo, size_t truesize);

/**
 * @brief Free a lifo item.
 *
 * @details Free an item that was allocated by parsec_lifo_item_alloc.
 *
 * @param[inout] item the LIFO the element to free.
 *
 * @return none.
 *
 * @remarks The item must not be present in any lifo.
 */
PARSEC_DECLSPEC void
parsec_lifo_item_free(parsec_list_item_t* item);

END_C_DECLS

#endif  /* LIFO_EXTERNAL_H_HAS_BEEN_INCLUDED */
