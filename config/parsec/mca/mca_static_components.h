#ifndef _MCA_STATIC_COMPNENTS_H
#define _MCA_STATIC_COMPNENTS_H

#ifndef MCA_REPOSITORY_C
#error This file must be included once only, and by mca_repository.c only
#endif

#include "parsec/parsec_config.h"
#include "parsec/mca/mca.h"
#include "parsec/utils/mca_param.h"
#include "parsec/utils/output.h"
#include <assert.h>

#define MCA_NB_STATIC_COMPONENTS 17

mca_base_component_t *pins_iterators_checker_static_component(void);
mca_base_component_t *pins_print_steals_static_component(void);
mca_base_component_t *pins_ptg_to_dtd_static_component(void);
mca_base_component_t *sched_ap_static_component(void);
mca_base_component_t *sched_gd_static_component(void);
mca_base_component_t *sched_ip_static_component(void);
mca_base_component_t *sched_lfq_static_component(void);
mca_base_component_t *sched_lhq_static_component(void);
mca_base_component_t *sched_ll_static_component(void);
mca_base_component_t *sched_llp_static_component(void);
mca_base_component_t *sched_ltq_static_component(void);
mca_base_component_t *sched_pbq_static_component(void);
mca_base_component_t *sched_rnd_static_component(void);
mca_base_component_t *sched_spq_static_component(void);
mca_base_component_t *termdet_fourcounter_static_component(void);
mca_base_component_t *termdet_local_static_component(void);
mca_base_component_t *termdet_user_trigger_static_component(void);

static mca_base_component_t *mca_static_components[MCA_NB_STATIC_COMPONENTS+1] = { NULL, };

static int add_static_component(mca_base_component_t *c, int p)
{
    if( NULL == c )
        return p;
    assert( p < MCA_NB_STATIC_COMPONENTS );    mca_static_components[p] = c;
    mca_static_components[p+1] = NULL;
    return p+1;
}

static void register_base_component(const char *cname)
{
    char *help, *ignored;
    int rc;

    rc = asprintf(&help, "Default selection set of components for the %s framework "
                  "(<not set> means use all components that can be found)", cname);
    rc = parsec_mca_param_reg_string_name("mca", cname,
                                          help,
                                          false, false,
                                          NULL, &ignored);
    if( 0 < rc ) {  /* parameter successfully registered */
        /* Create a synonym to facilitate the MCA params */
        (void)parsec_mca_param_reg_syn_name(rc, NULL, cname, false);
    }
    free(help);
    rc = asprintf(&help, "Verbosity level for the %s framework (default: 0). "
                  "Valid values: -1:\"none\", 0:\"error\", 10:\"component\", 20:\"warn\", "
                  "40:\"info\", 60:\"trace]\", 80:\"debug\", 100:\"max]\", 0 - 100", cname);
    parsec_mca_param_reg_int_name(cname, "verbose",
                                  help, false, false,
                                  0, (int*)&ignored);
    free(help);
    (void)ignored;
    (void)rc;
}

static void mca_static_components_init(void)
{
    static int mca_static_components_inited = 0;
    int p = 0;
    if (mca_static_components_inited) {
        return;
    }
    mca_static_components_inited = 1;

      register_base_component("device");
    p = add_static_component(pins_iterators_checker_static_component(), p);
    p = add_static_component(pins_print_steals_static_component(), p);
    p = add_static_component(pins_ptg_to_dtd_static_component(), p);  register_base_component("pins");
    p = add_static_component(sched_ap_static_component(), p);
    p = add_static_component(sched_gd_static_component(), p);
    p = add_static_component(sched_ip_static_component(), p);
    p = add_static_component(sched_lfq_static_component(), p);
    p = add_static_component(sched_lhq_static_component(), p);
    p = add_static_component(sched_ll_static_component(), p);
    p = add_static_component(sched_llp_static_component(), p);
    p = add_static_component(sched_ltq_static_component(), p);
    p = add_static_component(sched_pbq_static_component(), p);
    p = add_static_component(sched_rnd_static_component(), p);
    p = add_static_component(sched_spq_static_component(), p);  register_base_component("sched");
    p = add_static_component(termdet_fourcounter_static_component(), p);
    p = add_static_component(termdet_local_static_component(), p);
    p = add_static_component(termdet_user_trigger_static_component(), p);  register_base_component("termdet");
}

#endif /* _MCA_STATIC_COMPNENTS_H */
