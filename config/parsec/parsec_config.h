#ifndef PARSEC_CONFIG_H_HAS_BEEN_INCLUDED
#define PARSEC_CONFIG_H_HAS_BEEN_INCLUDED

/* Compiler dependent capabilities */
/* #undef PARSEC_ATOMIC_USE_C11_ATOMICS */
#define PARSEC_ATOMIC_USE_GCC_32_BUILTINS
#define PARSEC_ATOMIC_USE_GCC_64_BUILTINS
#define PARSEC_ATOMIC_USE_GCC_128_BUILTINS
#define PARSEC_ATOMIC_USE_GCC_128_OTHER_BUILTINS
/* #undef PARSEC_ATOMIC_USE_XLC_32_BUILTINS */
/* #undef PARSEC_ATOMIC_USE_XLC_64_BUILTINS */
/* #undef PARSEC_ATOMIC_USE_XLC_LLSC_32_BUILTINS */
/* #undef PARSEC_ATOMIC_USE_XLC_LLSC_64_BUILTINS */
/* #undef PARSEC_ATOMIC_USE_MIPOSPRO_32_BUILTINS */
/* #undef PARSEC_ATOMIC_USE_MIPOSPRO_64_BUILTINS */
/* #undef PARSEC_ATOMIC_USE_SUN_32 */
/* #undef PARSEC_ATOMIC_USE_SUN_64 */
/* #undef PARSEC_ARCH_X86 */
#define PARSEC_ARCH_X86_64
/* #undef PARSEC_ARCH_PPC */

#define PARSEC_HAVE_BUILTIN_EXPECT
#define PARSEC_HAVE_BUILTIN_CPU
#define PARSEC_HAVE_ATTRIBUTE_VISIBILITY
#define PARSEC_HAVE_ATTRIBUTE_ALWAYS_INLINE
#define PARSEC_HAVE_ATTRIBUTE_FORMAT_PRINTF
#define PARSEC_HAVE_ATTRIBUTE_DEPRECATED

#define PARSEC_HAVE_PTHREAD_BARRIER
/* #undef PARSEC_HAVE_PTHREAD_BARRIER_H */

#define PARSEC_HAVE_THREAD_LOCAL
#define PARSEC_HAVE_PTHREAD_GETSPECIFIC

/* Optional packages */
#define PARSEC_HAVE_HWLOC_BITMAP
#define PARSEC_HAVE_HWLOC_PARENT_MEMBER
#define PARSEC_HAVE_HWLOC_CACHE_ATTR
#define PARSEC_HAVE_HWLOC_OBJ_PU

/* #undef PARSEC_HAVE_RECENT_LEX */

#define PARSEC_PROFILING_USE_MMAP
#define PARSEC_PROFILING_USE_HELPER_THREAD

#define PARSEC_HAVE_VALGRIND_API

/* #undef PARSEC_HAVE_INDENT */
#define PARSEC_INDENT_PREFIX "INDENT_EXECUTABLE-NOTFOUND"
#define PARSEC_INDENT_OPTIONS "-nbad -bap -nbc -br -brs -ncdb -ce -cli0 -d0 -di1 -nfc1 -i4 -ip0 -lp -npcs -npsl -nsc -nsob -l120"

#define PARSEC_HAVE_AWK
#define PARSEC_AWK_PREFIX "/usr/bin/awk"

#if !defined(_GNU_SOURCE)
#define _GNU_SOURCE
#endif  /* !defined(_GNU_SOURCE) */

#ifdef PARSEC_ARCH_PPC
#define inline __inline__
#define restrict
#endif

/* We undefined the PARSEC_CONFIG_H_HAS_BEEN_INCLUDED #define so that the parsec_options.h
 * can be loaded. This mechanism is only used durig the PaRSEC compilation, once installed
 * the parsec_options.h will become the new parsec_config.h.
 */
#undef PARSEC_CONFIG_H_HAS_BEEN_INCLUDED
#include "parsec/parsec_options.h"

#endif  /* PARSEC_CONFIG_H_HAS_BEEN_INCLUDED */
