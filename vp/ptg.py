"""Engine G helper: build parsec-ptgpp from the CURRENT sources and run it.

API (used from harness/Cxx/spec.py; `from vp import ptg`)
=========================================================

ptg.gen(jdf, name=None, opts=(), dep=None, extra=None) -> callable
    Returns a `gen=` callable for vp.api.Q (signature gen(ctx, q, qdir, overlays)).
    When the driver runs the query it
      1. builds (or reuses, see below) parsec-ptgpp from the repository under
         test *through the query's overlays* (so a Mutant of jdf2c.c / jdf.c /
         parsec.y / ... yields a different compiler and different generated code),
      2. runs   parsec-ptgpp --noline -E -i <jdf> -C <name>.c -H <name>.h -f <name> [opts]
         in the query's scratch directory `qdir`,
      3. fails the query with an InternalError (exit 2, never a pass) if ptgpp
         exits non-zero, prints the ptgpp stderr in the message.
    The harness reaches the generated code with

        #define main generated_main      (only if the JDF epilogue has a main)
        #include "<name>.c"              (resolved through -I. ; cwd = qdir)

    so the Q MUST carry  cflags=ptg.CFLAGS  (= ["-I.", "-no-pie"]).  Nothing is appended
    to q.srcs: the same Q object is run concurrently for several mutants and
    q.srcs is shared, the scratch directory is not.
      jdf   "repo:<rel>"  a JDF of the repository (resolved through overlays),
            "jdf:<file>"  a JDF of /verif/jdf,
            or an absolute path.
      name  base name of the generated files and of the -f function id
            (default: JDF file name without extension).  All generated
            identifiers derive from it: __parsec_<name>_internal_taskpool_t,
            <name>_<CLASS>_internal_init, __jdf2c_make_key_<CLASS>, ...
      dep   None | "index-array" | "dynamic-hash-table"   (ptgpp -M)
      opts  further ptgpp options
      extra optional callable(ctx, q, qdir, overlays, res) run after generation
            (e.g. to post-process the generated file).

ptg.gen_many([(jdf, name, opts, dep), ...]) -> callable    several JDFs for one Q.

ptg.UNITS   repo-relative files whose code decides what is generated; put
            `units=ptg.UNITS + [...]` in the Q so their sha1 goes to the evidence.
ptg.CFLAGS  ["-I.", "-no-pie"]  (-no-pie: the native replay links generated code with unresolved runtime symbols)

ptg.ptgpp(ctx, overlays=()) -> absolute path of the parsec-ptgpp binary
    Built with bison + flex + gcc (the product's flags: -Og -DNDEBUG ...) from
      parsec/interfaces/ptg/ptg-compiler/{jdf.c,jdf2c.c,jdf_unparse.c,parsec.y,
      parsec.l(+main.c, #included by parsec.l),*.h}
    + the libparsec-base sources (parsec/class/*.c, parsec/utils/*.c and the two
    flex scanners keyval_lex.l / show_help_lex.l; list = the parsec-base-obj target
    of the product's build.ninja).  Every file is resolved through
    ctx.resolve(rel, overlays); the ptg-compiler directory is copied into the
    build directory so that quoted includes see overlaid headers too.
    Cached with ctx.once per *content* of the overlay files that the build depends
    on (gcc -MMD dependency set of the baseline build): overlays that do not touch
    a ptgpp dependency (header struct-hack patches, mutants of parsec.c) reuse the
    baseline binary; a mutant of jdf2c.c costs one bison/flex + 5 compiles + link
    (~2 s), the baseline ~4 s on 8 cores.  Build directory: ctx.work/ptgpp.<key>.

ptg.run(ctx, jdf, outdir, name=None, opts=(), dep=None, overlays=(), check=True)
    -> dict(rc, c, h, stdout, stderr, cmd, jdf, jdf_sha1)
    Low-level: run the (cached) ptgpp on one JDF.  check=False returns rc != 0
    instead of raising (C24: "is this program rejected?").

ptg.jdf_path(ctx, jdf, overlays=()) -> absolute path of a corpus JDF.

Harness side (C): vp/include/vp_ptg_pre.h (include BEFORE the generated .c: stdio, snprintf capture,
main -> generated_main, VP_STR/VP_CAT*, optional -DVP_PTG_STUB_MEMPOOL / -DVP_PTG_STUB_RING redirections of
the inline parsec_thread_mempool_allocate / parsec_list_item_ring_push_sorted to harness functions) and
vp/include/vp_ptg.h (include AFTER it: constant class descriptors, hash table / data repo / taskpool enable /
termdet / data collection stubs, vp_snprintf).  Corpus + hand-written reference models: /verif/jdf/<name>.jdf,
<name>.ref.h (add `incs=[ptg.JDF_DIR]` to the Q).  Working examples: harness/C23/h.c (keys), harness/C01/o1_count.c
(internal_init), o2_startup.c (chunked startup), o3_succ.c (iterate_successors), o3_goal.c (real parsec.c
dependency functions on the generated tables), harness/C02/o2_lookup.c, o3_release.c.

Measured lessons (each cost hours; see DESIGN 1.2/1.5 for the older ones)
  * JDF globals CONCRETE (enumerate in spec.py, several valuations per query through -DVALS), task
    instances / candidate edges / flows SYMBOLIC.
  * ONE set of static objects (taskpool, task, data collection), reset by struct assignment from a zero
    object for every valuation.  Never `static T arr[NVAL]` of taskpools/tasks: type-punned accesses into an
    array of big structs (the generated code casts task pointers all the time) cost minutes per access.
    Never a 2-D array of AST/task structs; never a pointer INTO an array of large structs in code under test.
  * Class descriptors (parsec_task_t_class ...) must be constant-initialized (vp_ptg.h does it): with a
    run-time parsec_class_initialize the constructor loop of PARSEC_OBJ_CONSTRUCT becomes a loop of calls
    through an unknown void(*)(parsec_object_t*) = every such function of the TU.
  * Never CALL through a function pointer read from a const table with a symbolic index
    (`ref_tc[c]->make_key(...)`): CBMC 6.11 recurses forever in function-pointer removal (segfault).  Call
    the generated functions by name through an if-chain (see ref_make_key in the .ref.h files).  Reading
    DATA through such a table with a symbolic index and using it as an array index also crashed symex:
    select with an if-chain over constant indices.
  * Generated tables store guards in a union (parsec_expr_t.u_expr): CBMC cannot constant-fold the function
    pointer, so a call `dep->cond->inline_func32(...)` in real runtime code is dispatched to EVERY function of
    the TU with two pointer parameters (hooks, startup, internal_init, ...).  Remove their bodies with
    Q(remove_bodies=[...]) (names are predictable: <jdf>_<CLS>_internal_init, __jdf2c_startup_<CLS>,
    hook_of_<jdf>_<CLS>_CPU, release_deps_of_..., data_lookup_of_...) and include only the needed part of the
    runtime file (harness/C01/spec.py TRIM_PARSEC_C: `patches` that #if 0 the rest of parsec.c).
  * Loops of generated code entered with symbolic state (startup re-entry) need a TIGHT --unwind
    (trip count of the valuation + 2); harness loops get their own unwindset.  Do not name a harness file
    like the JDF (`startup.c` + `#include "startup.c"` recurses).
  * Stubs must not write arrays at a symbolic index (counters under symbolic guards): keep scalars and
    compare with a symbolic candidate drawn BEFORE the call (see o2_startup.c, o3_succ.c).
"""
import concurrent.futures
import hashlib
import os
import re
import shutil
import subprocess

VERIF = os.path.dirname(os.path.dirname(os.path.abspath(__file__)))
JDF_DIR = os.path.join(VERIF, "jdf")

PTG_DIR = "parsec/interfaces/ptg/ptg-compiler"
PTG_C = ["jdf.c", "jdf2c.c", "jdf_unparse.c"]
BASE_C = [
    "parsec/class/parsec_dequeue.c", "parsec/class/parsec_fifo.c", "parsec/class/parsec_lifo.c",
    "parsec/class/parsec_list.c", "parsec/class/parsec_object.c", "parsec/class/parsec_value_array.c",
    "parsec/class/parsec_hash_table.c", "parsec/class/parsec_rwlock.c", "parsec/class/parsec_rbtree.c",
    "parsec/class/parsec_future.c", "parsec/class/parsec_datacopy_future.c", "parsec/class/info.c",
    "parsec/utils/argv.c", "parsec/utils/process_name.c", "parsec/utils/cmd_line.c", "parsec/utils/colors.c",
    "parsec/utils/parsec_environ.c", "parsec/utils/installdirs.c", "parsec/utils/keyval_parse.c",
    "parsec/utils/mca_param.c", "parsec/utils/mca_param_cmd_line.c", "parsec/utils/mca_parse_paramfile.c",
    "parsec/utils/os_path.c", "parsec/utils/output.c", "parsec/utils/show_help.c", "parsec/utils/zone_malloc.c",
    "parsec/utils/atomic_external.c", "parsec/utils/debug.c", "parsec/utils/win_compat.c",
]
BASE_L = ["parsec/utils/keyval_lex.l", "parsec/utils/show_help_lex.l"]

UNITS = [PTG_DIR + "/jdf2c.c", PTG_DIR + "/jdf.c", PTG_DIR + "/parsec.y", PTG_DIR + "/parsec.l",
         PTG_DIR + "/main.c", PTG_DIR + "/jdf_unparse.c", PTG_DIR + "/jdf.h", PTG_DIR + "/jdf2c_utils.h"]
CFLAGS = ["-I.", "-no-pie"]

DEFS = ["-DBUILDING_PARSEC", "-D_GNU_SOURCE", "-DYYERROR_VERBOSE", "-DNDEBUG"]
FLAGS = ["-w", "-Og", "-std=gnu11", "-m64", "-mcx16"]


def _ierr(msg):
    from vp.run import InternalError
    return InternalError(msg)


def _sha1(path):
    with open(path, "rb") as f:
        return hashlib.sha1(f.read()).hexdigest()[:12]


def _sh(cmd, cwd):
    p = subprocess.run(cmd, cwd=cwd, stdout=subprocess.PIPE, stderr=subprocess.PIPE, text=True)
    if p.returncode != 0:
        raise _ierr("ptgpp build step failed: %s\n%s" % (" ".join(cmd), (p.stderr or p.stdout)[-3000:]))
    return p


def _incs(ctx, bdir, overlays):
    dirs = [os.path.join(bdir, "ptg")]
    for o in overlays:
        dirs += [os.path.join(o, "parsec", "include"), o]
    dirs += list(ctx.cfg_incs) + [os.path.join(ctx.repo, "parsec", "include"), ctx.repo, bdir]
    return ["-I" + d for d in dirs]


def _parse_d(path):
    try:
        with open(path) as f:
            txt = f.read().replace("\\\n", " ")
    except OSError:
        return []
    return txt.split(":", 1)[1].split() if ":" in txt else []


def _build(ctx, bdir, overlays, base_objs=None):
    """Build parsec-ptgpp in bdir.  base_objs: {rel: object path} objects of a previous
    (baseline) build that may be reused.  Returns (exe, {rel: obj}, deps:set of abs paths)."""
    os.makedirs(bdir, exist_ok=True)
    pdir = os.path.join(bdir, "ptg")
    os.makedirs(pdir, exist_ok=True)
    src_ptg = os.path.join(ctx.repo, PTG_DIR)
    names = set(os.listdir(src_ptg))
    for o in overlays:
        d = os.path.join(o, PTG_DIR)
        if os.path.isdir(d):
            names |= set(os.listdir(d))
    origin = {}
    for n in sorted(names):
        if not re.search(r"\.(c|h|y|l)$", n):
            continue
        src = ctx.resolve(PTG_DIR + "/" + n, overlays)
        shutil.copy(src, os.path.join(pdir, n))
        origin[os.path.join(pdir, n)] = src
    _sh(["bison", "-d", "-Wnone", "-o", "parsec.y.c", "parsec.y"], pdir)
    _sh(["flex", "-oparsec.l.c", "parsec.l"], pdir)
    incs = _incs(ctx, bdir, overlays)
    jobs = []  # (key, src, obj)
    for n in PTG_C + ["parsec.y.c", "parsec.l.c"]:
        jobs.append((PTG_DIR + "/" + n, os.path.join(pdir, n), os.path.join(bdir, n + ".o")))
    objs = {}
    reuse = dict(base_objs or {})
    ov_files = set()
    for o in overlays:
        for root, _, files in os.walk(o):
            for fn in files:
                ov_files.add(os.path.relpath(os.path.join(root, fn), o))
    udir = os.path.join(bdir, "parsec", "utils")
    base_deps = reuse.get("__deps__", {})
    for rel in BASE_C + BASE_L:
        # reuse a baseline object unless an overlay file is one of its dependencies
        if rel in reuse and rel in base_deps and not (ov_files & base_deps[rel]):
            objs[rel] = reuse[rel]
            continue
        src = ctx.resolve(rel, overlays)
        if rel.endswith(".l"):
            os.makedirs(udir, exist_ok=True)
            out = os.path.join(udir, os.path.basename(rel) + ".c")
            _sh(["flex", "-o" + out, src], udir)
            src = out
        jobs.append((rel, src, os.path.join(bdir, rel.replace("/", "_") + ".o")))

    def cc(job):
        key, src, obj = job
        cmd = ["gcc"] + FLAGS + DEFS + incs + ["-MMD", "-MF", obj + ".d", "-c", src, "-o", obj]
        p = subprocess.run(cmd, cwd=bdir, stdout=subprocess.PIPE, stderr=subprocess.PIPE, text=True)
        return key, obj, p.returncode, p.stderr

    nthreads = max(2, min(8, os.cpu_count() or 4))
    with concurrent.futures.ThreadPoolExecutor(max_workers=nthreads) as ex:
        for key, obj, rc, err in ex.map(cc, jobs):
            if rc != 0:
                raise _ierr("ptgpp build: gcc failed on %s\n%s" % (key, err[-3000:]))
            objs[key] = obj
    exe = os.path.join(bdir, "parsec-ptgpp")
    link = [objs[k] for k in sorted(objs) if k != "__deps__"]
    _sh(["gcc", "-o", exe] + link + ["-lm", "-lpthread"], bdir)
    # dependency sets (repo-relative) per object and overall
    repo = ctx.repo.rstrip("/") + "/"
    depmap, alldeps = {}, set()
    for key, obj in objs.items():
        ds = set()
        for d in _parse_d(obj + ".d"):
            d = os.path.abspath(os.path.join(bdir, d))
            d = origin.get(d, d)
            if d.startswith(repo) and "/_build/" not in d:
                ds.add(d[len(repo):])
            else:
                for o in overlays:
                    oo = os.path.abspath(o).rstrip("/") + "/"
                    if d.startswith(oo):
                        ds.add(d[len(oo):])
        for src in (PTG_DIR + "/parsec.y", PTG_DIR + "/parsec.l", PTG_DIR + "/main.c"):
            if key.startswith(PTG_DIR):
                ds.add(src)
        if key.endswith(".l"):
            ds.add(key)
        depmap[key] = ds
        alldeps |= ds
    objs["__deps__"] = depmap
    return exe, objs, alldeps


def _baseline(ctx):
    def mk():
        bdir = os.path.join(ctx.work, "ptgpp.base")
        exe, objs, deps = _build(ctx, bdir, [])
        return {"exe": exe, "objs": objs, "deps": deps}
    return ctx.once("ptgpp:base", mk)


def ptgpp(ctx, overlays=()):
    """Path of parsec-ptgpp built from ctx.repo seen through `overlays`."""
    base = _baseline(ctx)
    overlays = [o for o in overlays if os.path.isdir(o)]
    rel = []
    for o in overlays:
        for root, _, files in os.walk(o):
            for fn in files:
                r = os.path.relpath(os.path.join(root, fn), o)
                if r in base["deps"] or r.startswith(PTG_DIR + "/"):
                    rel.append((r, _sha1(ctx.resolve(r, overlays))))
    if not rel:
        return base["exe"]
    rel = sorted(set(rel))
    key = hashlib.sha1(repr(rel).encode()).hexdigest()[:12]

    def mk():
        bdir = os.path.join(ctx.work, "ptgpp." + key)
        # only the overlays that matter, in order
        ovs = [o for o in overlays if any(os.path.exists(os.path.join(o, r)) for r, _ in rel)]
        exe, _, _ = _build(ctx, bdir, ovs, base_objs=base["objs"])
        return exe
    return ctx.once("ptgpp:" + key, mk)


def jdf_path(ctx, jdf, overlays=()):
    if jdf.startswith("repo:"):
        return ctx.resolve(jdf[5:], overlays)
    if jdf.startswith("jdf:"):
        return os.path.join(JDF_DIR, jdf[4:])
    return jdf


def run(ctx, jdf, outdir, name=None, opts=(), dep=None, overlays=(), check=True):
    exe = ptgpp(ctx, overlays)
    path = jdf_path(ctx, jdf, overlays)
    if name is None:
        name = os.path.splitext(os.path.basename(path))[0]
    os.makedirs(outdir, exist_ok=True)
    cmd = [exe, "--noline", "-E", "-i", path, "-C", name + ".c", "-H", name + ".h", "-f", name]
    if dep:
        cmd += ["-M", dep]
    cmd += list(opts)
    p = subprocess.run(cmd, cwd=outdir, stdout=subprocess.PIPE, stderr=subprocess.PIPE, text=True, timeout=120)
    res = {"rc": p.returncode, "stdout": p.stdout, "stderr": p.stderr, "cmd": " ".join(cmd),
           "c": os.path.join(outdir, name + ".c"), "h": os.path.join(outdir, name + ".h"),
           "jdf": jdf, "jdf_sha1": _sha1(path), "name": name}
    if check and (p.returncode != 0 or not os.path.exists(res["c"])):
        raise _ierr("parsec-ptgpp failed (rc=%s) on %s:\n%s" % (p.returncode, jdf, (p.stderr or p.stdout)[-3000:]))
    return res


def gen_many(items, extra=None):
    items = [tuple(it) + (None,) * (4 - len(it)) for it in items]

    def g(ctx, q, qdir, overlays):
        recs = {}
        for jdf, name, opts, dep in items:
            r = run(ctx, jdf, qdir, name=name, opts=opts or (), dep=dep, overlays=overlays)
            recs[r["name"]] = {"jdf": jdf, "jdf_sha1": r["jdf_sha1"],
                               "ptgpp": " ".join(["parsec-ptgpp"] + r["cmd"].split()[1:])}
            if extra:
                extra(ctx, q, qdir, overlays, r)
        q.info["generated"] = recs
    return g


def gen(jdf, name=None, opts=(), dep=None, extra=None):
    return gen_many([(jdf, name, opts, dep)], extra=extra)
