#!/usr/bin/env python3
"""Engine S: LLVM-14 textual IR -> C translator with symbolic yield points.

usage: ll2c.py all.ll --threads t0,t1[,..] --rounds R [--setup setup] [--check check] > gen.c

Input: the IR of harness + real PaRSEC sources after
  clang-14 -O1 -Xclang -disable-llvm-passes ; llvm-link ; opt always-inline,inline,mem2reg,simplifycfg
(typed pointers).  Output: one C file.  Every function becomes a C function with
one statement per instruction; the functions named in --threads become
*resumable*: before every access to memory that is not a non-escaping alloca
there is `if(__yield()){ pc = k; return; } case k:`, and the generated main()
runs R rounds in which every unfinished thread is resumed once.  R rounds cover
every SC interleaving in which each thread is scheduled at most R times.
Calls that were not inlined (indirect, recursive, external) execute atomically.

Stutter pruning (sound and exact for safety): on a back edge into a loop header
WITHOUT phi nodes, if since the previous back edge the thread neither stored to
memory, nor called anything, nor was actually preempted, the next iteration would
be identical (pure re-read of unchanged memory): the path is cut with
__CPROVER_assume(0).  All other loops are ordinary loops bounded by --unwind with
unwinding assertions.

Harness vocabulary (vp_harness.h in -DVP_SEQIR mode) arrives as calls to
__vp_assert(c,msg) / __vp_assume(c) / __vp_witness(tag) / __vp_in(): they are
re-emitted as VASSERTM / VASSUME / VWITNESS / IN_LL so that the generated C obeys
the same driver protocol (and can be replayed natively with gcc).
"""
import re, sys, argparse

_ap = argparse.ArgumentParser()
_ap.add_argument('ll'); _ap.add_argument('--threads', default=''); _ap.add_argument('--rounds', type=int, default=3)
_ap.add_argument('--setup', default='setup'); _ap.add_argument('--check', default='check')
_ap.add_argument('--noprune', action='store_true')
_ap.add_argument('--drain', action='store_true', help='after the symbolic rounds run every thread to completion or to a blocked spin, and assert completion (bounded progress)')
_ap.add_argument('--ro-fields', default='', help='comma separated <struct>.<field index> (LLVM struct name without "struct."): fields no thread stores to in this scenario. Loads through a getelementptr into such a field get no yield point (they commute with everything); a store/atomic through such a getelementptr in thread code is emitted as a failing INTERNAL assertion, so a wrong declaration is reported, never silently assumed')
_ap.add_argument('--benign', default='', help='comma separated callees whose calls do not change state (pure spin loops with local counters gating them are prunable)')
_args = _ap.parse_args()
src = open(_args.ll).read()
threads = [t for t in _args.threads.split(',') if t]
benign = set(x for x in _args.benign.split(',') if x)
ro_fields = set(x for x in _args.ro_fields.split(',') if x)

# ---------------------------------------------------------------- type parser
class T:  # kinds: int, ptr, struct(named), lit(struct literal), arr, fn, void, float, double
    def __init__(s, k, **kw): s.k = k; s.__dict__.update(kw)
    def __repr__(s): return 'T(%s)' % s.k

named = {}      # name -> list of field types or None (opaque)
named_packed = {}
lits = {}       # key -> (name, fields)
fntys = {}      # key -> name

def tokenize_type(s, i):
    """parse a type starting at s[i]; return (T, newpos)"""
    i = skipws(s, i)
    if s.startswith('void', i) and not s[i+4:i+5].isalnum(): t = T('void'); i += 4
    elif s[i] == 'i' and s[i+1].isdigit():
        m = re.match(r'i(\d+)', s[i:]); t = T('int', bits=int(m.group(1))); i += m.end()
    elif s.startswith('double', i): t = T('double'); i += 6
    elif s.startswith('float', i): t = T('float'); i += 5
    elif s.startswith('x86_fp80', i): t = T('double'); i += 8
    elif s[i] == '%':
        m = re.match(r'%("[^"]+"|[\w.$-]+)', s[i:]); t = T('struct', name=m.group(1).strip('"')); i += m.end()
    elif s[i] == '{' or s.startswith('<{', i):
        packed = s[i] == '<'
        if packed: i += 1
        i += 1; fields = []
        i = skipws(s, i)
        if s[i] == '}': i += 1
        else:
            while True:
                ft, i = tokenize_type(s, i); fields.append(ft); i = skipws(s, i)
                if s[i] == ',': i += 1; continue
                if s[i] == '}': i += 1; break
                raise Exception('bad struct lit at ' + s[i:i+40])
        if packed:
            assert s[i] == '>'; i += 1
        t = T('lit', fields=fields, packed=packed)
    elif s[i] == '[':
        m = re.match(r'\[\s*(\d+)\s+x\s+', s[i:]); n = int(m.group(1)); i += m.end()
        et, i = tokenize_type(s, i); i = skipws(s, i); assert s[i] == ']', s[i:i+30]; i += 1
        t = T('arr', n=n, elem=et)
    elif s.startswith('...', i): t = T('vararg'); i += 3
    else: raise Exception('unknown type at: ' + s[i:i+60])
    # suffixes: pointers and function types
    while True:
        j = skipws(s, i)
        if j < len(s) and s[j] == '*': t = T('ptr', to=t); i = j + 1; continue
        if j < len(s) and s[j] == '(':   # function type
            j += 1; args = []; va = False
            j = skipws(s, j)
            if s[j] == ')': j += 1
            else:
                while True:
                    j = skipws(s, j)
                    if s.startswith('...', j): va = True; j += 3
                    else:
                        at, j = tokenize_type(s, j); args.append(at)
                    j = skipws(s, j)
                    if s[j] == ',': j += 1; continue
                    if s[j] == ')': j += 1; break
                    raise Exception('bad fn type ' + s[j:j+40])
            t = T('fn', ret=t, args=args, va=va); i = j; continue
        break
    return t, i

def skipws(s, i):
    while i < len(s) and s[i] in ' \t': i += 1
    return i

def tkey(t):
    k = t.k
    if k == 'int': return 'i%d' % t.bits
    if k == 'ptr': return tkey(t.to) + '*'
    if k == 'struct': return '%' + t.name
    if k == 'lit': return '{' + ','.join(tkey(f) for f in t.fields) + '}'
    if k == 'arr': return '[%d x %s]' % (t.n, tkey(t.elem))
    if k == 'fn': return '%s(%s%s)' % (tkey(t.ret), ','.join(tkey(a) for a in t.args), ',...' if t.va else '')
    return k

def cname(n): return re.sub(r'[^A-Za-z0-9_]', '_', n)

def ctype(t):
    """C type name usable as a prefix (declarator-free), creating typedefs when needed"""
    k = t.k
    if k == 'void': return 'void'
    if k == 'int':
        b = t.bits
        if b == 1: return 'uint8_t'
        if b <= 8: return 'uint8_t'
        if b <= 16: return 'uint16_t'
        if b <= 32: return 'uint32_t'
        if b <= 64: return 'uint64_t'
        return 'unsigned __int128'
    if k == 'double': return 'double'
    if k == 'float': return 'float'
    if k == 'struct': return 'struct S_' + cname(t.name)
    if k == 'lit':
        key = tkey(t)
        if key not in lits: lits[key] = ('struct L%d' % len(lits), t)
        return lits[key][0]
    if k == 'ptr':
        if t.to.k == 'fn':
            key = tkey(t.to)
            if key not in fntys: fntys[key] = ('fn_t%d' % len(fntys), t.to)
            return fntys[key][0]
        if t.to.k == 'arr':
            key = 'A' + tkey(t.to)
            if key not in lits: lits[key] = ('struct A%d' % len(lits), T('lit', fields=[t.to], packed=False, isarr=True))
            return lits[key][0] + '*'
        return ctype(t.to) + '*'
    if k == 'arr':  # arrays as first-class values: wrap in struct
        key = 'A' + tkey(t)
        if key not in lits: lits[key] = ('struct A%d' % len(lits), T('lit', fields=[t], packed=False, isarr=True))
        return lits[key][0]
    raise Exception('ctype ' + k)

def field_decl(t, name):
    if t.k == 'arr':
        # C array field; nested arrays
        dims = ''; e = t
        while e.k == 'arr': dims += '[%d]' % max(e.n, 1); e = e.elem
        return '%s %s%s' % (ctype(e), name, dims)
    return '%s %s' % (ctype(t), name)

# ---------------------------------------------------------------- parse module
lines = src.split('\n')
funcs = []; globs = []; decls = {}
i = 0
while i < len(lines):
    ln = lines[i]
    m = re.match(r'%("[^"]+"|[\w.$-]+) = type (.*)$', ln)
    if m:
        nm = m.group(1).strip('"'); body = m.group(2).strip()
        if body == 'opaque': named[nm] = None
        else:
            t, _ = tokenize_type(body, 0); named[nm] = t.fields; named_packed[nm] = t.packed
        i += 1; continue
    m = re.match(r'@("[^"]+"|[\w.$-]+) = (.*)$', ln)
    if m:
        globs.append((m.group(1).strip('"'), m.group(2))); i += 1; continue
    if ln.startswith('declare '):
        m = re.match(r'declare (.*?)@("[^"]+"|[\w.$-]+)\((.*)\)', ln)
        decls[m.group(2).strip('"')] = ln; i += 1; continue
    if ln.startswith('define '):
        body = []; hdr = ln; i += 1
        while lines[i] != '}':
            cur = lines[i]; i += 1
            # a switch with cases is printed over several lines: join them into one instruction
            if re.match(r'\s*switch\s', cur) and cur.rstrip().endswith('['):
                while lines[i].strip() != ']': cur += ' ' + lines[i].strip(); i += 1
                cur += ' ]'; i += 1
            body.append(cur)
        funcs.append((hdr, body)); i += 1; continue
    i += 1

# ---------------------------------------------------------------- values / constants
def strip_attrs(s):
    return re.sub(r'\b(noundef|nonnull|signext|zeroext|inreg|noalias|nocapture|readonly|writeonly|returned|immarg|nofree|nest|dso_local|local_unnamed_addr|unnamed_addr|internal|private|external|common|weak|linkonce_odr|hidden|inbounds|nsw|nuw|exact|volatile|tail|musttail|notail|align \d+|dereferenceable\(\d+\)|dereferenceable_or_null\(\d+\)|byval\([^)]*\)|sret\([^)]*\))(?![\w.])\s*', '', s)

class Ctx: pass

def parse_value(s, i, ty, fn):
    """parse an operand of (already known) type ty at s[i]; return (C expr, newpos)"""
    i = skipws(s, i)
    for a in ('noundef ', 'nonnull ', 'signext ', 'zeroext '):
        while s.startswith(a, i): i += len(a)
    if s[i] == '%':
        m = re.match(r'%("[^"]+"|[\w.$-]+)', s[i:]); return fn.vname(m.group(1).strip('"')), i + m.end()
    if s[i] == '@':
        m = re.match(r'@("[^"]+"|[\w.$-]+)', s[i:]); nm = m.group(1).strip('"')
        gn = 'G_' + cname(nm) if nm in globnames else cname(nm)
        e = '(&%s)' % gn if nm in globnames else gn
        return '((%s)%s)' % (ctype(ty), e), i + m.end()
    m = re.match(r'-?\d+', s[i:])
    if m and ty.k == 'int':
        v = int(m.group(0));
        if v < 0: v += 1 << ty.bits
        if ty.bits <= 64: return '((%s)%dULL)' % (ctype(ty), v), i + m.end()
        return '((((unsigned __int128)%dULL) << 64) | ((unsigned __int128)%dULL))' % (v >> 64, v & ((1 << 64) - 1)), i + m.end()
    if s.startswith('null', i): return '((%s)0)' % ctype(ty), i + 4
    if s.startswith('true', i): return '1', i + 4
    if s.startswith('false', i): return '0', i + 5
    if s.startswith('undef', i) or s.startswith('poison', i):
        n = 5 if s.startswith('undef', i) else 6
        return ('((%s)0)' % ctype(ty)) if ty.k in ('int', 'ptr') else 'ZERO_' + cname(ctype(ty)), i + n
    if s.startswith('zeroinitializer', i): return 'ZEROINIT', i + 15
    for op in ('getelementptr', 'bitcast', 'ptrtoint', 'inttoptr'):
        if s.startswith(op, i):
            return parse_constexpr(s, i, fn)
    raise Exception('value? ' + s[i:i+80])

def parse_typed_value(s, i, fn):
    t, i = tokenize_type(s, i)
    v, i = parse_value(s, i, t, fn)
    return t, v, i

def parse_constexpr(s, i, fn):
    if s.startswith('getelementptr', i):
        i += len('getelementptr'); i = skipws(s, i)
        if s.startswith('inbounds', i): i += 8
        i = skipws(s, i); assert s[i] == '('; i += 1
        bt, i = tokenize_type(s, i); i = skipws(s, i); assert s[i] == ','; i += 1
        pt, pv, i = parse_typed_value(s, i, fn)
        idx = []
        while True:
            i = skipws(s, i)
            if s[i] == ',':
                i += 1; it, iv, i = parse_typed_value(s, i, fn); idx.append(iv); continue
            if s[i] == ')': i += 1; break
            raise Exception('gep cexpr ' + s[i:i+40])
        e, rt = gep_expr(bt, pv, idx)
        return e, i
    for op in ('bitcast', 'ptrtoint', 'inttoptr'):
        if s.startswith(op, i):
            i += len(op); i = skipws(s, i); assert s[i] == '('; i += 1
            ft, fv, i = parse_typed_value(s, i, fn); i = skipws(s, i)
            assert s.startswith('to', i); i += 2
            tt, i = tokenize_type(s, i); i = skipws(s, i); assert s[i] == ')'; i += 1
            if op == 'ptrtoint': return '((%s)(uintptr_t)%s)' % (ctype(tt), fv), i
            if op == 'inttoptr': return '((%s)(uintptr_t)%s)' % (ctype(tt), fv), i
            return '((%s)%s)' % (ctype(tt), fv), i
    raise Exception('constexpr')

def resolve(t):
    return t

def gep_expr(bt, pv, idx):
    """C expression for getelementptr bt, bt* pv, idx...; returns (expr, result pointee type)"""
    e = '(%s)[(int64_t)%s]' % (pv, sidx(idx[0])); cur = bt
    if cur.k == 'arr' and len(idx) > 1: e += '.f0'     # top-level arrays live in wrapper structs
    for ix in idx[1:]:
        if cur.k == 'struct':
            n = const_int(ix); e += '.f%d' % n; cur = named[cur.name][n]
        elif cur.k == 'lit':
            n = const_int(ix); e += '.f%d' % n; cur = cur.fields[n]
        elif cur.k == 'arr':
            e += '[(int64_t)%s]' % sidx(ix); cur = cur.elem
        else: raise Exception('gep into ' + cur.k)
    if cur.k == 'arr':  # pointer to array -> pointer to wrapper struct? use cast of address of first elem
        return '((%s)&(%s))' % (ctype(T('ptr', to=cur)), e), cur
    return '(&%s)' % e, cur

def sidx(v):
    m = re.match(r'\(\((uint\d+_t)\)(\d+)ULL\)$', v)
    if m:
        bits = int(re.search(r'\d+', m.group(1)).group(0)); n = int(m.group(2))
        if n >= 1 << (bits - 1): n -= 1 << bits
        return str(n)
    m = re.match(r'\(\((uint(\d+)_t)\)', v)
    return v
def const_int(v):
    m = re.match(r'\(\((uint\d+_t)\)(\d+)ULL\)$', v); return int(m.group(2))

# ---------------------------------------------------------------- globals
globnames = set(n for n, _ in globs)
fnnames = set()
for hdr, body in funcs:
    m = re.search(r'@("[^"]+"|[\w.$-]+)\(', hdr); fnnames.add(m.group(1).strip('"'))

def parse_init(s, i, ty, fn):
    """initializer for a global of type ty -> C initializer text"""
    i = skipws(s, i)
    if s.startswith('zeroinitializer', i): return '{0}', i + 15
    if s.startswith('undef', i): return '{0}', i + 5
    if ty.k in ('struct', 'lit') and (s[i] == '{' or s.startswith('<{', i)):
        if s[i] == '<': i += 1
        i += 1; parts = []
        i = skipws(s, i)
        if s[i] == '}': i += 1
        else:
            while True:
                ft, i = tokenize_type(s, i); v, i = parse_init(s, i, ft, fn); parts.append(v); i = skipws(s, i)
                if s[i] == ',': i += 1; continue
                if s[i] == '}': i += 1; break
                raise Exception('init struct ' + s[i:i+40])
        if i < len(s) and s[i] == '>': i += 1
        return '{' + ', '.join(parts) + '}', i
    if ty.k == 'arr':
        if s[i] == '[':
            i += 1; parts = []
            while True:
                ft, i = tokenize_type(s, i); v, i = parse_init(s, i, ft, fn); parts.append(v); i = skipws(s, i)
                if s[i] == ',': i += 1; continue
                if s[i] == ']': i += 1; break
            return '{' + ', '.join(parts) + '}', i
        if s[i] == 'c' and s[i+1] == '"':
            j = s.index('"', i + 2); raw = s[i+2:j]; out = []; k = 0
            while k < len(raw):
                if raw[k] == '\\': out.append(str(int(raw[k+1:k+3], 16))); k += 3
                else: out.append(str(ord(raw[k]))); k += 1
            return '{' + ','.join(out) + '}', j + 1
    v, i = parse_value(s, i, ty, fn)
    return v, i


# ---------------------------------------------------------------- pointer provenance helpers
# CBMC loses the identity of a pointer that travels through integer arithmetic
# (ptrtoint / shl / or / 128-bit CAS) and then treats its dereference as an
# unconstrained read.  PaRSEC's counted pointers and parsec_atomic_cas_ptr do
# exactly that.  We therefore track, per SSA value, where an integer is really a
# pointer (prov), what the two 64-bit halves of an i128 are (pair), and the
# typed root of a bitcast pointer (orig), and emit the atomic operations
# field-wise with the pointer half accessed at pointer type.
def sizeof_align(t):
    k = t.k
    if k == 'int':
        b = 1 if t.bits <= 8 else 2 if t.bits <= 16 else 4 if t.bits <= 32 else 8 if t.bits <= 64 else 16
        return b, b
    if k == 'ptr': return 8, 8
    if k == 'double': return 8, 8
    if k == 'float': return 4, 4
    if k == 'arr':
        s_, a_ = sizeof_align(t.elem); return s_ * t.n, a_
    if k in ('struct', 'lit'):
        fields = named[t.name] if k == 'struct' else t.fields
        packed = named_packed.get(t.name, False) if k == 'struct' else getattr(t, 'packed', False)
        off = 0; al = 1
        for ft in (fields or []):
            fs, fa = sizeof_align(ft)
            if packed: fa = 1
            off = (off + fa - 1) // fa * fa + fs; al = max(al, fa)
        return (off + al - 1) // al * al, al
    raise Exception('sizeof ' + k)

def flatten(t, path='', base=0):
    """scalar leaves of aggregate t: [(offset, type, accessor path)]"""
    k = t.k
    if k in ('struct', 'lit'):
        fields = named[t.name] if k == 'struct' else t.fields
        packed = named_packed.get(t.name, False) if k == 'struct' else getattr(t, 'packed', False)
        out_ = []; off = 0
        for n_, ft in enumerate(fields or []):
            fs, fa = sizeof_align(ft)
            if packed: fa = 1
            off = (off + fa - 1) // fa * fa
            out_ += flatten(ft, path + '.f%d' % n_, base + off); off += fs
        return out_
    if k == 'arr':
        es, _ = sizeof_align(t.elem); out_ = []
        for n_ in range(t.n): out_ += flatten(t.elem, path + '[%d]' % n_, base + n_ * es)
        return out_
    return [(base, t, path)]

def const128(e):
    m = re.match(r'^\(\(\(\(unsigned __int128\)(\d+)ULL\) << 64\) \| \(\(unsigned __int128\)(\d+)ULL\)\)$', e)
    if m: return (int(m.group(1)) << 64) | int(m.group(2))
    if e in ('((unsigned __int128)0)', '((unsigned __int128)0ULL)'): return 0
    return None
LO64 = (1 << 64) - 1
HI64 = LO64 << 64

# ---------------------------------------------------------------- functions
class Fn:
    def __init__(self, hdr, body):
        h = strip_attrs(hdr[len('define '):])
        self.rt, p = tokenize_type(h, 0)
        m = re.match(r'\s*@("[^"]+"|[\w.$-]+)\(', h[p:]); self.name = m.group(1).strip('"'); p += m.end()
        self.params = []; depth = 1; q = p
        while depth:
            if h[q] == '(': depth += 1
            elif h[q] == ')': depth -= 1
            q += 1
        ps = h[p:q-1].strip(); self.va = False
        k = 0
        while k < len(ps):
            k = skipws(ps, k)
            if ps.startswith('...', k): self.va = True; k += 3; continue
            t, k = tokenize_type(ps, k); k = skipws(ps, k)
            m = re.match(r'%("[^"]+"|[\w.$-]+)', ps[k:]); self.params.append((t, m.group(1).strip('"'))); k += m.end()
            k = skipws(ps, k)
            if k < len(ps) and ps[k] == ',': k += 1
        self.body = body; self.is_thread = self.name in threads
        self.vals = {}   # ssa name -> type
        self.prefix = ('T_%s_' % cname(self.name)) if self.is_thread else ''
    def vname(self, n): return self.prefix + 'v_' + cname(n)

out = []
def emit(s): out.append(s)

def translate_fn(f):
    blocks = []; cur = None
    # implicit entry block label: first unnamed = number of params (if params unnamed) else '0'
    entry = None
    for ln in f.body:
        ln = re.sub(r',?\s*!\w+ !\d+', '', ln); ln = re.sub(r'\s+#\d+\s*$', '', ln.rstrip())
        if not ln.strip(): continue
        m = re.match(r'("[^"]+"|[\w.$-]+):', ln)
        if m and not ln.startswith(' '):
            cur = [m.group(1).strip('"'), []]; blocks.append(cur); continue
        if cur is None:
            cur = ['ENTRY', []]; blocks.append(cur)
        cur[1].append(ln.strip().split(' ; ')[0] if ' ; preds' in ln else ln.strip())
    f.blocks = blocks
    # first pass: result types
    code = {}   # block -> list of C statements
    phis = {}   # block -> list of (dst, type, [(val, pred)])
    decl = []
    yieldno = [0]
    local_allocas = set()
    def define(n, t):
        f.vals[n] = t
    def Y(kind):
        if not f.is_thread: return []
        yieldno[0] += 1; k = yieldno[0]
        return ['if(__yield()){ %spc = %d; %sw = 1; return; } case %d:;' % (f.prefix, k, f.prefix, k)]
    islocal = {}   # ssa name -> True if derived from non-escaping alloca
    rotag = {}     # C name of a pointer value -> True if it points into a field listed in --ro-fields
    RO_FAIL = 'VP_INTERNAL_FAIL("INTERNAL: store to a field declared thread-read-only (--ro-fields)");'
    prov = {}      # C expr of an i64 value -> C expr of the pointer it was made from
    pair = {}      # C expr of an i128 value -> (lo, hi), each ('zero',) | ('int', expr) | ('ptr', expr, ptrtype)
    orig = {}      # C expr of a bitcast pointer -> (root expr, root pointer type)
    def part64(e):
        if e in prov: return ('ptr',) + prov[e]
        if re.match(r'^\(\(uint64_t\)0ULL\)$', e): return ('zero',)
        return ('int', e)
    def part_as_int(pt_):
        if pt_[0] == 'zero': return '((uint64_t)0ULL)'
        if pt_[0] == 'int': return pt_[1]
        return '((uint64_t)(uintptr_t)%s)' % pt_[1]
    def part_as(pt_, ty):
        """part as a value of leaf type ty (int or ptr)"""
        if ty.k == 'ptr':
            if pt_[0] == 'zero': return '((%s)0)' % ctype(ty)
            if pt_[0] == 'ptr': return '((%s)%s)' % (ctype(ty), pt_[1])
            return '((%s)(uintptr_t)%s)' % (ctype(ty), pt_[1])
        return '((%s)%s)' % (ctype(ty), part_as_int(pt_))
    def typed_halves(pv, pt):
        """for an i128* operand: the two typed 8-byte leaves it really points to, or None"""
        root, rty = orig.get(pv, (None, None))
        if root is None or rty.k != 'ptr' or rty.to.k not in ('struct', 'lit'): return None
        try: fl = flatten(rty.to)
        except Exception: return None
        lo = [x for x in fl if x[0] == 0]; hi = [x for x in fl if x[0] == 8]
        if len(lo) != 1 or len(hi) != 1: return None
        if sizeof_align(lo[0][1])[0] != 8 or sizeof_align(hi[0][1])[0] != 8: return None
        return [('(*(%s)%s)%s' % (ctype(rty), root, x[2]), x[1]) for x in (lo[0], hi[0])]
    for bn, ins in blocks:
        stm = []; code[bn] = stm; phis[bn] = []
        for ln in ins:
            s = strip_attrs(ln)
            m = re.match(r'%("[^"]+"|[\w.$-]+) = (.*)$', s)
            dst = None
            if m: dst = m.group(1).strip('"'); s = m.group(2)
            op = s.split(' ', 1)[0]
            rest = s[len(op):].strip()
            if op == 'alloca':
                t, p = tokenize_type(rest, 0)
                define(dst, T('ptr', to=t)); islocal[dst] = True
                _an = (f.prefix + 'a_' + cname(dst)) if f.is_thread else ('a_' + cname(dst))
                _d = ('%s %s' % (ctype(t), _an)) if t.k == 'arr' else field_decl(t, _an)
                decl.append(('static %s;' % _d) if f.is_thread else ('%s;' % _d))
                an = (f.prefix + 'a_' + cname(dst)) if f.is_thread else ('a_' + cname(dst))
                stm.append('%s = (%s)&%s;' % (f.vname(dst), ctype(T('ptr', to=t)), an))
            elif op == 'load':
                rest = re.sub(r'^atomic\s+', '', rest)
                t, p = tokenize_type(rest, 0); p = skipws(rest, p); assert rest[p] == ','; p += 1
                pt, pv, p = parse_typed_value(rest, p, f)
                define(dst, t)
                nm = re.match(r'\s*%("[^"]+"|[\w.$-]+)', rest[rest.index(',')+1:].replace(tkey_s(pt, rest), '', 1)) if False else None
                if not ptr_is_local(pv, islocal, f) and not rotag.get(pv): stm += Y('load')
                d_ = f.vname(dst)
                if t.k == 'int' and t.bits == 128 and typed_halves(pv, pt):
                    (llo, tlo), (lhi, thi) = typed_halves(pv, pt)
                    stm.append('%s__lo = %s; %s__hi = %s;' % (d_, llo, d_, lhi))
                    f.vals[dst + '__lo'] = tlo; f.vals[dst + '__hi'] = thi
                    pair[d_] = (('ptr', d_ + '__lo', tlo) if tlo.k == 'ptr' else ('int', d_ + '__lo'),
                                ('ptr', d_ + '__hi', thi) if thi.k == 'ptr' else ('int', d_ + '__hi'))
                    stm.append('%s = (((unsigned __int128)%s) << 64) | (unsigned __int128)%s;' % (d_, part_as_int(pair[d_][1]), part_as_int(pair[d_][0])))
                    continue
                if t.k == 'int' and t.bits == 64 and pv in orig and orig[pv][1].k == 'ptr' and orig[pv][1].to.k == 'ptr':
                    root, rty = orig[pv]
                    stm.append('%s__p = *(%s)%s;' % (d_, ctype(rty), root)); f.vals[dst + '__p'] = rty.to
                    prov[d_] = (d_ + '__p', rty.to)
                    stm.append('%s = (uint64_t)(uintptr_t)%s__p;' % (d_, d_))
                    continue
                stm.append('%s = *(%s)%s;' % (f.vname(dst), ctype(T('ptr', to=t)), pv))
            elif op == 'store':
                rest = re.sub(r'^atomic\s+', '', rest)
                vt, vv, p = parse_typed_value(rest, 0, f); p = skipws(rest, p); assert rest[p] == ','; p += 1
                pt, pv, p = parse_typed_value(rest, p, f)
                if not ptr_is_local(pv, islocal, f): stm += Y('store')
                if f.is_thread and rotag.get(pv): stm.append(RO_FAIL)
                if vt.k == 'int' and vt.bits == 128 and vv in pair and typed_halves(pv, pt):
                    (llo, tlo), (lhi, thi) = typed_halves(pv, pt)
                    stm.append('%s = %s; %s = %s; WFLAG' % (llo, part_as(pair[vv][0], tlo), lhi, part_as(pair[vv][1], thi))); continue
                if vt.k == 'int' and vt.bits == 64 and pv in orig and orig[pv][1].k == 'ptr' and orig[pv][1].to.k == 'ptr':
                    root, rty = orig[pv]
                    stm.append('*(%s)%s = %s; WFLAG' % (ctype(rty), root, part_as(part64(vv), rty.to))); continue
                # storing a local pointer somewhere makes it escape (conservative: mark all non-local)
                stm.append('*(%s)%s = %s; WFLAG' % (ctype(T('ptr', to=vt)), pv, vv))
            elif op == 'getelementptr':
                bt, p = tokenize_type(rest, 0); p = skipws(rest, p); assert rest[p] == ','; p += 1
                pt, pv, p = parse_typed_value(rest, p, f); idx = []
                while p < len(rest):
                    p = skipws(rest, p)
                    if p < len(rest) and rest[p] == ',':
                        p += 1; it, iv, p = parse_typed_value(rest, p, f); idx.append(iv)
                    else: break
                e, rt = gep_expr(bt, pv, idx)
                define(dst, T('ptr', to=rt)); islocal[dst] = ptr_is_local(pv, islocal, f)
                if ro_fields:
                    _ro = bool(rotag.get(pv))
                    if not _ro and bt.k == 'struct' and len(idx) > 1:
                        try: _ro = ('%s.%d' % (re.sub(r'^(struct|union)\.', '', bt.name), const_int(idx[1]))) in ro_fields
                        except Exception: _ro = False
                    if _ro: rotag[f.vname(dst)] = True
                stm.append('%s = (%s)%s;' % (f.vname(dst), ctype(T('ptr', to=rt)), e))
            elif op in ('bitcast', 'ptrtoint', 'inttoptr', 'trunc', 'zext', 'sext', 'sitofp', 'uitofp', 'fptosi', 'fptoui', 'fpext', 'fptrunc'):
                ft, fv, p = parse_typed_value(rest, 0, f); p = skipws(rest, p); assert rest.startswith('to', p); p += 2
                tt, p = tokenize_type(rest, p); define(dst, tt)
                if op == 'bitcast' and rotag.get(fv): rotag[f.vname(dst)] = True
                if op == 'bitcast': islocal[dst] = ptr_is_local(fv, islocal, f)
                if op == 'sext':
                    e = '((%s)(%s)(%s)%s)' % (ctype(tt), sct(tt), sct(ft), fv) if ft.bits > 1 else '((%s)(-(%s)(%s & 1)))' % (ctype(tt), sct(tt), fv)
                elif op == 'trunc' and tt.bits == 1: e = '((%s)(%s & 1))' % (ctype(tt), fv)
                elif op in ('ptrtoint', 'inttoptr'): e = '((%s)(uintptr_t)%s)' % (ctype(tt), fv)
                elif op == 'sitofp': e = '((%s)(%s)%s)' % (ctype(tt), sct(ft), fv)
                elif op in ('fptosi',): e = '((%s)(%s)%s)' % (ctype(tt), sct(tt), fv)
                else: e = '((%s)%s)' % (ctype(tt), fv)
                d_ = f.vname(dst)
                if op == 'bitcast' and ft.k == 'ptr': orig[d_] = orig.get(fv, (fv, ft))
                if op == 'ptrtoint' and tt.bits == 64: prov[d_] = (fv, ft)
                if op == 'inttoptr' and fv in prov: e = '((%s)%s)' % (ctype(tt), prov[fv][0])
                if op == 'zext' and tt.k == 'int' and tt.bits == 128 and ft.bits == 64: pair[d_] = (part64(fv), ('zero',))
                if op == 'trunc' and ft.k == 'int' and ft.bits == 128 and tt.bits == 64 and fv in pair:
                    lo_ = pair[fv][0]
                    if lo_[0] == 'ptr': prov[d_] = (lo_[1], lo_[2])
                    e = part_as_int(lo_)
                stm.append('%s = %s;' % (d_, e))
            elif op in ('add', 'sub', 'mul', 'udiv', 'sdiv', 'urem', 'srem', 'shl', 'lshr', 'ashr', 'and', 'or', 'xor', 'fadd', 'fsub', 'fmul', 'fdiv'):
                t, p = tokenize_type(rest, 0); a, p = parse_value(rest, p, t, f); p = skipws(rest, p); assert rest[p] == ','; p += 1
                b, p = parse_value(rest, p, t, f); define(dst, t)
                cop = {'add': '+', 'sub': '-', 'mul': '*', 'udiv': '/', 'urem': '%', 'shl': '<<', 'lshr': '>>', 'and': '&', 'or': '|', 'xor': '^', 'fadd': '+', 'fsub': '-', 'fmul': '*', 'fdiv': '/'}
                if op in cop: e = '((%s)(%s %s %s))' % (ctype(t), a, cop[op], b)
                elif op == 'sdiv': e = '((%s)((%s)%s / (%s)%s))' % (ctype(t), sct(t), a, sct(t), b)
                elif op == 'srem': e = '((%s)((%s)%s %% (%s)%s))' % (ctype(t), sct(t), a, sct(t), b)
                elif op == 'ashr': e = '((%s)((%s)%s >> %s))' % (ctype(t), sct(t), a, b)
                if t.k == 'int' and t.bits == 1: e = '(%s & 1)' % e
                if t.k == 'int' and t.bits == 128:
                    pa = pair.get(a) if const128(a) is None else (('zero',), ('zero',)) if const128(a) == 0 else None
                    pb = pair.get(b) if const128(b) is None else (('zero',), ('zero',)) if const128(b) == 0 else None
                    cb = const128(b); d_ = f.vname(dst)
                    if op == 'shl' and pa and cb == 64: pair[d_] = (('zero',), pa[0])
                    elif op == 'lshr' and pa and cb == 64: pair[d_] = (pa[1], ('zero',))
                    elif op == 'and' and pa and cb == LO64: pair[d_] = (pa[0], ('zero',))
                    elif op == 'and' and pa and cb == HI64: pair[d_] = (('zero',), pa[1])
                    elif op == 'or' and pa and pb and all(x[0] == 'zero' or y[0] == 'zero' for x, y in zip(pa, pb)):
                        pair[d_] = tuple(y if x[0] == 'zero' else x for x, y in zip(pa, pb))
                stm.append('%s = %s;' % (f.vname(dst), e))
            elif op == 'icmp':
                cond, r2 = rest.split(' ', 1); t, p = tokenize_type(r2, 0); a, p = parse_value(r2, p, t, f); p = skipws(r2, p); assert r2[p] == ','; p += 1
                b, p = parse_value(r2, p, t, f); define(dst, T('int', bits=1))
                cops = {'eq': '==', 'ne': '!=', 'ugt': '>', 'uge': '>=', 'ult': '<', 'ule': '<=', 'sgt': '>', 'sge': '>=', 'slt': '<', 'sle': '<='}
                if cond[0] == 's': e = '((%s)%s %s (%s)%s)' % (sct(t), a, cops[cond], sct(t), b)
                elif t.k == 'ptr' and cond in ('ugt', 'uge', 'ult', 'ule'): e = '((uintptr_t)%s %s (uintptr_t)%s)' % (a, cops[cond], b)
                else: e = '(%s %s %s)' % (a, cops[cond], b)
                stm.append('%s = %s;' % (f.vname(dst), e))
            elif op == 'select':
                ct, cv, p = parse_typed_value(rest, 0, f); p = skipws(rest, p); p += 1
                t, a, p = parse_typed_value(rest, p, f); p = skipws(rest, p); p += 1
                t2, b, p = parse_typed_value(rest, p, f); define(dst, t)
                stm.append('%s = %s ? %s : %s;' % (f.vname(dst), cv, a, b))
            elif op == 'phi':
                t, p = tokenize_type(rest, 0); inc = []; define(dst, t)
                for mm in re.finditer(r'\[\s*(.*?),\s*%("[^"]+"|[\w.$-]+)\s*\]', rest[p:]):
                    v, _ = parse_value(mm.group(1).strip(), 0, t, f); inc.append((v, mm.group(2).strip('"')))
                phis[bn].append((dst, t, inc))
            elif op == 'br':
                if rest.startswith('label'):
                    tgt = re.match(r'label %("[^"]+"|[\w.$-]+)', rest).group(1).strip('"'); stm.append(('BR', tgt))
                else:
                    m2 = re.match(r'i1 (.*?), label %("[^"]+"|[\w.$-]+), label %("[^"]+"|[\w.$-]+)', rest)
                    cv, _ = parse_value(m2.group(1), 0, T('int', bits=1), f)
                    stm.append(('CBR', cv, m2.group(2).strip('"'), m2.group(3).strip('"')))
            elif op == 'switch':
                t, v, p = parse_typed_value(rest, 0, f)
                dflt = re.search(r', label %("[^"]+"|[\w.$-]+) \[', rest).group(1).strip('"')
                cases = re.findall(r'i\d+ (-?\d+), label %("[^"]+"|[\w.$-]+)', rest[rest.index('['):])
                stm.append(('SW', v, t, dflt, [(int(c), l.strip('"')) for c, l in cases]))
            elif op == 'ret':
                if rest.strip() == 'void': stm.append(('RET', None))
                else:
                    t, v, p = parse_typed_value(rest, 0, f); stm.append(('RET', v))
            elif op == 'unreachable': stm.append('VASSUME(0);')
            elif op == 'fence': stm += []   # SC: nothing
            elif op == 'cmpxchg':
                pt, pv, p = parse_typed_value(rest, 0, f); p = skipws(rest, p); p += 1
                ct_, cv, p = parse_typed_value(rest, p, f); p = skipws(rest, p); p += 1
                nt, nv, p = parse_typed_value(rest, p, f)
                rt = T('lit', fields=[ct_, T('int', bits=1)], packed=False); define(dst, rt)
                stm += Y('cmpxchg')
                if f.is_thread and rotag.get(pv): stm.append(RO_FAIL)
                d = f.vname(dst)
                if ct_.k == 'int' and ct_.bits == 128 and cv in pair and nv in pair and typed_halves(pv, pt):
                    (llo, tlo), (lhi, thi) = typed_halves(pv, pt)
                    stm.append('{ %s __ol = %s; %s __oh = %s; %s.f0 = (((unsigned __int128)(uint64_t)(uintptr_t)__oh) << 64) | (unsigned __int128)(uint64_t)(uintptr_t)__ol; '
                               '%s.f1 = (__ol == %s && __oh == %s); if(%s.f1){ %s = %s; %s = %s; WFLAG } }' %
                               (ctype(tlo), llo, ctype(thi), lhi, d, d, part_as(pair[cv][0], tlo), part_as(pair[cv][1], thi), d,
                                llo, part_as(pair[nv][0], tlo), lhi, part_as(pair[nv][1], thi)))
                    continue
                if ct_.k == 'int' and ct_.bits == 64 and pv in orig and orig[pv][1].k == 'ptr' and orig[pv][1].to.k == 'ptr':
                    root, rty = orig[pv]; et = rty.to
                    stm.append('{ %s __o = *(%s)%s; %s.f0 = (uint64_t)(uintptr_t)__o; %s.f1 = (__o == %s); if(%s.f1){ *(%s)%s = %s; WFLAG } }' %
                               (ctype(et), ctype(rty), root, d, d, part_as(part64(cv), et), d, ctype(rty), root, part_as(part64(nv), et)))
                    continue
                stm.append('{ %s __o = *(%s)%s; %s.f0 = __o; %s.f1 = (__o == %s); if(%s.f1){ *(%s)%s = %s; WFLAG } }' %
                           (ctype(ct_), ctype(pt), pv, d, d, cv, d, ctype(pt), pv, nv))
            elif op == 'atomicrmw':
                aop, r2 = rest.split(' ', 1); pt, pv, p = parse_typed_value(r2, 0, f); p = skipws(r2, p); p += 1
                vt, vv, p = parse_typed_value(r2, p, f); define(dst, vt)
                stm += Y('rmw'); d = f.vname(dst)
                if f.is_thread and rotag.get(pv): stm.append(RO_FAIL)
                cop = {'add': '+', 'sub': '-', 'or': '|', 'and': '&', 'xor': '^'}
                if aop == 'xchg': upd = vv
                else: upd = '(%s)(%s %s %s)' % (ctype(vt), d, cop[aop], vv)
                stm.append('%s = *(%s)%s; *(%s)%s = %s; WFLAG' % (d, ctype(pt), pv, ctype(pt), pv, upd))
            elif op == 'extractvalue':
                t, v, p = parse_typed_value(rest, 0, f); idxs = [int(x) for x in re.findall(r',\s*(\d+)', rest[p:])]
                cur = t; e = v
                for ix in idxs:
                    e += '.f%d' % ix; cur = cur.fields[ix] if cur.k == 'lit' else named[cur.name][ix]
                define(dst, cur); stm.append('%s = %s;' % (f.vname(dst), e))
            elif op == 'insertvalue':
                t, v, p = parse_typed_value(rest, 0, f); p = skipws(rest, p); p += 1
                et, ev, p = parse_typed_value(rest, p, f); idxs = [int(x) for x in re.findall(r',\s*(\d+)', rest[p:])]
                define(dst, t); d = f.vname(dst)
                stm.append('%s = %s; %s%s = %s;' % (d, v if v != 'ZERO_' + cname(ctype(t)) else '(%s){0}' % ctype(t), d, ''.join('.f%d' % x for x in idxs), ev))
            elif op == 'call':
                rt, p = tokenize_type(rest, 0); p = skipws(rest, p)
                # optional function type
                if rest[p] == '(':
                    # rt followed by full fn type already consumed by tokenize_type as 'fn' if present
                    pass
                fty = None
                if rt.k == 'fn': fty = rt; rt = fty.ret
                p = skipws(rest, p)
                if rest[p] == '@':
                    m3 = re.match(r'@("[^"]+"|[\w.$-]+)', rest[p:]); callee = m3.group(1).strip('"'); p += m3.end(); cexpr = cname(callee); direct = True
                else:
                    m3 = re.match(r'%("[^"]+"|[\w.$-]+)', rest[p:]); callee = None; cexpr = f.vname(m3.group(1).strip('"')); p += m3.end(); direct = False
                assert rest[p] == '('; p += 1; args = []
                p = skipws(rest, p)
                if rest[p] != ')':
                    while True:
                        at, av, p = parse_typed_value(rest, p, f); args.append((at, av)); p = skipws(rest, p)
                        if rest[p] == ',': p += 1; continue
                        if rest[p] == ')': break
                        raise Exception('call args ' + rest[p:p+40])
                if direct and callee.startswith('llvm.'):
                    if callee.startswith('llvm.lifetime') or callee.startswith('llvm.dbg') or callee.startswith('llvm.assume'): continue
                    if callee.startswith('llvm.memcpy') or callee.startswith('llvm.memmove'):
                        # initialising a non-escaping local from a compiler-generated constant (`struct timespec ts = {..}`) touches no shared memory
                        if not (ro_fields and ptr_is_local(args[0][1], islocal, f) and re.search(r'\(&G___const_[A-Za-z0-9_]+\)', args[1][1])): stm += Y('memcpy')
                        stm.append('memmove(%s, %s, %s); WFLAG' % (args[0][1], args[1][1], args[2][1])); continue
                    if callee.startswith('llvm.memset'):
                        stm += Y('memset'); stm.append('memset(%s, %s, %s); WFLAG' % (args[0][1], args[1][1], args[2][1])); continue
                    if callee.startswith('llvm.expect'):
                        define(dst, rt); stm.append('%s = %s;' % (f.vname(dst), args[0][1])); continue
                    raise Exception('intrinsic ' + callee)
                if direct and callee in ('__vp_assert', '__vp_assume', '__vp_witness', '__vp_in'):
                    if callee == '__vp_in':
                        define(dst, rt); stm.append('%s = (%s)IN_LL(); WFLAG' % (f.vname(dst), ctype(rt))); continue
                    if callee == '__vp_assume':
                        stm.append('VASSUME(%s);' % args[0][1]); continue
                    if callee == '__vp_witness':
                        stm.append('VWITNESS(%s);' % cstring(args[0][1])); continue
                    stm.append('VASSERTM(%s, %s);' % (args[0][1], cstring(args[1][1]))); continue
                if direct and callee in LIBC:
                    lr, la = LIBC[callee]
                    call = '%s(%s)' % (callee, ', '.join('(%s)%s' % (la[k] if k < len(la) else 'uint64_t', a) for k, (_, a) in enumerate(args)))
                    if f.is_thread: stm += Y('call')
                    if rt.k == 'void': stm.append(call + '; WFLAG')
                    else: define(dst, rt); stm.append('%s = (%s)%s; WFLAG' % (f.vname(dst), ctype(rt), call))
                    continue
                if direct and callee in benign:
                    if rt.k != 'void': define(dst, rt); stm.append('%s = 0;' % f.vname(dst))
                    continue
                if direct and callee not in fnnames:
                    externs.setdefault(callee, (rt, [a for a, _ in args], bool(fty and fty.va)))
                call = '%s(%s)' % (cexpr, ', '.join(a for _, a in args))
                if f.is_thread and not (direct and callee in pure_externs): stm += Y('call')
                if rt.k == 'void': stm.append(call + '; WFLAG')
                else: define(dst, rt); stm.append('%s = %s; WFLAG' % (f.vname(dst), call))
            else:
                raise Exception('unhandled: ' + ln)
    # emit
    args = ', '.join(['%s %s' % (ctype(t), f.vname(n)) for t, n in f.params] + (['...'] if f.va else [])) or 'void'
    if not f.is_thread:
        emit('%s %s(%s) {' % (ctype(f.rt), cname(f.name), args))
        for n, t in f.vals.items(): emit('  %s %s;' % (ctype(t), f.vname(n)))
        for d in decl: emit('  ' + d)
    def pure_loop(hi, bi):
        """blocks hi..bi (layout order) contain no store / atomic / non-benign call: an iteration that was
        not preempted re-reads unchanged memory; loop-carried SSA values (phis) can then only be spin
        counters gating benign calls (declared by the harness author, listed in the evidence)"""
        if not benign: return False
        for bn_, ins_ in blocks[hi:bi + 1]:
            for ln_ in ins_:
                x = strip_attrs(ln_); x = re.sub(r'^%("[^"]+"|[\w.$-]+) = ', '', x)
                op_ = x.split(' ', 1)[0]
                if op_ in ('store', 'cmpxchg', 'atomicrmw'): return False
                if op_ == 'call':
                    m_ = re.search(r'@("[^"]+"|[\w.$-]+)\(', x)
                    if not m_ or not (m_.group(1).strip('"') in benign or m_.group(1).startswith('llvm.lifetime') or m_.group(1).startswith('llvm.dbg')): return False
        return True
    def edge(frm, to):
        # phi copies for edge frm->to (parallel copy via temps)
        ph = phis[to]; s = ''
        if ph:
            s += '{ ' + ' '.join('%s __t%d = %s;' % (ctype(t), k, [v for v, pr in inc if pr == frm or (pr == entry_label and frm == 'ENTRY')][0]) for k, (d, t, inc) in enumerate(ph))
            s += ' ' + ' '.join('%s = __t%d;' % (f.vname(d), k) for k, (d, t, inc) in enumerate(ph)) + ' } '
        order = [b for b, _ in blocks]
        if f.is_thread and order.index(to) <= order.index(frm) and not _args.noprune and (not phis[to] or pure_loop(order.index(to), order.index(frm))):
            if _args.drain:
                yieldno[0] += 1; k = yieldno[0]
                s += 'if(!%sw){ if(vp_drain){ %spc = %d; %sblocked = 1; return; } VASSUME(0); } case %d:; %sw = 0; ' % (f.prefix, f.prefix, k, f.prefix, k, f.prefix)
            else:
                s += 'if(!%sw) VASSUME(0); %sw = 0; ' % (f.prefix, f.prefix)
        return s + 'goto B_%s;' % cname(to)
    entry_label = str(len(f.params)) if all(re.match(r'\d+$', n) for _, n in f.params) else '0'
    first = True
    pend = []
    for bn, ins in blocks:
        lbl = 'B_%s' % cname(bn)
        body = []
        for st in code[bn]:
            if isinstance(st, tuple):
                if st[0] == 'BR': body.append(edge(bn, st[1]))
                elif st[0] == 'CBR': body.append('if(%s){ %s } else { %s }' % (st[1], edge(bn, st[2]), edge(bn, st[3])))
                elif st[0] == 'SW':
                    body.append('switch((%s)%s){ %s default: { %s } }' % (sct(st[2]), st[1], ' '.join('case %d: { %s }' % (c, edge(bn, l)) for c, l in st[4]), edge(bn, st[3])))
                elif st[0] == 'RET':
                    if f.is_thread: body.append('%spc = -1; return;' % f.prefix)
                    else: body.append('return %s;' % st[1] if st[1] is not None else 'return;')
            else: body.append(st)
        pend.append((lbl, body))
    if f.is_thread:
        # ---- liveness: a value whose definition and all uses sit in one segment (the
        # statements between two yield points of one basic block) is a block-scoped local;
        # only values live across a yield or a block boundary are static (= thread state
        # that survives preemption).  This keeps the symbolic state merged at every
        # resume label small.
        tok = re.compile(r'\b' + re.escape(f.prefix) + r'v_\w+\b')
        name_of = {f.vname(n): n for n in f.vals}
        defseg = {}; useseg = {}
        segs = []   # (lbl, [ [stmts...], ... ])
        for lbl, body in pend:
            cur = []; ss = [cur]
            for b in body:
                if b.startswith('if(__yield())'):
                    cur = [b]; ss.append(cur)
                else: cur.append(b)
            segs.append((lbl, ss))
        for bi, (lbl, ss) in enumerate(segs):
            for si, st in enumerate(ss):
                for b in st:
                    m0 = re.match(r'\s*(?:\{ \S+ __o = [^;]*; )?(' + re.escape(f.prefix) + r'v_\w+)(?:\.f\d+)? = ', b)
                    dn = m0.group(1) if m0 else None
                    for mm in tok.finditer(b):
                        v = mm.group(0)
                        if v not in name_of: continue
                        useseg.setdefault(v, set()).add((bi, si))
                    if dn and dn in name_of: defseg.setdefault(dn, set()).add((bi, si))
        phidst = set(f.vname(d) for bn in phis for (d, t, inc) in phis[bn])
        local_in = {}
        for v, n in name_of.items():
            ds = defseg.get(v, set()); us = useseg.get(v, set())
            if v not in phidst and len(ds) == 1 and us <= ds:
                local_in.setdefault(next(iter(ds)), []).append(v)
        nloc = sum(len(x) for x in local_in.values())
        emit('/* thread %s: %d SSA values, %d segment-local, %d live across yields */' % (f.name, len(name_of), nloc, len(name_of) - nloc))
        emit('static int %spc, %sw, %sblocked;' % (f.prefix, f.prefix, f.prefix))
        islocalv = set(v for vs in local_in.values() for v in vs)
        for n, t in f.vals.items():
            if f.vname(n) not in islocalv: emit('static %s %s;' % (ctype(t), f.vname(n)))
        for d in decl: emit(d)
        emit('static void %s(void) {' % cname(f.name))
        emit('  switch(%spc){ default: return; case 0: ;' % f.prefix)
        for bi, (lbl, ss) in enumerate(segs):
            emit('  %s: ;' % lbl)
            for si, st in enumerate(ss):
                rest = st
                if st and st[0].startswith('if(__yield())'):
                    emit('    ' + st[0]); rest = st[1:]
                emit('    {')
                for v in local_in.get((bi, si), []):
                    emit('      %s %s;' % (ctype(f.vals[name_of[v]]), v))
                for b in rest: emit('      ' + b.replace('WFLAG', '%sw = 1;' % f.prefix))
                emit('    }')
        emit('  }')
        emit('}')
    else:
        for lbl, body in pend:
            emit('  %s: ;' % lbl)
            for b in body: emit('    ' + b.replace('WFLAG', ''))
        emit('}')

def sct(t):
    b = t.bits
    if b <= 8: return 'int8_t'
    if b <= 16: return 'int16_t'
    if b <= 32: return 'int32_t'
    if b <= 64: return 'int64_t'
    return '__int128'

def ptr_is_local(pv, islocal, f):
    m = re.match(r'^(\w+)$', pv)
    if not m: return False
    for n, loc in islocal.items():
        if f.vname(n) == pv: return loc
    return False
def tkey_s(a, b): return ''

externs = {}
pure_externs = set()
LIBC = {'malloc': ('void*', ['size_t']), 'calloc': ('void*', ['size_t', 'size_t']), 'free': ('void', ['void*']),
        'realloc': ('void*', ['void*', 'size_t']), 'memcpy': ('void*', ['void*', 'const void*', 'size_t']),
        'memmove': ('void*', ['void*', 'const void*', 'size_t']), 'memset': ('void*', ['void*', 'int', 'size_t']),
        'strlen': ('size_t', ['const char*']), 'strcmp': ('int', ['const char*', 'const char*']),
        'strncmp': ('int', ['const char*', 'const char*', 'size_t']), 'strdup': ('char*', ['const char*']),
        'abort': ('void', []), 'exit': ('void', ['int']), 'posix_memalign': ('int', ['void**', 'size_t', 'size_t'])}
strconst = {}
def cstring(expr):
    """C string literal for an argument expression that points to a constant string global"""
    m = re.search(r'G_([A-Za-z0-9_]+)', expr)
    if m and m.group(1) in strconst: return '"%s"' % strconst[m.group(1)]
    return '"?"'
for _n, _rest in globs:
    _m = re.search(r'c"((?:[^"\\]|\\[0-9A-Fa-f]{2})*)"', _rest)
    if _m:
        _raw = re.sub(r'\\([0-9A-Fa-f]{2})', lambda mm: chr(int(mm.group(1), 16)), _m.group(1)).rstrip('\x00')
        strconst[cname(_n)] = re.sub(r'[^ -~]|["\\]', '_', _raw)

# ------------- emit module
fobjs = [Fn(h, b) for h, b in funcs]
body_out = []
for f in fobjs:
    out = []
    try:
        translate_fn(f)
    except Exception as _e:
        if f.is_thread: raise
        # not translatable (variadic callee using va_arg, inline asm, ...): keep the symbol, but make
        # reaching it an INTERNAL failure so that it can never silently weaken a verdict
        out = []
        _args_s = ', '.join(['%s %s' % (ctype(t), f.vname(n)) for t, n in f.params] + (['...'] if f.va else [])) or 'void'
        emit('/* NOT TRANSLATED: %s (%s) */' % (f.name, str(_e).replace('*/', '* /')[:120]))
        emit('%s %s(%s) {' % (ctype(f.rt), cname(f.name), _args_s))
        emit('  VP_INTERNAL_FAIL("INTERNAL: untranslated function %s reached");' % cname(f.name))
        if f.rt.k != 'void': emit('  { %s vp_z; memset(&vp_z, 0, sizeof vp_z); return vp_z; }' % ctype(f.rt))
        emit('}')
    body_out.append('\n'.join(out))

def render():
    buf = []
    def P(x=""): buf.append(x)
    global emitted, sdefs, lit_done, changed
    hdr = ['/* generated by vp/ll2c.py -- do not edit */', '#include <stdint.h>', '#include <stddef.h>', '#include <string.h>', '#include <stdlib.h>',
           '#include "vp_harness.h"', 'static int vp_drain;', '#ifdef VP_NATIVE', 'static inline _Bool __yield(void){ if(vp_drain || getenv("VP_NOYIELD")) return 0; return IN_BOOL(); }', '#else', 'static inline _Bool __yield(void){ if(vp_drain) return 0; return IN_BOOL(); }', '#endif']
    # struct forward decls
    for n in named: hdr.append('struct S_%s;' % cname(n))
    # global decl texts (may create lits)
    gtxt = []
    for n, rest in globs:
        r = strip_attrs(rest)
        r = re.sub(r'^(global|constant)\s+', '', re.sub(r'^(thread_local\s+)?', '', r))
        try:
            t, p = tokenize_type(r, 0)
            if r[p:].strip() == '' or re.match(r'^\s*,', r[p:]): init = None
            else:
                dummy = Fn('define void @__dummy()', [])
                init, _ = parse_init(r, p, t, dummy)
            if t.k == 'arr': ctype(t)          # register the wrapper struct before struct emission
            gtxt.append((n, t, 'EXTERNAL' if re.match(r'^\s*external\b', rest) or ' external ' in (' ' + rest.split('global')[0].split('constant')[0]) else init))
        except Exception as e:
            gtxt.append((n, None, 'ERR ' + str(e)))
    # order struct definitions: emit named structs (by-value dependencies need order: do simple DFS)
    emitted = set(); sdefs = []
    def emit_struct_named(n):
        if n in emitted or named.get(n) is None: return
        emitted.add(n)
        for ft in named[n]: dep(ft)
        sdefs.append('struct S_%s { %s }%s;' % (cname(n), ' '.join(field_decl(ft, 'f%d' % k) + ';' for k, ft in enumerate(named[n])) or 'char __empty;', ' __attribute__((packed))' if named_packed.get(n) else ''))
    def dep(t):
        if t.k == 'struct': emit_struct_named(t.name)
        elif t.k == 'arr': dep(t.elem)
        elif t.k == 'lit':
            for ft in t.fields: dep(ft)
            emit_lit(t)
    def emit_lit(t):
        key = tkey(t); nm = ctype(t)
        if ('L', key) in emitted: return
        emitted.add(('L', key))
        sdefs.append('%s { %s };' % (nm, ' '.join(field_decl(ft, 'f%d' % k) + ';' for k, ft in enumerate(t.fields))))
    for n in list(named): emit_struct_named(n)
    # literal/array wrapper structs & fn typedefs discovered during translation
    changed = True
    lit_done = set()
    while changed:
        changed = False
        for key, (nm, t) in list(lits.items()):
            if key in lit_done: continue
            lit_done.add(key); changed = True
            for ft in t.fields: dep(ft)
            if ('L', tkey(t)) not in emitted or getattr(t, 'isarr', False):
                sdefs.append('%s { %s };' % (nm, ' '.join(field_decl(ft, 'f%d' % k) + ';' for k, ft in enumerate(t.fields))))
                emitted.add(('L', tkey(t)))
    fdefs = []
    _fdone = set()
    def _emit_fnty(key):
        if key in _fdone: return
        _fdone.add(key)
        nm, t = fntys[key]
        parts = [ctype(t.ret)] + [ctype(a) for a in t.args]          # may register further function types
        for sub in [t.ret] + list(t.args):                           # typedefs used by this one come first
            if sub.k == 'ptr' and sub.to.k == 'fn': _emit_fnty(tkey(sub.to))
        fdefs.append('typedef %s (*%s)(%s);' % (parts[0], nm, ', '.join(parts[1:] + (['...'] if t.va else [])) or 'void'))
    while True:
        _pending = [k for k in list(fntys) if k not in _fdone]
        if not _pending: break
        for key in _pending: _emit_fnty(key)
    P('\n'.join(hdr))
    P('\n'.join(x for x in sdefs if False))
    # fn typedefs may reference structs by pointer only: put after forward decls
    P('\n'.join(fdefs))
    P('\n'.join(sdefs))
    for n, (rt, ats, va) in externs.items():
        P('extern %s %s(%s);' % (ctype(rt), cname(n), ', '.join([ctype(a) for a in ats] + (['...'] if va else [])) or 'void'))
    for f in fobjs:
        if not f.is_thread:
            P('%s %s(%s);' % (ctype(f.rt), cname(f.name), ', '.join([ctype(t) for t, _ in f.params] + (['...'] if f.va else [])) or 'void'))
    for n, t, init in gtxt:      # forward declarations (initializers may reference later globals)
        if t is None: continue
        P('extern %s;' % (('%s G_%s' % (ctype(t), cname(n))) if t.k == 'arr' else field_decl(t, 'G_' + cname(n))))
    for n, t, init in gtxt:
        if t is None: P('/* global %s: %s */' % (n, init)); continue
        if init == 'EXTERNAL': continue
        if t.k == 'arr':
            P('%s G_%s%s;' % (ctype(t), cname(n), (' = { ' + init + ' }') if init and init != 'ZEROINIT' else ''))
        else:
            P('%s%s;' % (field_decl(t, 'G_' + cname(n)), (' = ' + init) if init and init != 'ZEROINIT' else ''))
    P('\n\n'.join(body_out))

    # ---------------------------------------------------------------- scheduler main
    tn = [cname(t) for t in threads]
    P()
    P('int main(void) {')
    P('  %s();' % cname(_args.setup))
    P('  for(int vp_round = 0; vp_round < %d; vp_round++) {' % _args.rounds)
    for t in tn:
        P('    if(T_%s_pc != -1) { T_%s_w = 1; %s(); }' % (t, t, t))
    P('  }')
    if _args.drain:
        P('  vp_drain = 1;')
        P('  for(int vp_pass = 0; vp_pass < %d; vp_pass++) {' % len(tn))
        for t in tn:
            P('    if(T_%s_pc != -1) { T_%s_w = 1; T_%s_blocked = 0; %s(); }' % (t, t, t, t))
        P('  }')
        P('  VASSERTM(%s, "progress: once the symbolic schedule ends, running the threads in turn completes all of them (no deadlock, no lost wake-up)");' % ' && '.join('T_%s_pc == -1' % t for t in tn))
        P('  VASSUME(%s);' % ' && '.join('T_%s_pc == -1' % t for t in tn))
    else:
        P('  VASSUME(%s);' % ' && '.join('T_%s_pc == -1' % t for t in tn))
    P('  %s();' % cname(_args.check))
    P('  return 0;')
    P('}')

    return "\n".join(buf)

render()          # first pass registers every wrapper struct / function type used anywhere
sys.stdout.write(render() + "\n")
