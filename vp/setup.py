#!/usr/bin/env python3
"""setup_cmd: offline sanity check of the tools the checks need.  Nothing is
built here: every check compiles what it needs from /repo at run time."""
import shutil, subprocess, sys, os
need = ["cbmc", "goto-cc", "goto-instrument", "gcc", "clang-14", "opt-14", "llvm-link-14", "bison", "flex", "kissat"]
bad = [t for t in need if not shutil.which(t)]
if bad:
    print("missing tools:", bad); sys.exit(1)
v = subprocess.run(["cbmc", "--version"], capture_output=True, text=True).stdout.strip()
print("cbmc", v)
cfg = "/repo/_build/parsec/include/parsec/parsec_config.h"
print("config headers:", cfg if os.path.exists(cfg) else "fallback /verif/config")
os.makedirs(os.path.join(os.path.dirname(os.path.dirname(os.path.abspath(__file__))), "evidence"), exist_ok=True)
print("setup ok")
