"""Query description used by harness/<id>/spec.py files.

A *query* is one solver obligation over the real code: a set of C sources
(harness files from the property directory + real translation units from the
repository under test), compile-time definitions, CBMC bounds and the
description of what is symbolic / enumerated / stubbed (copied into the
evidence).  The driver (vp/run.py) compiles it with goto-cc from the CURRENT
working tree of the repository, runs CBMC once with all WITNESS assertions
enabled, and classifies the per-assertion results.
"""
import os


class Q(object):
    def __init__(self, name, srcs, defs=(), unwind=None, unwindset=(),
                 checks=(), object_bits=None, timeout=None, mem_gb=None,
                 solver="cadical", engine="A", kf=None, native=True,
                 remove_bodies=(), info=None, units=(), incs=(),
                 patches=(), gen=None, extra_cbmc=(), nowitness=False,
                 tiers=("quick", "thorough"),
                 cflags=(), slow=False, unwind_fn=None, restrict_fp=()):
        self.name = name
        # srcs: paths relative to the property directory, or "repo:<rel>" for a
        # real translation unit compiled as its own TU (link style), or an
        # absolute path (generated code).
        self.srcs = list(srcs)
        self.defs = list(defs)
        self.unwind = unwind
        self.unwindset = list(unwindset)
        # checks: subset of {"bounds","pointer","div-by-zero","signed-overflow",
        #  "pointer-primitive","undefined-shift","conversion","memory-leak"}
        self.checks = list(checks)
        self.object_bits = object_bits
        self.timeout = timeout
        self.mem_gb = mem_gb
        self.solver = solver
        self.engine = engine          # A | G | T | S
        self.kf = kf                  # id of a known finding this query can hit
        self.native = native          # native replay of counterexamples possible
        self.remove_bodies = list(remove_bodies)
        self.info = dict(info or {})  # bounds / symbolic / enumerated / stubs / assumptions
        # units: repo-relative files whose code is encoded (for sha1 in evidence);
        # "repo:" sources are added automatically.
        self.units = list(units)
        self.incs = list(incs)
        # patches: [(relpath, regex, replacement)] applied to a scratch overlay copy
        # of a repo file, regenerated from the repo on every run (struct hack).
        self.patches = list(patches)
        # gen: optional callable(ctx, q, workdir) run before compilation; may
        # append to q.srcs (generated code: ptgpp output, seqir output).
        self.gen = gen
        self.extra_cbmc = list(extra_cbmc)
        self.nowitness = nowitness
        self.tiers = tuple(tiers)
        self.cflags = list(cflags)
        self.unwind_fn = dict(unwind_fn or {})   # {function name: unwind bound for all its loops}
        self.slow = slow              # counts as a >=3GB query for the parallelism cap
        # restrict_fp: [("<function>.function_pointer_call.<n>", [targets...])] -> goto-instrument
        # --restrict-function-pointer: the call site becomes a case split over the listed targets plus
        # 'ASSERT false // dereferenced function pointer must be ...' (checked by the same cbmc run, so a
        # wrong restriction is reported, never silently assumed).  Needed where CBMC's type-based candidate
        # sets for callbacks explode (scheduling.c + termination callbacks).
        self.restrict_fp = [(a, list(b)) for a, b in restrict_fp]


class Mutant(object):
    """A seeded change to the repository (applied to an overlay copy) that the
    listed queries must report.  Used by the self-test (thorough tier and
    ./check <id> --mutants)."""

    def __init__(self, name, path, old, new, queries=None, count=1, regex=False):
        self.name = name
        self.path = path
        self.old = old
        self.new = new
        self.queries = queries        # None = any query of the property
        self.count = count
        self.regex = regex
