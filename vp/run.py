#!/usr/bin/env python3
"""Driver: ./check <property> [--tier quick|thorough] [--mutants] [--only q1,q2] [--keep]

For every query of harness/<property>/spec.py:
  * regenerate overlays (header patches) and generated code from the CURRENT
    working tree of the repository ($VP_REPO, default /repo),
  * compile harness + real translation units with goto-cc and the product's
    flags, run CBMC (bounded, unwinding assertions on) with a SAT back end,
  * classify every assertion: property ("P:"), vacuity witness ("WITNESS:",
    must be violated), unwinding/standard checks,
  * on a property violation: re-run with --trace, extract the drawn inputs,
    rebuild the same harness + the same sources with gcc (ASan/UBSan) and replay
    them natively; only then print VIOLATION,
  * write evidence/<property>.json.
Exit: 0 held / 1 violation / 2 internal error (no verdict, witness unreachable,
bound too small, counterexample not reproduced).
"""
import argparse
import copy
import concurrent.futures
import hashlib
import importlib.util
import json
import os
import re
import shutil
import subprocess
import sys
import tempfile
import threading
import time
import traceback

VERIF = os.path.dirname(os.path.dirname(os.path.abspath(__file__)))
sys.path.insert(0, VERIF)
from vp.api import Q, Mutant  # noqa: E402
from vp.util import (PRODUCT_DEFS, PRODUCT_FLAGS, MPI_INCS, InternalError, run_cmd)  # noqa: E402

CHECK_FLAGS = {
    "bounds": "--bounds-check", "pointer": "--pointer-check",
    "div-by-zero": "--div-by-zero-check", "signed-overflow": "--signed-overflow-check",
    "pointer-primitive": "--pointer-primitive-check",
    "undefined-shift": "--undefined-shift-check", "conversion": "--conversion-check",
    "memory-leak": "--memory-leak-check", "unsigned-overflow": "--unsigned-overflow-check",
}

_print_lock = threading.Lock()


def say(*a):
    with _print_lock:
        print(*a, flush=True)


class Ctx(object):
    def __init__(self, pid, tier, work, jobs, keep=False):
        self.pid = pid
        self.tier = tier
        self.thorough = (tier == "thorough")
        self.work = work
        self.jobs = jobs
        self.keep = keep
        self.repo = os.path.abspath(os.environ.get("VP_REPO", "/repo"))
        self.verif = VERIF
        self.pdir = os.path.join(VERIF, "harness", pid)
        self.seed = int(os.environ.get("VERIF_SEED", "0") or 0)
        self.slow_sem = threading.Semaphore(int(os.environ.get("VP_SLOW_JOBS", "4")))
        self._locks = {}
        self._lock = threading.Lock()
        self.cache = {}
        cfgs = []
        for base in (self.repo, "/repo"):
            d = os.path.join(base, "_build", "parsec", "include")
            if os.path.exists(os.path.join(d, "parsec", "parsec_config.h")):
                cfgs = [d, os.path.join(base, "_build")]
                break
        # committed fallback copy of the generated headers (also supplies the
        # few generated headers a configure-only tree lacks)
        cfgs.append(os.path.join(VERIF, "config"))
        self.cfg_incs = cfgs

    def once(self, key, fn):
        """Run fn() once per driver run (thread safe), cache its result."""
        with self._lock:
            lk = self._locks.setdefault(key, threading.Lock())
        with lk:
            if key not in self.cache:
                self.cache[key] = fn()
            return self.cache[key]

    def inc_flags(self, overlays=(), extra=()):
        dirs = []
        for o in overlays:
            # an overlay copy of a public header (parsec/include/parsec/*.h) must shadow the
            # repository's parsec/include directory too, not only the repository root
            oi = os.path.join(o, "parsec", "include")
            if os.path.isdir(oi):
                dirs.append(oi)
            dirs.append(o)
        dirs += [self.pdir, os.path.join(VERIF, "vp", "include")]
        dirs += list(extra) + self.cfg_incs
        dirs += [os.path.join(self.repo, "parsec", "include"), self.repo] + MPI_INCS
        return ["-I" + d for d in dirs]

    def resolve(self, rel, overlays=()):
        for o in overlays:
            p = os.path.join(o, rel)
            if os.path.exists(p):
                return p
        return os.path.join(self.repo, rel)

    def sha1(self, rel):
        try:
            with open(os.path.join(self.repo, rel), "rb") as f:
                return hashlib.sha1(f.read()).hexdigest()[:12]
        except OSError:
            return None


def make_overlay(ctx, dst, edits, base_overlays=()):
    """edits: [(relpath, old, new, regex, count)] applied to a copy of the repo file."""
    for rel, old, new, regex, count in edits:
        src = os.path.join(dst, rel)
        if not os.path.exists(src):
            os.makedirs(os.path.dirname(src), exist_ok=True)
            shutil.copy(ctx.resolve(rel, base_overlays), src)
        with open(src) as f:
            txt = f.read()
        if regex:
            ntxt, n = re.subn(old, new, txt, count=count or 0, flags=re.M)
        else:
            n = txt.count(old)
            ntxt = txt.replace(old, new, count) if count else txt.replace(old, new)
        if n == 0:
            raise InternalError("overlay edit does not apply to %s: %r" % (rel, old[:60]))
        with open(src, "w") as f:
            f.write(ntxt)


def parse_cbmc_json(text):
    """Return (results, stats, status, errors) from cbmc --json-ui output."""
    try:
        data = json.loads(text)
    except Exception:
        # truncated output (killed): salvage nothing
        return None, {}, None, ["unparsable cbmc output"]
    results, stats, status, errors = None, {}, None, []
    for m in data:
        if not isinstance(m, dict):
            continue
        if "result" in m:
            results = m["result"]
        if "cProverStatus" in m:
            status = m["cProverStatus"]
        mt = m.get("messageText", "")
        if m.get("messageType") == "ERROR":
            errors.append(mt)
        mm = re.search(r"(\d+) variables, (\d+) clauses", mt)
        if mm:
            stats["variables"] = max(stats.get("variables", 0), int(mm.group(1)))
            stats["clauses"] = max(stats.get("clauses", 0), int(mm.group(2)))
        mm = re.search(r"Runtime Solver: ([\d.eE+-]+)s", mt)
        if mm:
            stats["solver_s"] = stats.get("solver_s", 0.0) + float(mm.group(1))
        mm = re.search(r"size of program expression: (\d+) steps", mt)
        if mm:
            stats["steps"] = int(mm.group(1))
    return results, stats, status, errors


def classify(results):
    prop_fail, wit_fail, wit_ok, unwind_fail, check_fail, n_prop = [], [], [], [], [], 0
    for r in results:
        d = r.get("description", "")
        st = r.get("status")
        if d.startswith("WITNESS"):
            (wit_fail if st == "FAILURE" else wit_ok).append(r)
        elif d.startswith("P:"):
            n_prop += 1
            if st == "FAILURE":
                prop_fail.append(r)
        elif "unwinding assertion" in d or "recursion unwinding" in d or d.startswith("INTERNAL"):
            if st == "FAILURE":
                unwind_fail.append(r)
        else:
            if st == "FAILURE":
                check_fail.append(r)
    return prop_fail, wit_fail, wit_ok, unwind_fail, check_fail, n_prop


def cbmc_flags(q):
    fl = ["--unwinding-assertions", "--drop-unused-functions", "--no-malloc-may-fail",
          "--no-standard-checks", "--no-built-in-assertions"]
    if getattr(q, "restrict_fp", None):
        # the 'dereferenced function pointer must be ...' assertions generated by
        # goto-instrument --restrict-function-pointer are built-in assertions: keep them checked
        fl.remove("--no-built-in-assertions")
    for c in q.checks:
        fl.append(CHECK_FLAGS[c])
    if q.unwind is not None:
        fl += ["--unwind", str(q.unwind)]
    if q.unwindset:
        fl += ["--unwindset", ",".join(q.unwindset)]
    if q.object_bits:
        fl += ["--object-bits", str(q.object_bits)]
    if q.solver == "cadical":
        fl += ["--sat-solver", "cadical"]
    elif q.solver == "kissat":
        fl += ["--external-sat-solver", "kissat"]
    elif q.solver == "minisat":
        pass
    else:
        raise InternalError("unknown solver " + q.solver)
    fl += q.extra_cbmc
    return fl


def compile_goto(ctx, q, qdir, overlays, defs):
    incs = ctx.inc_flags(overlays, q.incs)
    srcs, units = [], list(q.units)
    for s in q.srcs:
        if s.startswith("repo:"):
            rel = s[5:]
            srcs.append(ctx.resolve(rel, overlays))
            if rel not in units:
                units.append(rel)
        elif os.path.isabs(s):
            srcs.append(s)
        else:
            srcs.append(os.path.join(ctx.pdir, s))
    out = os.path.join(qdir, "q.gb")
    cmd = (["goto-cc", "-o", out] + PRODUCT_DEFS + PRODUCT_FLAGS + q.cflags +
           ["-D" + d for d in defs] + incs + srcs)
    rc, o, e, secs, _ = run_cmd(cmd, cwd=qdir, timeout=600)
    if rc != 0:
        raise InternalError("goto-cc failed for %s:\n%s" % (q.name, (e or o)[-3000:]))
    if q.remove_bodies:
        out2 = os.path.join(qdir, "q2.gb")
        cmd2 = ["goto-instrument"]
        for f in q.remove_bodies:
            cmd2 += ["--remove-function-body", f]
        cmd2 += [out, out2]
        rc, o, e, _, _ = run_cmd(cmd2, cwd=qdir, timeout=600)
        if rc != 0:
            raise InternalError("goto-instrument failed for %s:\n%s" % (q.name, (e or o)[-2000:]))
        out = out2
    if getattr(q, "restrict_fp", None):
        out3 = os.path.join(qdir, "q3.gb")
        cmd3 = ["goto-instrument"]
        for site, targets in q.restrict_fp:
            cmd3 += ["--restrict-function-pointer", "%s/%s" % (site, ",".join(targets))]
        cmd3 += [out, out3]
        rc, o, e, _, _ = run_cmd(cmd3, cwd=qdir, timeout=600)
        if rc != 0 or not os.path.exists(out3):
            raise InternalError("goto-instrument --restrict-function-pointer failed for %s:\n%s" % (q.name, (e or o)[-2000:]))
        out = out3
    return out, cmd, units, srcs


def extract_inputs(trace):
    vals = []
    for st in trace:
        if st.get("stepType") != "assignment":
            continue
        lhs = st.get("lhs", "")
        if lhs == "vp_in_v" and not st.get("hidden"):
            v = st.get("value", {})
            d = v.get("data")
            if d is None:
                continue
            vals.append(str(d).rstrip("lLuU"))
    return vals


def trace_text(trace, limit=4000):
    lines = []
    for st in trace:
        t = st.get("stepType")
        loc = st.get("sourceLocation", {})
        where = "%s:%s" % (loc.get("file", "?").split("/")[-1], loc.get("line", "?"))
        if t == "assignment" and not st.get("hidden"):
            v = st.get("value", {})
            lines.append("%s  [t%s] %s = %s" % (where, st.get("thread", 0), st.get("lhs"), v.get("data", v.get("name", "?"))))
        elif t == "function-call":
            lines.append("%s  [t%s] call %s" % (where, st.get("thread", 0), st.get("function", {}).get("displayName")))
        elif t == "failure":
            lines.append("%s  FAILURE %s" % (where, st.get("reason")))
    if len(lines) > limit:
        lines = lines[:limit // 2] + ["..."] + lines[-limit // 2:]
    return "\n".join(lines) + "\n"


def native_replay(ctx, q, qdir, overlays, defs, srcs, replay_file):
    exe = os.path.join(qdir, "native.exe")
    incs = ctx.inc_flags(overlays, q.incs)
    nat_srcs = [s for s in srcs]
    cmd = (["gcc", "-g", "-O0", "-w", "-fsanitize=address,undefined", "-fno-sanitize-recover=undefined",
            "-DVP_NATIVE", "-ffunction-sections", "-fdata-sections", "-Wl,--gc-sections",
            "-Wl,--unresolved-symbols=ignore-in-object-files", "-o", exe] + PRODUCT_DEFS + PRODUCT_FLAGS + q.cflags +
           ["-D" + d for d in defs] + incs + nat_srcs + ["-lpthread", "-lm"])
    rc, o, e, _, _ = run_cmd(cmd, cwd=qdir, timeout=600)
    if rc != 0:
        return "build-failed", (e or o)[-3000:], cmd
    # symbols that stay undefined (externals of the included unit that the scenario never reaches) would make
    # the loader reject the executable ("unexpected PLT reloc type"): bind each of them to address 0 instead
    strict = [x for x in cmd if x != "-Wl,--unresolved-symbols=ignore-in-object-files"]
    rc2, o2, e2, _, _ = run_cmd(strict, cwd=qdir, timeout=600)
    if rc2 != 0:
        undef = sorted(set(re.findall(r"undefined reference to `([A-Za-z_][A-Za-z0-9_]*)'", (e2 or "") + (o2 or ""))))
        if undef:
            cmd = strict + ["-Wl,--defsym=%s=0" % u for u in undef]
            rc, o, e, _, _ = run_cmd(cmd, cwd=qdir, timeout=600)
            if rc != 0:
                return "build-failed", (e or o)[-3000:], cmd
    env = dict(os.environ, VP_REPLAY=replay_file, ASAN_OPTIONS="detect_leaks=0:abort_on_error=0",
               UBSAN_OPTIONS="print_stacktrace=1")
    rc, o, e, _, _ = run_cmd([exe], cwd=qdir, timeout=120, env=env)
    txt = (o or "") + (e or "")
    if rc == 1 and "VP-ASSERT-FAIL" in txt:
        return "reproduced", txt[-3000:], cmd
    if rc == 77:
        return "assume-failed", txt[-3000:], cmd
    if rc == 127 or "error while loading shared libraries" in txt or "symbol lookup error" in txt:
        return "build-failed", txt[-3000:], cmd
    if rc not in (0, 77, 78) or "AddressSanitizer" in txt or "runtime error" in txt:
        return "reproduced-crash", txt[-3000:], cmd
    return "not-reproduced", txt[-3000:], cmd


def run_query(ctx, q, tag="", extra_defs=(), mut_overlay=None, want_replay=True, replay_root=None):
    """Compile + solve one query.  Returns a result dict."""
    # private copy: gen() and the unwind plumbing extend the query's lists
    q = copy.copy(q)
    q.srcs, q.units, q.unwindset, q.defs = list(q.srcs), list(q.units), list(q.unwindset), list(q.defs)
    q.unwind_fn, q.info = dict(q.unwind_fn), copy.deepcopy(q.info)
    qname = q.name + (("." + tag) if tag else "")
    qdir = os.path.join(ctx.work, re.sub(r"[^A-Za-z0-9_.-]", "_", qname))
    os.makedirs(qdir, exist_ok=True)
    res = {"query": qname, "engine": q.engine, "verdict": "error", "info": q.info}
    t0 = time.time()
    sem = ctx.slow_sem if q.slow else None
    if sem:
        sem.acquire()
    try:
        overlays = []
        if mut_overlay:
            overlays.append(mut_overlay)
        if q.patches:
            ov = os.path.join(qdir, "ov")
            make_overlay(ctx, ov, [(p[0], p[1], p[2], True, 0) for p in q.patches], overlays)
            # the patched copy is derived from the (possibly mutated) file: it must shadow the mutant overlay
            overlays.insert(0, ov)
        if q.gen:
            q.gen(ctx, q, qdir, overlays)
        defs = list(q.defs) + list(extra_defs)
        if not q.nowitness:
            defs.append("WITNESS")
        gb, ccmd, units, srcs = compile_goto(ctx, q, qdir, overlays, defs)
        res["units"] = {u: ctx.sha1(u) for u in units}
        if q.unwind_fn:
            rc0, o0, e0, _, _ = run_cmd(["goto-instrument", "--show-loops", gb], cwd=qdir, timeout=300)
            for mm in re.finditer(r"^Loop ([\w$.]+)\.(\d+):", o0 or "", flags=re.M):
                if mm.group(1) in q.unwind_fn:
                    q.unwindset.append("%s.%s:%d" % (mm.group(1), mm.group(2), q.unwind_fn[mm.group(1)]))
        fl = cbmc_flags(q)
        timeout = q.timeout or (3600 if ctx.thorough else 900)
        mem = q.mem_gb or (24 if ctx.thorough else 12)
        cmd = ["cbmc", gb] + fl + ["--json-ui"]
        res["cbmc"] = " ".join(["cbmc", "q.gb"] + fl)
        res["goto_cc"] = " ".join(x for x in ccmd if not x.startswith("-I"))
        outp = os.path.join(qdir, "out.json")
        rc, _, err, secs, peak = run_cmd(cmd, cwd=qdir, timeout=timeout, mem_gb=mem, stdout_path=outp)
        res["seconds"] = round(secs, 2)
        res["peak_kb"] = peak
        if rc is None:
            res["error"] = "timeout after %ds (no verdict)" % timeout
            return res
        with open(outp) as f:
            text = f.read()
        results, stats, status, errors = parse_cbmc_json(text)
        res.update(stats)
        if results is None:
            res["error"] = "no verdict (rc=%s): %s %s" % (rc, "; ".join(errors)[-600:], (err or "")[-400:])
            return res
        # a per-assertion status other than SUCCESS/FAILURE (CBMC prints ERROR/UNKNOWN when the
        # SAT solver ran out of memory) is "no verdict", never a pass
        undecided = [r for r in results if r.get("status") not in ("SUCCESS", "FAILURE")]
        # ... unless a property / memory-safety assertion was definitely violated in the same run: a FAILURE is
        # a verdict on its own (CBMC reports UNKNOWN for checks located after a failed memory-safety check)
        definite = [r for r in results if r.get("status") == "FAILURE" and not r.get("description", "").startswith("WITNESS")
                    and "unwinding assertion" not in r.get("description", "") and "recursion unwinding" not in r.get("description", "")]
        if undecided and not definite:
            res["error"] = "no verdict: %d assertion(s) with status %s (solver out of memory?) %s" % (
                len(undecided), undecided[0].get("status"), "; ".join(errors)[-300:])
            return res
        prop_fail, wit_fail, wit_ok, unwind_fail, check_fail, n_prop = classify(results)
        res["assertions"] = n_prop
        res["witnesses"] = len(wit_fail) + len(wit_ok)
        res["total_properties"] = len(results)
        if unwind_fail:
            res["error"] = "unwinding bound too small: " + "; ".join(
                r.get("property", "?") for r in unwind_fail[:5])
            return res
        if prop_fail or check_fail:
            res["verdict"] = "violation"
            res["failed"] = [r.get("description") for r in (prop_fail + check_fail)][:10]
            res["failed_kind"] = "property" if prop_fail else "memory-safety"
            if want_replay:
                first = (prop_fail + check_fail)[0]
                # the trace run must NOT slice the formula: --slice-formula drops the assignments of inputs that do not
                # influence the property from the equation, they are then missing from the trace and the remaining IN_*
                # values would be replayed natively in shifted positions (counterexample "not reproduced")
                cmd2 = ["cbmc", gb] + [x for x in fl if x != "--slice-formula"] + ["--json-ui", "--trace", "--property", first["property"]]
                outp2 = os.path.join(qdir, "trace.json")
                rc2, _, _, _, _ = run_cmd(cmd2, cwd=qdir, timeout=timeout, mem_gb=mem, stdout_path=outp2)
                trace = None
                if rc2 is not None:
                    with open(outp2) as f:
                        r2, _, _, _ = parse_cbmc_json(f.read())
                    for r in (r2 or []):
                        if r.get("status") == "FAILURE" and "trace" in r:
                            trace = r["trace"]
                            break
                rroot = replay_root or os.environ.get("VP_REPLAY_DIR") or os.path.join(VERIF, "evidence", "replays")
                rdir = os.path.join(rroot, "%s-%s" % (ctx.pid, re.sub(r"[^A-Za-z0-9_.-]", "_", qname)))
                shutil.rmtree(rdir, ignore_errors=True)
                os.makedirs(rdir, exist_ok=True)
                res["replay_dir"] = rdir
                with open(os.path.join(rdir, "failed.txt"), "w") as f:
                    f.write("\n".join(res["failed"]) + "\n")
                    f.write("goto-cc: %s\ncbmc: %s\n" % (" ".join(ccmd), res["cbmc"]))
                if trace is not None:
                    with open(os.path.join(rdir, "trace.txt"), "w") as f:
                        f.write(trace_text(trace))
                    vals = extract_inputs(trace)
                    rp = os.path.join(rdir, "replay.txt")
                    with open(rp, "w") as f:
                        f.write("\n".join(vals) + "\n")
                    res["inputs"] = vals[:64]
                    for s in srcs:
                        if s.startswith(ctx.pdir) or s.startswith(ctx.work):
                            try:
                                shutil.copy(s, rdir)
                            except OSError:
                                pass
                    if q.native:
                        ndefs = [d for d in defs]
                        st, txt, ncmd = native_replay(ctx, q, qdir, overlays, ndefs, srcs, rp)
                        res["native_replay"] = st
                        with open(os.path.join(rdir, "replay.json"), "w") as f:
                            json.dump({"property": ctx.pid, "query": qname, "build": [("native.exe" if x == os.path.join(qdir, "native.exe") else x) for x in ncmd],
                                       "status_when_found": st, "failed": res["failed"]}, f, indent=1)
                        with open(os.path.join(rdir, "native.txt"), "w") as f:
                            f.write("status: %s\nbuild: %s\nrun: VP_REPLAY=replay.txt ./native.exe\n\n%s\n" % (st, " ".join(ncmd), txt))
                    else:
                        res["native_replay"] = "n/a (schedule-dependent; replay = solver trace)"
                else:
                    res["native_replay"] = "no-trace"
            return res
        # all property assertions hold
        if q.nowitness:
            res["verdict"] = "hold"
            res["witness"] = "none"
            return res
        if not wit_fail and not wit_ok:
            res["error"] = "harness has no WITNESS assertion"
            return res
        if wit_ok:
            res["error"] = "vacuous: witness unreachable: " + "; ".join(r.get("description", "") for r in wit_ok[:4])
            return res
        res["verdict"] = "hold"
        res["witness"] = "reachable(%d)" % len(wit_fail)
        return res
    except InternalError as e:
        res["error"] = str(e)
        return res
    except Exception as e:  # pragma: no cover
        res["error"] = "driver exception: %s\n%s" % (e, traceback.format_exc()[-1500:])
        return res
    finally:
        if sem:
            sem.release()
        res.setdefault("seconds", round(time.time() - t0, 2))
        if not ctx.keep:
            # keep only small files
            for fn in ("q.gb", "q2.gb", "q3.gb", "native.exe", "out.json", "trace.json"):
                try:
                    os.unlink(os.path.join(qdir, fn))
                except OSError:
                    pass


def load_spec(pid):
    p = os.path.join(VERIF, "harness", pid, "spec.py")
    if not os.path.exists(p):
        raise SystemExit("no such property harness: %s" % pid)
    sp = importlib.util.spec_from_file_location("spec_" + pid, p)
    mod = importlib.util.module_from_spec(sp)
    sp.loader.exec_module(mod)
    return mod


def load_known():
    p = os.path.join(VERIF, "known_findings.json")
    if not os.path.exists(p):
        return []
    with open(p) as f:
        return json.load(f).get("findings", [])


def kf_macro(kid):
    return re.sub(r"[^A-Za-z0-9]", "_", kid).upper()


def main():
    ap = argparse.ArgumentParser()
    ap.add_argument("pid")
    ap.add_argument("--tier", default=os.environ.get("VERIF_TIER", "quick"), choices=["quick", "thorough"])
    ap.add_argument("--mutants", action="store_true", help="also run the seeded-mutation self-test")
    ap.add_argument("--no-mutants", action="store_true")
    ap.add_argument("--only", default="", help="comma separated query names")
    ap.add_argument("--keep", action="store_true")
    ap.add_argument("--jobs", type=int, default=int(os.environ.get("VP_JOBS", "0") or 0))
    ap.add_argument("--no-evidence", action="store_true")
    ap.add_argument("--replay", default="", help="re-run a saved counterexample natively (path of a replay directory)")
    args = ap.parse_args()
    if args.replay:
        sys.exit(do_replay(args.replay))
    t0 = time.time()
    jobs = args.jobs or min(16, os.cpu_count() or 4)
    work = tempfile.mkdtemp(prefix="vp.%s." % args.pid, dir=os.environ.get("TMPDIR", "/tmp"))
    ctx = Ctx(args.pid, args.tier, work, jobs, keep=args.keep)
    rc = 2
    try:
        rc = drive(ctx, args, t0)
    finally:
        if args.keep:
            say("scratch kept at", work)
        else:
            shutil.rmtree(work, ignore_errors=True)
    sys.exit(rc)


def do_replay(rdir):
    """Rebuild the saved native harness against the CURRENT sources and run it on the saved inputs.
    Exit 1 (and print the failing assertion) if the violation reproduces, 0 if it does not."""
    rj = os.path.join(rdir, "replay.json")
    if not os.path.exists(rj):
        tr = os.path.join(rdir, "trace.txt")
        say("no native replay recorded for this counterexample (schedule-level: see %s)" % tr)
        return 1 if os.path.exists(tr) else 2
    with open(rj) as f:
        rec = json.load(f)
    work = tempfile.mkdtemp(prefix="vp.replay.")
    try:
        exe = os.path.join(work, "native.exe")
        cmd = [exe if x == "native.exe" else x for x in rec["build"]]
        # harness / generated sources were copied next to the inputs: prefer those copies if the scratch path is gone
        cmd = [os.path.join(rdir, os.path.basename(x)) if (x.endswith(".c") and not os.path.exists(x) and os.path.exists(os.path.join(rdir, os.path.basename(x)))) else x for x in cmd]
        rc, o, e, _, _ = run_cmd(cmd, cwd=work, timeout=600)
        if rc != 0:
            say("replay build failed:\n" + (e or o)[-2000:])
            return 2
        env = dict(os.environ, VP_REPLAY=os.path.join(rdir, "replay.txt"), ASAN_OPTIONS="detect_leaks=0")
        rc, o, e, _, _ = run_cmd([exe], cwd=work, timeout=120, env=env)
        say((o or "") + (e or "")[-3000:])
        if rc == 0:
            say("replay: NOT reproduced (exit 0)")
            return 0
        say("replay: reproduced (exit %s) property=%s query=%s" % (rc, rec.get("property"), rec.get("query")))
        return 1
    finally:
        shutil.rmtree(work, ignore_errors=True)


def drive(ctx, args, t0):
    spec = load_spec(ctx.pid)
    known = [k for k in load_known() if k.get("property") == ctx.pid]
    known_active = {k["id"]: k for k in known if k.get("status") == "known"}
    queries = [q for q in spec.queries(ctx) if ctx.tier in q.tiers]
    if args.only:
        sel = set(args.only.split(","))
        queries = [q for q in queries if q.name in sel]
    if not queries:
        say("INTERNAL-ERROR no queries for", ctx.pid)
        return 2
    jobs = []   # (q, tag, defs, role)
    for q in queries:
        if q.kf and q.kf in known_active:
            m = kf_macro(q.kf)
            jobs.append((q, "excl", ["KF_EXCLUDE_" + m], "main"))
            jobs.append((q, "only", ["KF_ONLY_" + m], "kf"))
        else:
            jobs.append((q, "", [], "main"))
    results = []
    with concurrent.futures.ThreadPoolExecutor(max_workers=ctx.jobs) as ex:
        futs = {}
        for (q, tag, defs, role) in jobs:
            f = ex.submit(run_query, ctx, q, tag, defs, None, True)
            futs[f] = (q, role)
        for f in concurrent.futures.as_completed(futs):
            q, role = futs[f]
            r = f.result()
            r["role"] = role
            r["kf"] = q.kf
            results.append(r)
            say("  [%s] %-34s %-9s %6.1fs %6dMB %s" % (
                ctx.pid, r["query"], r["verdict"], r.get("seconds", 0), r.get("peak_kb", 0) // 1024,
                r.get("witness", r.get("error", ""))[:200] if r["verdict"] != "violation" else
                ("%s | replay:%s" % ("; ".join(r.get("failed", []))[:160], r.get("native_replay")))))
    results.sort(key=lambda r: r["query"])
    violations, errors, kf_lines = [], [], []
    for r in results:
        if r["role"] == "kf":
            # the query restricted to the recorded failing class: expected to fail
            if r["verdict"] == "violation":
                k = known_active[r["kf"]]
                kf_lines.append("KNOWN-FINDING: property=%s %s" % (ctx.pid, k.get("what", k["id"])))
            elif r["verdict"] == "error":
                errors.append(r)
            continue
        if r["verdict"] == "violation":
            nr = r.get("native_replay", "")
            if nr in ("not-reproduced", "assume-failed", "build-failed", "no-trace") and r.get("failed_kind") == "property":
                r["error"] = "counterexample not reproduced natively (%s): harness/stub defect" % nr
                errors.append(r)
            else:
                violations.append(r)
        elif r["verdict"] == "error":
            errors.append(r)
    for l in sorted(set(kf_lines)):
        say(l)
    # mutation self-test
    mut_report = []
    do_mut = (args.mutants or (ctx.thorough and not args.no_mutants)) and hasattr(spec, "mutants") and not violations and not errors
    if do_mut:
        mut_report = run_mutants(ctx, spec, queries, known_active)
    wall = time.time() - t0
    if not args.no_evidence and not args.only:
        write_evidence(ctx, spec, results, violations, errors, kf_lines, mut_report, wall)
    for r in errors:
        say("INTERNAL-ERROR property=%s query=%s %s" % (ctx.pid, r["query"], r.get("error", "")[:1500]))
    for r in violations:
        say("VIOLATION property=%s replay=%s" % (ctx.pid, r.get("replay_dir", "-")))
    if violations:
        return 1
    if errors:
        return 2
    say("OK property=%s tier=%s queries=%d wall=%.1fs" % (ctx.pid, ctx.tier, len(results), wall))
    return 0


def run_mutants(ctx, spec, queries, known_active):
    report = []
    muts = spec.mutants(ctx)
    qbyname = {q.name: q for q in queries}

    def one(m):
        ov = os.path.join(ctx.work, "mut_" + re.sub(r"[^A-Za-z0-9_.-]", "_", m.name))
        try:
            make_overlay(ctx, ov, [(m.path, m.old, m.new, m.regex, m.count)])
        except InternalError as e:
            return {"mutant": m.name, "status": "inapplicable", "detail": str(e)}
        qs = [qbyname[n] for n in (m.queries or list(qbyname)) if n in qbyname]
        killed_by, errs = [], []
        for q in qs:
            defs = []
            if q.kf and q.kf in known_active:
                defs = ["KF_EXCLUDE_" + kf_macro(q.kf)]
            r = run_query(ctx, q, "mut." + m.name, defs, ov, True, os.path.join(ctx.work, "mutreplays"))
            if r["verdict"] == "violation":
                killed_by.append({"query": q.name, "failed": r.get("failed", [])[:3], "native_replay": r.get("native_replay"),
                                  "seconds": r.get("seconds")})
                break
            if r["verdict"] == "error":
                errs.append({"query": q.name, "error": r.get("error", "")[:300]})
        st = "killed" if killed_by else ("error" if errs else "survived")
        return {"mutant": m.name, "file": m.path, "status": st, "killed_by": killed_by, "errors": errs,
                "change": "%s -> %s" % (m.old[:80], m.new[:80])}

    with concurrent.futures.ThreadPoolExecutor(max_workers=max(1, ctx.jobs // 2)) as ex:
        for rep in ex.map(one, muts):
            report.append(rep)
            say("  [%s] mutant %-30s %s" % (ctx.pid, rep["mutant"], rep["status"]))
    return report


def write_evidence(ctx, spec, results, violations, errors, kf_lines, mut_report, wall):
    main = [r for r in results if r["role"] == "main"]
    held = [r for r in main if r["verdict"] == "hold"]
    nontrivial = [r for r in held if str(r.get("witness", "")).startswith("reachable")]
    samples = []
    for r in results:
        s = {k: r.get(k) for k in ("query", "engine", "verdict", "witness", "units", "cbmc", "goto_cc", "variables", "clauses",
                                   "steps", "solver_s", "seconds", "peak_kb", "assertions", "witnesses", "info", "failed",
                                   "native_replay", "inputs", "error", "role") if r.get(k) is not None}
        samples.append(s)
    ev = {
        "property_id": ctx.pid,
        "tier": ctx.tier,
        "seed": ctx.seed,
        "level": "model_checking",
        "coverage": {
            "evaluations": len(results),
            "distinct_nontrivial": len(nontrivial),
            "rule": "one evaluation = one bounded solver query (CBMC + SAT) over the real code, all symbolic inputs "
                    "quantified inside the query; a query counts as non-trivial iff every property assertion was "
                    "shown to hold AND its vacuity witness (assert(0) after the last property assertion) was shown "
                    "reachable by the same solver run; queries differ in harness, bounds or enumerated parameters.",
            "samples": samples,
            "exhaustive": False,
            "queries_held": len(held),
            "assertions_discharged": sum(r.get("assertions", 0) for r in held),
            "solver_seconds": round(sum(r.get("solver_s", 0) or 0 for r in results), 2),
            "query_seconds": round(sum(r.get("seconds", 0) or 0 for r in results), 2),
            "known_findings_reported": sorted(set(kf_lines)),
            "outside_claim": getattr(spec, "OUTSIDE", []),
            "bounds": getattr(spec, "BOUNDS", {}).get(ctx.tier, getattr(spec, "BOUNDS", {})) if isinstance(getattr(spec, "BOUNDS", {}), dict) else getattr(spec, "BOUNDS"),
            "mutants": mut_report,
            "mutants_killed": sum(1 for m in mut_report if m["status"] == "killed"),
            "repo": ctx.repo,
        },
        "assumptions": list(getattr(spec, "ASSUMPTIONS", [])) + [
            "CBMC 6.11 C semantics and its models of __sync_*/malloc/varargs; SAT back end (cadical/kissat)",
            "allocation failure out of scope (--no-malloc-may-fail)",
            "sequential consistency for every concurrent query",
            "every verdict is bounded by the unwind/size bounds listed per query; unwinding assertions were on",
        ],
        "wall_s": round(wall, 2),
        "violations": len(violations),
    }
    # mutation self-test: results of THIS run if it ran (thorough tier / --mutants), else the last
    # recorded self-test (clearly labelled as recorded earlier, not measured by this run)
    mdir = os.path.join(VERIF, "evidence", "mutants")
    mfile = os.path.join(mdir, ctx.pid + ".json")
    if mut_report:
        os.makedirs(mdir, exist_ok=True)
        with open(mfile, "w") as f:
            json.dump({"property": ctx.pid, "tier": ctx.tier, "recorded_at": time.strftime("%Y-%m-%dT%H:%M:%SZ", time.gmtime()),
                       "killed": sum(1 for m in mut_report if m["status"] == "killed"), "total": len(mut_report),
                       "mutants": [{k: m.get(k) for k in ("mutant", "file", "status", "change")} for m in mut_report]}, f, indent=1, sort_keys=True)
        ev["coverage"]["mutation_selftest"] = {"this_run": True}
    elif os.path.exists(mfile):
        with open(mfile) as f:
            ev["coverage"]["mutation_selftest"] = {"this_run": False, "last_recorded": json.load(f)}
    if errors:
        ev["coverage"]["internal_errors"] = [{"query": r["query"], "error": r.get("error", "")[:500]} for r in errors]
    os.makedirs(os.path.join(VERIF, "evidence"), exist_ok=True)
    with open(os.path.join(VERIF, "evidence", ctx.pid + ".json"), "w") as f:
        json.dump(ev, f, indent=1, sort_keys=True)
        f.write("\n")


if __name__ == "__main__":
    main()
