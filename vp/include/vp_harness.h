/* Common harness vocabulary.
 *
 * CBMC mode (__CPROVER__ defined by goto-cc): inputs are nondeterministic
 * symbols, VASSERT is a solver obligation, VWITNESS is the vacuity witness
 * (an assertion that MUST be reported as violated: it shows the end of the
 * harness is reachable under all the assumptions made).
 *
 * Native replay mode (gcc, -DVP_NATIVE): inputs are read, in drawing order,
 * from the file named by $VP_REPLAY (one decimal per line, extracted from the
 * solver's counterexample trace); VASSERT prints and exits 1, a violated
 * VASSUME exits 77 (the replay does not satisfy the harness contract = the
 * counterexample is not reproduced), VWITNESS is a no-op.
 */
#ifndef VP_HARNESS_H
#define VP_HARNESS_H
#include <stdint.h>
#include <stddef.h>

#if defined(VP_SEQIR)
/* Engine S front half: the harness is compiled by clang to LLVM IR; the
 * vocabulary is kept as calls that vp/ll2c.py re-emits in the generated C. */
extern void __vp_assert(int c, const char *msg);
extern void __vp_assume(int c);
extern void __vp_witness(const char *tag);
extern long long __vp_in(void);
#define IN_LL()           __vp_in()
#define VASSERT(c)        __vp_assert(!!(c), #c)
#define VASSERTM(c, msg)  __vp_assert(!!(c), msg)
#define VASSUME(c)        __vp_assume(!!(c))
#define VWITNESS(tag)     __vp_witness(tag)
#define VP_ATOMIC_BEGIN() do { } while (0)
#define VP_ATOMIC_END()   do { } while (0)
#elif !defined(VP_NATIVE)
long long nondet_longlong(void);
/* every input goes through vp_in_v so that the driver can recover the drawn
 * values, in order, from the assignments to vp_in_v in the CBMC trace */
static inline long long IN_LL(void) { long long vp_in_v = nondet_longlong(); return vp_in_v; }
#define VASSERT(c)        __CPROVER_assert((c), "P: " #c)
#define VASSERTM(c, msg)  __CPROVER_assert((c), "P: " msg)
#define VASSUME(c)        __CPROVER_assume(c)
#define VWITNESS(tag)     __CPROVER_assert(0, "WITNESS: " tag)
#define VP_INTERNAL_FAIL(msg) __CPROVER_assert(0, msg)
#define VP_ATOMIC_BEGIN() __CPROVER_atomic_begin()
#define VP_ATOMIC_END()   __CPROVER_atomic_end()
#else
#include <stdio.h>
#include <stdlib.h>
static FILE *vp_replay_f;
static inline long long IN_LL(void)
{
    long long v = 0;
    if (!vp_replay_f) {
        const char *p = getenv("VP_REPLAY");
        vp_replay_f = p ? fopen(p, "r") : NULL;
        if (!vp_replay_f) { fprintf(stderr, "VP: no replay file\n"); exit(78); }
    }
    if (fscanf(vp_replay_f, "%lld", &v) != 1) { fprintf(stderr, "VP: replay exhausted\n"); exit(78); }
    return v;
}
#define VASSERT(c)        do { if (!(c)) { printf("VP-ASSERT-FAIL: %s (%s:%d)\n", #c, __FILE__, __LINE__); fflush(stdout); exit(1); } } while (0)
#define VASSERTM(c, msg)  do { if (!(c)) { printf("VP-ASSERT-FAIL: %s (%s:%d)\n", msg, __FILE__, __LINE__); fflush(stdout); exit(1); } } while (0)
#define VASSUME(c)        do { if (!(c)) { printf("VP-ASSUME-FAIL: %s (%s:%d)\n", #c, __FILE__, __LINE__); fflush(stdout); exit(77); } } while (0)
#define VWITNESS(tag)     do { } while (0)
#define VP_INTERNAL_FAIL(msg) do { printf("VP-INTERNAL: %s\n", msg); exit(79); } while (0)
#define VP_ATOMIC_BEGIN() do { } while (0)
#define VP_ATOMIC_END()   do { } while (0)
#define __CPROVER_assume(c) VASSUME(c)
#define __CPROVER_assert(c, m) VASSERTM(c, m)
#endif

#define IN_INT()   ((int)IN_LL())
#define IN_UINT()  ((unsigned)IN_LL())
#define IN_LONG()  ((long)IN_LL())
#define IN_BOOL()  ((_Bool)(IN_LL() & 1))
#define IN_U8()    ((uint8_t)IN_LL())
#define IN_U64()   ((uint64_t)IN_LL())
/* an int in [lo,hi] */
static inline int IN_RANGE(int lo, int hi) { int v = IN_INT(); VASSUME(v >= lo && v <= hi); return v; }

#endif
