/* Engine G prelude: include BEFORE the ptgpp-generated .c (see vp_ptg.h). */
#ifndef VP_PTG_PRE_H
#define VP_PTG_PRE_H
#include <stdio.h>
#include <stdarg.h>
#include <stddef.h>
#define VP_STR_(x) #x
#define VP_STR(x) VP_STR_(x)
#define VP_CAT_(a, b) a##b
#define VP_CAT(a, b) VP_CAT_(a, b)
#define VP_CAT3(a, b, c) VP_CAT(VP_CAT(a, b), c)
#define VP_CAT4(a, b, c, d) VP_CAT(VP_CAT3(a, b, c), d)
#define VP_CAT5(a, b, c, d, e) VP_CAT(VP_CAT4(a, b, c, d), e)
/* every snprintf of the generated code (key_print, task_snprintf) goes to the capture stub */
static int vp_snprintf(char *buf, size_t sz, const char *fmt, ...);
#define snprintf vp_snprintf
/* -DVP_PTG_STUB_MEMPOOL: the generated startup code allocates tasks with the inline
 * parsec_thread_mempool_allocate (lock-free LIFO pop); redirect it to the harness'
 * vp_task_alloc(parsec_thread_mempool_t*) (the mempool is C27's unit, not Engine G's). */
#ifdef VP_PTG_STUB_MEMPOOL
#include "parsec.h"
#include "parsec/parsec_internal.h"
#include "parsec/execution_stream.h"
#include "parsec/mempool.h"
static void *vp_task_alloc(parsec_thread_mempool_t *mp);
#define parsec_thread_mempool_allocate vp_task_alloc
#endif
/* -DVP_PTG_STUB_RING: the generated startup code collects new tasks with the inline
 * parsec_list_item_ring_push_sorted (list_item.h, C31's unit); redirect it to the harness'
 * vp_ring_push_sorted(ring, item, offset) so that no pointer-linked ring is built. */
#ifdef VP_PTG_STUB_RING
#include "parsec.h"
#include "parsec/class/list_item.h"
static parsec_list_item_t *vp_ring_push_sorted(parsec_list_item_t *ring, parsec_list_item_t *item, size_t off);
#define parsec_list_item_ring_push_sorted vp_ring_push_sorted
#endif
/* JDF epilogues may carry a main() */
#define main generated_main
#endif
