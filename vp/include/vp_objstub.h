/* Harness-side replacement for parsec/class/parsec_object.c (the object system itself is the
 * unit of property C34, where the real file is linked).  Same algorithm as the real
 * parsec_class_initialize(), but the constructor/destructor tables live in static arrays
 * instead of a malloc'ed block, so that the function pointers read back by
 * parsec_obj_run_constructors() stay constant for the symbolic executor (DESIGN 1.5).
 * With -DVP_REAL_OBJ nothing is defined here and the query links the real parsec_object.c. */
#ifndef VP_OBJSTUB_H
#define VP_OBJSTUB_H
#include "parsec/class/parsec_object.h"
#ifndef VP_REAL_OBJ
parsec_class_t parsec_object_t_class = { "parsec_object_t", NULL, NULL, NULL, 1, 0, NULL, NULL, sizeof(parsec_object_t) };
#define VP_MAXCLS 12
#define VP_MAXD 6
static parsec_construct_t vp_carr[VP_MAXCLS][VP_MAXD + 1];
static parsec_destruct_t  vp_darr[VP_MAXCLS][VP_MAXD + 1];
static int vp_ncls;
void parsec_class_initialize(parsec_class_t *cls)
{
    if (cls->cls_initialized) return;
    int me = vp_ncls++, nc = 0, nd = 0, depth = 0;
    parsec_class_t *c;
    VASSUME(me < VP_MAXCLS);
    for (c = cls; c; c = c->cls_parent) { if (c->cls_construct) nc++; if (c->cls_destruct) nd++; depth++; }
    VASSUME(nc <= VP_MAXD && nd <= VP_MAXD);
    cls->cls_depth = depth;
    int ci = nc, di = 0;
    vp_carr[me][nc] = 0;
    for (c = cls; c; c = c->cls_parent) {
        if (c->cls_construct) vp_carr[me][--ci] = c->cls_construct;
        if (c->cls_destruct)  vp_darr[me][di++] = c->cls_destruct;
    }
    vp_darr[me][di] = 0;
    cls->cls_construct_array = vp_carr[me];
    cls->cls_destruct_array = vp_darr[me];
    cls->cls_initialized = 1;
}
void parsec_obj_destruct(parsec_object_t *o) { parsec_obj_run_destructors(o); }
void parsec_obj_destruct_and_free(parsec_object_t *o) { parsec_obj_run_destructors(o); free(o); }
#endif
static inline void vp_objstub_reset(void) { }
#endif
