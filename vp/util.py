"""Shared helpers (used by vp/run.py and the engine modules)."""
import os
import subprocess
import tempfile
import time

PRODUCT_DEFS = ["-DBUILDING_PARSEC", "-DYYERROR_VERBOSE", "-D_GNU_SOURCE",
                "-Dparsec_EXPORTS", "-DNDEBUG"]
PRODUCT_FLAGS = ["-std=gnu11", "-m64", "-mcx16"]
MPI_INCS = ["/usr/lib/x86_64-linux-gnu/openmpi/include",
            "/usr/lib/x86_64-linux-gnu/openmpi/include/openmpi"]


class InternalError(Exception):
    pass


def run_cmd(cmd, cwd=None, timeout=None, mem_gb=None, env=None, stdout_path=None):
    """Run cmd under a virtual-memory limit and a wall-clock limit.
    Returns (rc, stdout_text, stderr_text, seconds, peak_kb); rc None = timeout."""
    tf = tempfile.NamedTemporaryFile(prefix="vptime.", delete=False)
    tf.close()
    wrapped = ["/usr/bin/time", "-f", "%e %M", "-o", tf.name] + list(cmd)
    if mem_gb:
        lim = int(mem_gb * 1024 * 1024)
        wrapped = ["bash", "-c", "ulimit -v %d; exec \"$@\"" % lim, "vp"] + wrapped
    t0 = time.time()
    out_f = open(stdout_path, "w") if stdout_path else subprocess.PIPE
    try:
        p = subprocess.Popen(wrapped, cwd=cwd, env=env, stdout=out_f, stderr=subprocess.PIPE,
                             text=True, start_new_session=True)
        try:
            out, err = p.communicate(timeout=timeout)
            rc = p.returncode
        except subprocess.TimeoutExpired:
            try:
                os.killpg(p.pid, 9)
            except OSError:
                pass
            out, err = p.communicate()
            rc = None
    finally:
        if stdout_path:
            out_f.close()
    secs = time.time() - t0
    peak = 0
    try:
        with open(tf.name) as f:
            last = f.read().strip().splitlines()[-1].split()
            peak = int(last[1])
    except Exception:
        pass
    os.unlink(tf.name)
    if stdout_path:
        out = ""
    return rc, out, err, secs, peak


