"""Engine S glue: harness + real sources -> LLVM IR -> ll2c.py -> generated C.

Use from a spec.py:

    from vp.seqir import seqir
    Q("lifo_2x2_r3", [], engine="S", gen=seqir(["h.c", "repo:parsec/class/parsec_lifo.c"],
       threads=["thread0", "thread1"], rounds=3, defs=["SCEN=1"]), unwind=5, ...)

The harness (compiled with -DVP_SEQIR) defines `void setup(void)`, the thread
entry functions and `void check(void)` with VASSERTM/VWITNESS inside, all
written against the real headers.  Steps, all from the CURRENT repo tree:
  1. clang-14 -O1 -Xclang -disable-llvm-passes -g0 -S -emit-llvm (product flags)
  2. llvm-link-14, strip noinline/optnone, opt-14 always-inline,inline,sroa,simplifycfg
  3. vp/ll2c.py -> gen.c (appended to q.srcs; checked by CBMC single-threaded)
  4. translator validation: gen.c built natively with a never-yield schedule and
     the harness built directly by gcc must both run setup; threads in order;
     check() to the same exit status and the same vp_dump() output.
"""
import os
import re
import subprocess
import sys

from vp.util import run_cmd, InternalError, PRODUCT_DEFS, PRODUCT_FLAGS

HERE = os.path.dirname(os.path.abspath(__file__))
# unreferenced code is dropped; symbols that stay undefined (externals the scenario never reaches)
# resolve to 0 in a static link instead of breaking the loader
STATIC_LINK = ["-static", "-ffunction-sections", "-fdata-sections", "-Wl,--gc-sections", "-Wl,--unresolved-symbols=ignore-all"]

DIRECT_MAIN = r'''
/* direct native build of the harness: sequential script, no yields */
#include <stdio.h>
extern void %(setup)s(void); extern void %(check)s(void);
%(decls)s
int main(void){ %(setup)s(); %(calls)s %(check)s(); return 0; }
'''


def seqir(srcs, threads, rounds, defs=(), setup="setup", check="check", extra_passes="", validate=True,
          noprune=False, thread_unwind=3, drain=False, benign=(), ro_fields=(), validate_inputs=None):
    def gen(ctx, q, qdir, overlays):
        incs = ctx.inc_flags(overlays, q.incs)
        lls = []
        paths = []
        for k, s in enumerate(srcs):
            if s.startswith("repo:"):
                path = ctx.resolve(s[5:], overlays)
                if s[5:] not in q.units:
                    q.units.append(s[5:])
            elif os.path.isabs(s):
                path = s
            else:
                path = os.path.join(ctx.pdir, s)
            paths.append(path)
            ll = os.path.join(qdir, "u%d.ll" % k)
            cmd = (["clang-14", "-O1", "-Xclang", "-disable-llvm-passes", "-g0", "-S", "-emit-llvm", "-w",
                    "-fno-vectorize", "-fno-slp-vectorize", "-DVP_SEQIR"] + PRODUCT_DEFS + PRODUCT_FLAGS +
                   ["-D" + d for d in list(defs) + list(q.defs)] + incs + [path, "-o", ll])
            rc, o, e, _, _ = run_cmd(cmd, cwd=qdir, timeout=300)
            if rc != 0:
                raise InternalError("clang failed: %s" % (e or o)[-2000:])
            lls.append(ll)
        linked = os.path.join(qdir, "linked.ll")
        rc, o, e, _, _ = run_cmd(["llvm-link-14", "-S", "-o", linked] + lls, cwd=qdir, timeout=300)
        if rc != 0:
            raise InternalError("llvm-link failed: %s" % (e or o)[-2000:])
        with open(linked) as f:
            txt = f.read()
        txt = re.sub(r"\b(noinline|optnone)\b ?", "", txt)
        with open(linked, "w") as f:
            f.write(txt)
        opt_ll = os.path.join(qdir, "opt.ll")
        passes = "always-inline,inline,sroa,simplifycfg" + (("," + extra_passes) if extra_passes else "")
        rc, o, e, _, _ = run_cmd(["opt-14", "-S", "-inline-threshold=1000000", "-passes=" + passes, linked, "-o", opt_ll],
                                 cwd=qdir, timeout=300)
        if rc != 0:
            raise InternalError("opt failed: %s" % (e or o)[-2000:])
        genc = os.path.join(qdir, "gen.c")
        cmd = [sys.executable, os.path.join(HERE, "ll2c.py"), opt_ll, "--threads", ",".join(threads),
               "--rounds", str(rounds), "--setup", setup, "--check", check] + (["--noprune"] if noprune else []) + (["--drain"] if drain else []) + (["--benign", ",".join(benign)] if benign else []) + (["--ro-fields", ",".join(ro_fields)] if ro_fields else [])
        p = subprocess.run(cmd, capture_output=True, text=True)
        if p.returncode != 0:
            raise InternalError("ll2c failed: %s" % p.stderr[-3000:])
        with open(genc, "w") as f:
            f.write(p.stdout)
        q.srcs.append(genc)
        if not noprune:
            # per resume a thread is never preempted, so a phi-less retry loop makes at most two
            # back-edge traversals before the stutter cut: unwind 3 is exact for them; loops with
            # phi nodes (ordinary loops) keep the query-wide --unwind unless thread_unwind is given
            for t in threads:
                q.unwind_fn.setdefault(t, thread_unwind)
        q.unwind_fn.setdefault("main", max(rounds, len(threads)) + 1)
        q.info.setdefault("seqir", {}).update({"drain_phase": bool(drain), "benign_calls": list(benign)})
        if ro_fields:
            q.info["seqir"]["ro_fields"] = list(ro_fields) + ["(no yield before loads of these struct fields; any thread store to them is an INTERNAL assertion failure of the same query)"]
        q.info.setdefault("seqir", {}).update({
            "threads": threads, "rounds": rounds,
            "yield_points": len(re.findall(r"if\(__yield\(\)\)", p.stdout)),
            "pipeline": "clang-14 -O1 -disable-llvm-passes | llvm-link | opt %s | ll2c.py" % passes,
            "pruning": "off" if noprune else "stutter iterations of phi-less loop headers",
        })
        if validate:
            _validate(ctx, q, qdir, incs, genc, paths, threads, setup, check, list(defs) + list(q.defs), validate_inputs)
    return gen


def _validate(ctx, q, qdir, incs, genc, paths, threads, setup, check, defs, inputs=None):
    """translator validation on a concrete sequential script (never yield)."""
    # (a) generated C, natively, schedule = all zeros (IN_* draws of the harness also 0)
    zeros = os.path.join(qdir, "zeros.txt")
    with open(zeros, "w") as f:
        # harness inputs for the concrete sequential script (default: all zeros); yields draw nothing here (VP_NOYIELD)
        f.write("".join("%d\n" % v for v in (inputs or [])) + "0\n" * 20000)
    exe_g = os.path.join(qdir, "val_gen.exe")
    cmd = ["gcc", "-O0", "-w", "-DVP_NATIVE", "-o", exe_g] + STATIC_LINK + PRODUCT_FLAGS + incs + [genc]
    rc, o, e, _, _ = run_cmd(cmd, cwd=qdir, timeout=300)
    if rc != 0:
        raise InternalError("translator validation: generated C does not compile natively: %s" % (e or o)[-2500:])
    rcg, og, eg, _, _ = run_cmd([exe_g], cwd=qdir, timeout=60, env=dict(os.environ, VP_REPLAY=zeros, VP_NOYIELD="1"))
    # (b) the harness itself, compiled by gcc against the same sources
    dm = os.path.join(qdir, "direct_main.c")
    with open(dm, "w") as f:
        f.write(DIRECT_MAIN % {"setup": setup, "check": check,
                               "decls": " ".join("extern void %s(void);" % t for t in threads),
                               "calls": " ".join("%s();" % t for t in threads)})
    exe_d = os.path.join(qdir, "val_direct.exe")
    cmd = (["gcc", "-O0", "-w", "-DVP_NATIVE", "-DVP_DIRECT", "-o", exe_d] + STATIC_LINK + PRODUCT_DEFS + PRODUCT_FLAGS + ["-D" + d for d in defs] +
           incs + paths + [dm, "-lpthread"])
    rc, o, e, _, _ = run_cmd(cmd, cwd=qdir, timeout=300)
    if rc != 0:
        raise InternalError("translator validation: direct build failed: %s" % (e or o)[-2500:])
    rcd, od, ed, _, _ = run_cmd([exe_d], cwd=qdir, timeout=60, env=dict(os.environ, VP_REPLAY=zeros))
    norm = lambda x: re.sub(r"VP-ASSUME-FAIL:[^\n]*", "VP-ASSUME-FAIL", re.sub(r"\([^()]*:\d+\)", "", x or ""))
    og, od = norm(og), norm(od)
    q.info["seqir"]["translator_validation"] = "gen rc=%s direct rc=%s outputs %s" % (
        rcg, rcd, "equal" if og == od else "DIFFER")
    if rcg != rcd or og != od:
        raise InternalError("translator validation failed: generated C rc=%s out=%r ; direct rc=%s out=%r" % (
            rcg, (og or "")[-500:], rcd, (od or "")[-500:]))
    for x in (exe_g, exe_d):
        try:
            os.unlink(x)
        except OSError:
            pass
