#!/usr/bin/env python3
"""Regenerate MANIFEST.json from harness/*/spec.py (MANIFEST dict of each spec)
and vp/not_applicable.json.  Keeps the file valid at all times: a property is
claimed iff its spec has CLAIMED = True."""
import importlib.util, json, os, sys
VERIF = os.path.dirname(os.path.dirname(os.path.abspath(__file__)))
sys.path.insert(0, VERIF)

def load(pid):
    p = os.path.join(VERIF, "harness", pid, "spec.py")
    sp = importlib.util.spec_from_file_location("spec_" + pid, p)
    m = importlib.util.module_from_spec(sp); sp.loader.exec_module(m); return m

def main():
    props = [json.loads(l) for l in open(os.path.join(VERIF, "properties.jsonl")) if l.strip()]
    na_file = os.path.join(VERIF, "vp", "not_applicable.json")
    na = json.load(open(na_file)) if os.path.exists(na_file) else {}
    checks, not_app, engines = [], [], {}
    for p in props:
        pid = p["id"]
        spec = None
        if os.path.exists(os.path.join(VERIF, "harness", pid, "spec.py")):
            spec = load(pid)
        if spec is not None and getattr(spec, "CLAIMED", False):
            m = getattr(spec, "MANIFEST", {})
            tok = json.load(open(os.path.join(VERIF, "vp", "thorough_ok.json"))) if os.path.exists(os.path.join(VERIF, "vp", "thorough_ok.json")) else None
            checks.append({
                "property_id": pid,
                "quick_cmd": "./check %s --tier quick" % pid,
                "thorough_cmd": "./check %s --tier thorough --no-mutants" % pid,
                "evidence_file": "/verif/evidence/%s.json" % pid,
                "replay_cmd_template": "./check %s --replay {path}" % pid,
                "engine": m.get("engine", "cbmc-src"),
                "level_claimed": {"category": "model_checking",
                                  "text": m["text"], "design_ref": m.get("design_ref", "DESIGN.md §4 " + pid)},
                "level_note": m["note"],
                "technique": m.get("technique", "bounded symbolic execution of the real C code (CBMC 6.11 + SAT), regenerated from /repo on every run"),
            })
            # the thorough tier is registered only where the whole tier was run to completion on this tree
            # (vp/thorough_ok.json, written by tools/thorough_validate.sh); elsewhere the deeper queries stay
            # available through `./check <id> --tier thorough` but are not claimed
            if tok is not None and pid not in tok.get("ok", []):
                checks[-1].pop("thorough_cmd", None)
            for e in m.get("engine", "cbmc-src").split("+"):
                engines.setdefault(e.strip(), []).append(pid)
        else:
            reason = na.get(pid) or "check not built yet in this round (planned in DESIGN.md §4 %s); not claimed" % pid
            not_app.append({"property_id": pid, "reason": reason})
    kinds = {"cbmc-src": "CBMC on the real C translation units compiled by goto-cc with the product flags",
             "cbmc-ptg": "parsec-ptgpp rebuilt from /repo, run on a JDF corpus, generated C executed symbolically by CBMC",
             "cbmc-threads": "CBMC partial-order encoding of pthreads over the real code (all SC interleavings)",
             "seqir": "clang-14 LLVM IR of the real code -> our ll2c.py sequentialization (symbolic schedule) -> CBMC"}
    man = {
        "version": 1,
        "setup_cmd": "python3 vp/setup.py",
        "hooks": {"guard": "PARSEC_VERIF", "enable": "no source hook is needed: static code is reached by #include of the real .c file, yield points by IR translation; checks compile /repo directly",
                  "baseline_off_cmd": "cmake --build /repo/_build -j8 && ctest --test-dir /repo/_build -j8 --timeout 900", "source_commits": [], "add_only": True},
        "engines": [{"name": k, "path": "vp/run.py" if k != "seqir" else "vp/ll2c.py", "serves_properties": sorted(v), "kind_free_text": kinds.get(k, k)} for k, v in sorted(engines.items())],
        "checks": checks,
        "notes": "All checks are solver queries (CBMC+SAT) over code compiled from /repo's working tree at run time; see DESIGN.md (sections 9-14 = as built) and STATUS.md. No source hooks. known_findings.json lists the genuine defects found: 15 repaired by unguarded 'fix:' commits in /repo (after which the 75 baseline tests pass), 8 recorded as known findings (their checks print KNOWN-FINDING and exit 0). Independently seeded changes and which check reports each: /verif/seeded/*/meta.json, DESIGN.md section 11. The thorough tier is registered only where the whole tier was validated on the final tree (vp/thorough_ok.json).",
        "not_applicable": not_app,
    }
    with open(os.path.join(VERIF, "MANIFEST.json"), "w") as f:
        json.dump(man, f, indent=1); f.write("\n")
    print("claimed:", [c["property_id"] for c in checks]); print("not claimed:", len(not_app))

if __name__ == "__main__":
    main()
